"""Drives libjsonnet.so through ctypes. One ndjson command per line on stdin, one result per line on stdout
(same crash-attribution protocol as the Rust harness: a missing result line means this process died)."""
import ctypes
import json
import os
import sys

lib = ctypes.CDLL(sys.argv[1])
c_char_p, c_void_p, c_int, c_uint = ctypes.c_char_p, ctypes.c_void_p, ctypes.c_int, ctypes.c_uint
lib.jsonnet_make.restype = c_void_p
for name in ("jsonnet_evaluate_file", "jsonnet_evaluate_file_multi", "jsonnet_evaluate_file_stream"):
    f = getattr(lib, name)
    f.restype = c_void_p
    f.argtypes = [c_void_p, c_char_p, ctypes.POINTER(c_int)]
for name in ("jsonnet_evaluate_snippet", "jsonnet_evaluate_snippet_multi", "jsonnet_evaluate_snippet_stream"):
    f = getattr(lib, name)
    f.restype = c_void_p
    f.argtypes = [c_void_p, c_char_p, c_char_p, ctypes.POINTER(c_int)]
for name in ("jsonnet_ext_var", "jsonnet_ext_code", "jsonnet_tla_var", "jsonnet_tla_code"):
    getattr(lib, name).argtypes = [c_void_p, c_char_p, c_char_p]
lib.jsonnet_jpath_add.argtypes = [c_void_p, c_char_p]
lib.jsonnet_max_stack.argtypes = [c_void_p, c_uint]
lib.jsonnet_string_output.argtypes = [c_void_p, c_int]
lib.jsonnet_destroy.argtypes = [c_void_p]
lib.jsonnet_realloc.restype = c_void_p
lib.jsonnet_realloc.argtypes = [c_void_p, c_void_p, ctypes.c_size_t]

IMPORT_CB = ctypes.CFUNCTYPE(c_int, c_void_p, c_char_p, c_char_p, ctypes.POINTER(c_void_p), ctypes.POINTER(c_void_p), ctypes.POINTER(ctypes.c_size_t))


NATIVE_CB = ctypes.CFUNCTYPE(c_void_p, c_void_p, ctypes.POINTER(c_void_p), ctypes.POINTER(c_int))
lib.jsonnet_native_callback.argtypes = [c_void_p, c_char_p, NATIVE_CB, c_void_p, ctypes.POINTER(c_char_p)]
lib.jsonnet_import_callback.argtypes = [c_void_p, IMPORT_CB, c_void_p]
lib.jsonnet_json_make_string.restype = c_void_p
lib.jsonnet_json_make_string.argtypes = [c_void_p, c_char_p]
lib.jsonnet_json_make_number.restype = c_void_p
lib.jsonnet_json_make_number.argtypes = [c_void_p, ctypes.c_double]
lib.jsonnet_json_make_bool.restype = c_void_p
lib.jsonnet_json_make_bool.argtypes = [c_void_p, c_int]
lib.jsonnet_json_make_null.restype = c_void_p
lib.jsonnet_json_make_null.argtypes = [c_void_p]
lib.jsonnet_json_make_array.restype = c_void_p
lib.jsonnet_json_make_array.argtypes = [c_void_p]
lib.jsonnet_json_make_object.restype = c_void_p
lib.jsonnet_json_make_object.argtypes = [c_void_p]
lib.jsonnet_json_array_append.argtypes = [c_void_p, c_void_p, c_void_p]
lib.jsonnet_json_object_append.argtypes = [c_void_p, c_void_p, c_char_p, c_void_p]
lib.jsonnet_json_extract_number.argtypes = [c_void_p, c_void_p, ctypes.POINTER(ctypes.c_double)]
lib.jsonnet_json_destroy.argtypes = [c_void_p, c_void_p]
KEEP = []          # callbacks must outlive the VM


def make_native(vm, kind):
    def cb(ctx, argv, success):
        args = []
        i = 0
        while argv[i]:
            args.append(argv[i])
            i += 1
        success[0] = 1
        if kind == "sum":
            total = 0.0
            for a in args:
                d = ctypes.c_double(0)
                if lib.jsonnet_json_extract_number(vm, a, ctypes.byref(d)) != 1:
                    success[0] = 0
                    return lib.jsonnet_json_make_string(vm, b"not a number")
                total += d.value
            return lib.jsonnet_json_make_number(vm, total)
        if kind == "fail":
            success[0] = 0
            return lib.jsonnet_json_make_string(vm, b"native failed")
        arr = lib.jsonnet_json_make_array(vm)
        for a in args:
            lib.jsonnet_json_array_append(vm, arr, a)
        for t in (lib.jsonnet_json_make_string(vm, b"s"), lib.jsonnet_json_make_bool(vm, 1), lib.jsonnet_json_make_null(vm)):
            lib.jsonnet_json_array_append(vm, arr, t)
            lib.jsonnet_json_destroy(vm, t)
        obj = lib.jsonnet_json_make_object(vm)
        lib.jsonnet_json_object_append(vm, obj, b"xs", arr)
        lib.jsonnet_json_destroy(vm, arr)
        return obj
    f = NATIVE_CB(cb)
    KEEP.append(f)
    return f


def make_import_cb(vm, files, root):
    def alloc(b):
        p = lib.jsonnet_realloc(vm, None, len(b))
        ctypes.memmove(p, b, len(b))
        return p

    def cb(ctx, base, rel, found_here, buf, buflen):
        full = os.path.normpath(os.path.join(base.decode(), rel.decode()))
        key = os.path.relpath(full, root)
        if key in files:
            data = files[key].encode()
            buf[0] = alloc(data) if data else lib.jsonnet_realloc(vm, None, 1)
            buflen[0] = len(data)
            found_here[0] = alloc(full.encode() + b"\0")
            return 1
        msg = ("no such virtual file: " + key).encode()
        buf[0] = alloc(msg)
        buflen[0] = len(msg)
        return 0
    f = IMPORT_CB(cb)
    KEEP.append(f)
    return f


def read_list(ptr):
    """double-NUL terminated list of NUL terminated strings"""
    out, pos = [], 0
    while True:
        s = ctypes.string_at(ptr + pos)
        if s == b"":
            return out
        out.append(s.decode("utf-8", "replace"))
        pos += len(s) + 1


def run(cmd):
    os.chdir(cmd["dir"])
    vm = lib.jsonnet_make()
    for k, v in cmd.get("ext_str", {}).items():
        lib.jsonnet_ext_var(vm, k.encode(), v.encode())
    for k, v in cmd.get("ext_code", {}).items():
        lib.jsonnet_ext_code(vm, k.encode(), v.encode())
    for k, v in cmd.get("tla_str", {}).items():
        lib.jsonnet_tla_var(vm, k.encode(), v.encode())
    for k, v in cmd.get("tla_code", {}).items():
        lib.jsonnet_tla_code(vm, k.encode(), v.encode())
    for j in cmd.get("jpath", []):
        lib.jsonnet_jpath_add(vm, j.encode())
    for nat in cmd.get("natives", []):
        params = (c_char_p * (len(nat["params"]) + 1))(*[x.encode() for x in nat["params"]], None)
        KEEP.append(params)
        lib.jsonnet_native_callback(vm, nat["name"].encode(), make_native(vm, nat["kind"]), None, params)
    if "virtual" in cmd:
        lib.jsonnet_import_callback(vm, make_import_cb(vm, cmd["virtual"], cmd["dir"]), None)
    lib.jsonnet_max_stack(vm, cmd.get("max_stack", 512))
    lib.jsonnet_string_output(vm, 1 if cmd.get("string") else 0)
    err = c_int(7)
    kind = cmd.get("kind", "plain")
    suffix = {"plain": "", "multi": "_multi", "stream": "_stream"}[kind]
    if "file" in cmd:
        ptr = getattr(lib, "jsonnet_evaluate_file" + suffix)(vm, cmd["file"].encode(), ctypes.byref(err))
    else:
        ptr = getattr(lib, "jsonnet_evaluate_snippet" + suffix)(vm, cmd.get("name", "snippet").encode(), cmd["src"].encode(), ctypes.byref(err))
    if err.value != 0 or kind == "plain":
        res = {"k": "capi", "err": err.value, "text": ctypes.string_at(ptr).decode("utf-8", "replace")}
    else:
        res = {"k": "capi", "err": err.value, "list": read_list(ptr)}
    lib.jsonnet_destroy(vm)
    return res


for line in sys.stdin:
    line = line.strip()
    if not line:
        continue
    cmd = json.loads(line)
    try:
        r = run(cmd)
    except Exception as e:          # tool problem, not a crash of the library
        r = {"k": "tool_error", "msg": repr(e)}
    r["id"] = cmd.get("id")
    sys.stdout.write(json.dumps(r) + "\n")
    sys.stdout.flush()
