#!/usr/bin/env python3
"""Entry point of every registered check:  check.py <ID> --tier quick|thorough [--replay FILE]

exit 0: property held on everything explored (KNOWN-FINDING lines possible)
exit 1: at least one `VIOLATION property=<id> replay=<path>` line was printed
exit 2: the verification tooling itself failed (build, TLC, timeout) - never a violation"""
import argparse
import importlib
import json
import os
import sys
import traceback

sys.path.insert(0, os.path.dirname(os.path.abspath(__file__)))
import common  # noqa: E402


def main():
    ap = argparse.ArgumentParser()
    ap.add_argument("prop")
    ap.add_argument("--tier", default=os.environ.get("VERIF_TIER", "quick"), choices=["quick", "thorough"])
    ap.add_argument("--replay")
    a = ap.parse_args()
    seed = int(os.environ.get("VERIF_SEED", "0") or 0)
    prop = a.prop.upper()
    try:
        mod = importlib.import_module("props." + prop.lower())
        if a.replay:
            case = json.load(open(a.replay))
            common.build_harness()
            return mod.replay(case)
        chk = common.Check(prop, a.tier, seed)
        mod.run(chk)
        return mod.finish(chk) if hasattr(mod, "finish") else chk.finish()
    except common.ToolError as e:
        common.log(f"TOOL ERROR: {e}")
        return 2
    except Exception:
        traceback.print_exc()
        return 2


if __name__ == "__main__":
    sys.exit(main())
