"""Shared machinery of the /verif checks: building the harness from /repo's working tree, running
TLC (model checking of a module, REPLAY generation, trace validation), running the jrv worker
pool with crash attribution, matching known findings, reporting violations, writing evidence.

python3 stdlib only."""
import hashlib
import json
import os
import re
import shutil
import subprocess
import sys
import time
from concurrent.futures import ThreadPoolExecutor

VERIF = os.path.dirname(os.path.dirname(os.path.abspath(__file__)))
REPO = "/repo"
SPEC = os.path.join(VERIF, "spec")
WORK = os.path.join(VERIF, "work")
HARNESS = os.path.join(VERIF, "harness")
JRV = os.path.join(HARNESS, "target", "debug", "jrv")
TLA_CP = "/opt/veriftools/tla/tla2tools.jar:/opt/veriftools/tla/CommunityModules-deps.jar"
NCPU = os.cpu_count() or 4


class ToolError(Exception):
    """A failure of the verification tooling itself (never a violation)."""


def log(*a):
    print(*a, file=sys.stderr, flush=True)


# --------------------------------------------------------------------------- building

_built = False


def build_harness():
    """cargo build of the harness against /repo's *current* working tree, hooks on."""
    global _built
    if _built:
        return
    env = dict(os.environ, CARGO_NET_OFFLINE="true")
    t0 = time.time()
    p = subprocess.run(["cargo", "build", "--offline"], cwd=HARNESS, env=env,
                       stdout=subprocess.PIPE, stderr=subprocess.STDOUT, text=True)
    if p.returncode != 0:
        log(p.stdout[-6000:])
        raise ToolError("harness build failed (the tree under /repo does not compile with hooks on)")
    log(f"[build] harness ok in {time.time() - t0:.1f}s")
    _built = True


JRV_EXP = os.path.join(HARNESS, "target-exp", "debug", "jrv")
_built_exp = False


def build_harness_exp():
    """the same harness against the experimental-syntax build of the implementation (cargo feature `exp`)"""
    global _built_exp
    if _built_exp:
        return
    env = dict(os.environ, CARGO_NET_OFFLINE="true", CARGO_TARGET_DIR=os.path.join(HARNESS, "target-exp"))
    t0 = time.time()
    p = subprocess.run(["cargo", "build", "--offline", "--features", "exp"], cwd=HARNESS, env=env,
                       stdout=subprocess.PIPE, stderr=subprocess.STDOUT, text=True)
    if p.returncode != 0:
        log(p.stdout[-6000:])
        raise ToolError("experimental harness build failed")
    log(f"[build] experimental harness ok in {time.time() - t0:.1f}s")
    _built_exp = True


REPO_TARGET = os.path.join(WORK, "target-repo")


def build_repo_bins(packages=("jrsonnet", "jrsonnet-fmt", "jrsonnet-deps"), cdylib=False):
    """Build the repository's own executables (and optionally libjsonnet.so) from the working tree
    into /verif/work/target-repo; returns the directory holding them."""
    env = dict(os.environ, CARGO_NET_OFFLINE="true", CARGO_TARGET_DIR=REPO_TARGET)
    args = ["cargo", "build", "--offline"]
    for p in packages:
        args += ["-p", p]
    p = subprocess.run(args, cwd=REPO, env=env, stdout=subprocess.PIPE, stderr=subprocess.STDOUT, text=True)
    if p.returncode != 0:
        log(p.stdout[-6000:])
        raise ToolError("building repository executables failed")
    if cdylib:
        args = ["cargo", "build", "--offline", "-p", "libjsonnet", "--no-default-features",
                "--features", "interop-common,interop-threading"]
        p = subprocess.run(args, cwd=REPO, env=env, stdout=subprocess.PIPE, stderr=subprocess.STDOUT, text=True)
        if p.returncode != 0:
            log(p.stdout[-6000:])
            raise ToolError("building libjsonnet failed")
    return os.path.join(REPO_TARGET, "debug")


# --------------------------------------------------------------------------- TLC

class TlcResult:
    def __init__(self):
        self.generated = 0
        self.distinct = 0
        self.depth = 0
        self.replay = []
        self.prints = []
        self.ok = False
        self.output = ""
        self.coverage = {}
        self.wall = 0.0


import itertools
_tlc_seq = itertools.count(1)      # next() is atomic: run_tlc is called from several threads


def run_tlc(module, cfg, workers=4, timeout=900, xmx="6g", env_extra=None, simulate=None,
            java_opts=(), coverage=False, keep_prints=False):
    """Run TLC on spec/<module>.tla with spec/<cfg>. Raises ToolError when TLC itself fails
    (parse error, invariant of the *model* violated, timeout): the model being wrong is a
    tooling error, not a property violation of the code."""
    md = os.path.join(WORK, "tlc", f"{os.getpid()}_{next(_tlc_seq)}_{module}")
    shutil.rmtree(md, ignore_errors=True)
    os.makedirs(md, exist_ok=True)
    cmd = ["java", "-XX:+UseParallelGC", f"-Xmx{xmx}", *java_opts, "-cp", TLA_CP, "tlc2.TLC",
           "-workers", str(workers), "-config", cfg, "-metadir", md, "-cleanup", "-noGenerateSpecTE"]
    if coverage:
        cmd += ["-coverage", "1"]
    if simulate:
        cmd += ["-simulate", simulate]
    cmd.append(module + ".tla")
    env = dict(os.environ)
    if env_extra:
        env.update(env_extra)
    t0 = time.time()
    try:
        p = subprocess.run(["timeout", str(timeout)] + cmd, cwd=SPEC, env=env,
                           stdout=subprocess.PIPE, stderr=subprocess.STDOUT, text=True)
    finally:
        shutil.rmtree(md, ignore_errors=True)
    r = TlcResult()
    r.wall = time.time() - t0
    r.output = p.stdout
    for line in p.stdout.splitlines():
        if line.startswith('"REPLAY '):
            try:
                r.replay.append(json.loads(json.loads(line)[7:]))
            except Exception as e:  # noqa
                raise ToolError(f"cannot decode REPLAY line: {line[:200]}: {e}")
        elif line.startswith('"') and keep_prints:
            try:
                r.prints.append(json.loads(line))
            except Exception:
                r.prints.append(line)
        m = re.match(r"(\d+) states generated, (\d+) distinct states found", line)
        if m:
            r.generated, r.distinct = int(m.group(1)), int(m.group(2))
        m = re.match(r"The depth of the complete state graph search is (\d+)", line)
        if m:
            r.depth = int(m.group(1))
        m = re.match(r"<(\w+) line \d+, col \d+ to line \d+, col \d+ of module (\w+)>: (\d+):(\d+)", line)
        if m:
            r.coverage[m.group(2) + "." + m.group(1)] = (int(m.group(3)), int(m.group(4)))
    if simulate:
        r.ok = p.returncode in (0, 124) and "Error:" not in p.stdout
    else:
        r.ok = p.returncode == 0 and "Model checking completed. No error has been found." in p.stdout
    if not r.ok:
        tail = "\n".join(p.stdout.splitlines()[-60:])
        raise ToolError(f"TLC failed on {module}/{cfg} (rc={p.returncode}):\n{tail}")
    log(f"[tlc] {module}/{cfg}: {r.generated} generated, {r.distinct} distinct, "
        f"{len(r.replay)} replay cases, {r.wall:.1f}s")
    return r


def run_tlc_many(jobs, parallel=4):
    """jobs: list of dict(module=, cfg=, **kw); run as parallel TLC processes."""
    with ThreadPoolExecutor(max_workers=parallel) as ex:
        futs = [ex.submit(run_tlc, **j) for j in jobs]
        return [f.result() for f in futs]


def validate_trace(module, cfg, trace_path, timeout=900, xmx="3g"):
    """impl -> spec: TLC checks that the recorded ndjson trace is a behaviour of the trace spec.
    Returns (accepted, info). Acceptance is decided by the POSTCONDITION of the trace spec, which
    consumes every line, records the lines it cannot match and prints `"TRACE_REJECTED <line>"`
    for each; the POSTCONDITION requires the whole trace to have been consumed."""
    md = os.path.join(WORK, "tlc", f"{os.getpid()}_{next(_tlc_seq)}_{module}")
    shutil.rmtree(md, ignore_errors=True)
    os.makedirs(md, exist_ok=True)
    env = dict(os.environ, TRACE=trace_path,
               JAVA_TOOL_OPTIONS="-Xss1g -Dtlc2.tool.queue.IStateQueue=StateDeque")
    cmd = ["timeout", str(timeout), "java", "-XX:+UseParallelGC", f"-Xmx{xmx}", "-cp", TLA_CP, "tlc2.TLC",
           "-workers", "1", "-config", cfg, "-metadir", md, "-cleanup", "-noGenerateSpecTE",
           module + ".tla"]
    t0 = time.time()
    try:
        p = subprocess.run(cmd, cwd=SPEC, env=env, stdout=subprocess.PIPE, stderr=subprocess.STDOUT, text=True)
    finally:
        shutil.rmtree(md, ignore_errors=True)
    out = p.stdout
    info = {"wall": time.time() - t0, "generated": 0, "distinct": 0, "rejected": [], "detail": None}
    for line in out.splitlines():
        m = re.match(r"(\d+) states generated, (\d+) distinct states found", line)
        if m:
            info["generated"], info["distinct"] = int(m.group(1)), int(m.group(2))
        m = re.match(r'"TRACE_REJECTED (\d+)', line)
        if m:
            info["rejected"].append(int(m.group(1)))
    completed = p.returncode == 0 and "Model checking completed. No error has been found." in out
    if not completed:
        # The trace specs record rejections and keep going, so anything else is a tool failure
        # (parse error of the spec, malformed trace file, post-condition = trace not consumed).
        tail = "\n".join(out.splitlines()[-60:])
        raise ToolError(f"TLC failed on trace spec {module}/{cfg} (rc={p.returncode}):\n{tail}")
    info["rejected"] = sorted(set(info["rejected"]))
    accepted = not info["rejected"]
    log(f"[trace] {module}/{cfg}: {'accepted' if accepted else 'REJECTED lines ' + str(info['rejected'][:10])} "
        f"({info['generated']} states, {info['wall']:.1f}s)")
    return accepted, info


def validate_lines(chk, module, cfg, lines, tag, chunk=None, parallel=8, timeout=1500):
    """Validate independent trace lines: split into chunks, one TLC process (-workers 1) per chunk in
    parallel; returns the indexes (into `lines`) of rejected lines. Bookkeeping goes into chk."""
    if not lines:
        return []
    n = len(lines)
    if chunk is None:
        chunk = max(200, (n + parallel - 1) // parallel)
    d = os.path.join(chk.workdir, "traces")
    os.makedirs(d, exist_ok=True)
    jobs = []
    for k, i in enumerate(range(0, n, chunk)):
        path = os.path.join(d, f"{tag}_{k}.ndjson")
        with open(path, "w") as f:
            for l in lines[i:i + chunk]:
                f.write(json.dumps(l, ensure_ascii=True, separators=(",", ":")) + "\n")
        jobs.append((i, path))
    rejected = []
    with ThreadPoolExecutor(max_workers=parallel) as ex:
        futs = [(i, ex.submit(validate_trace, module, cfg, path, timeout)) for i, path in jobs]
        for i, f in futs:
            ok, info = f.result()
            chk.states += info["distinct"]
            chk.transitions += info["generated"]
            rejected.extend(i + (l - 1) for l in info["rejected"])
    chk.traces += n
    chk.tlc_runs.append({"what": f"trace validation {module} ({n} events in {len(jobs)} chunks)",
                         "rejected": len(rejected)})
    return sorted(rejected)


def validate_groups(chk, module, cfg, lines, groups, tag, parallel=8, timeout=1500):
    """Like validate_lines for stateful trace specs: `groups` is a list of lists of indexes into `lines`;
    lines of one group stay together (and in order) in one TLC run. Returns rejected indexes."""
    buckets = [[] for _ in range(max(1, min(parallel, len(groups))))]
    for g in sorted(groups, key=len, reverse=True):
        min(buckets, key=len).extend(g)
    d = os.path.join(chk.workdir, "traces")
    os.makedirs(d, exist_ok=True)
    jobs = []
    for k, b in enumerate(buckets):
        if not b:
            continue
        path = os.path.join(d, f"{tag}_{k}.ndjson")
        with open(path, "w") as f:
            for i in b:
                f.write(json.dumps(lines[i], ensure_ascii=True, separators=(",", ":")) + "\n")
        jobs.append((b, path))
    rejected = []
    with ThreadPoolExecutor(max_workers=parallel) as ex:
        futs = [(b, ex.submit(validate_trace, module, cfg, path, timeout)) for b, path in jobs]
        for b, f in futs:
            ok, info = f.result()
            chk.states += info["distinct"]
            chk.transitions += info["generated"]
            rejected.extend(b[l - 1] for l in info["rejected"])
    n = sum(len(b) for b, _ in jobs)
    chk.traces += n
    chk.tlc_runs.append({"what": f"trace validation {module} ({n} events in {len(jobs)} runs)", "rejected": len(rejected)})
    return sorted(rejected)


# --------------------------------------------------------------------------- jrv worker pool

def _run_chunk(cmds, env, timeout_per_case, exe=None):
    """Run one worker over cmds; attribute worker death to the first command without result and
    restart behind it. Returns list of results aligned with cmds."""
    results = []
    pos = 0
    while pos < len(cmds):
        batch = cmds[pos:]
        inp = "\n".join(json.dumps(c, ensure_ascii=False) for c in batch) + "\n"
        try:
            p = subprocess.run([exe or JRV], input=inp.encode("utf-8"), env=env, stdout=subprocess.PIPE,
                               stderr=subprocess.PIPE, timeout=max(60, timeout_per_case * len(batch)))
            out, rc, err = p.stdout, p.returncode, p.stderr
            timed_out = False
        except subprocess.TimeoutExpired as e:
            out, rc, err = e.stdout or b"", -999, e.stderr or b""
            timed_out = True
        # split on LF only: str.splitlines() would also split on U+2028 etc. inside JSON strings
        lines = [l for l in out.decode("utf-8", "replace").split("\n") if l.strip()]
        got = []
        for l in lines:
            try:
                got.append(json.loads(l))
            except Exception:
                break
        results.extend(got[:len(batch)])
        pos += len(got)
        if len(got) < len(batch):
            # the command at `pos` killed (or hung) the worker
            how = "timeout" if timed_out else (f"signal {-rc}" if rc < 0 else f"exit {rc}")
            res = {"k": "crash", "how": how, "id": batch[len(got)].get("id"), "msg": err.decode("utf-8", "replace")[-400:]}
            if timed_out:
                # a busy machine is not a hang: the command gets a second run on its own with a generous limit
                try:
                    p = subprocess.run([exe or JRV], input=(json.dumps(batch[len(got)], ensure_ascii=False) + "\n").encode("utf-8"), env=env,
                                       stdout=subprocess.PIPE, stderr=subprocess.PIPE, timeout=max(300, 20 * timeout_per_case))
                    alone = [l for l in p.stdout.decode("utf-8", "replace").split("\n") if l.strip()]
                    if alone:
                        res = json.loads(alone[0])
                    else:
                        res = {"k": "crash", "how": f"signal {-p.returncode}" if p.returncode < 0 else f"exit {p.returncode}",
                               "id": batch[len(got)].get("id"), "msg": p.stderr.decode("utf-8", "replace")[-400:]}
                except subprocess.TimeoutExpired:
                    pass
                except Exception:
                    pass
            results.append(res)
            pos += 1
    return results


def run_cmds(cmds, parallel=None, env_extra=None, timeout_per_case=20, chunk=None, exe=None):
    """Execute harness commands on a pool of jrv workers; order-preserving."""
    if exe is None:
        build_harness()
    if not cmds:
        return []
    parallel = parallel or NCPU
    os.makedirs(os.path.join(WORK, "tmp"), exist_ok=True)
    env = dict(os.environ, JRV_TMP=os.path.join(WORK, "tmp"))
    if env_extra:
        env.update(env_extra)
    n = len(cmds)
    if chunk is None:
        chunk = max(1, min(400, (n + parallel - 1) // parallel))
    chunks = [cmds[i:i + chunk] for i in range(0, n, chunk)]
    with ThreadPoolExecutor(max_workers=parallel) as ex:
        parts = list(ex.map(lambda c: _run_chunk(c, env, timeout_per_case, exe), chunks))
    out = []
    for p in parts:
        out.extend(p)
    assert len(out) == n, (len(out), n)
    return out


# --------------------------------------------------------------------------- values

def cps(s):
    return [ord(c) for c in s]


def from_cps(a):
    return "".join(chr(c) for c in a)


def tla_to_py(v):
    """Tagged-record value encoding of the specs -> python value (functions -> ('func',))."""
    t = v["t"]
    if t == "null":
        return None
    if t == "bool":
        return bool(v["b"])
    if t == "num":
        return v["n"]
    if t == "str":
        return from_cps(v["s"])
    if t == "arr":
        return [tla_to_py(x) for x in v["a"]]
    if t == "obj":
        return {from_cps(f["k"]): tla_to_py(f["v"]) for f in v["o"] if not f.get("h", False)}
    if t == "func":
        return ("func",)
    raise ToolError(f"bad value tag {t}")


def json_equal(a, b):
    """Structural equality with numbers compared as doubles (1 == 1.0, bool != number)."""
    if isinstance(a, bool) or isinstance(b, bool):
        return isinstance(a, bool) and isinstance(b, bool) and a == b
    if isinstance(a, (int, float)) and isinstance(b, (int, float)):
        return float(a) == float(b)
    if type(a) != type(b):
        return False
    if isinstance(a, list):
        return len(a) == len(b) and all(json_equal(x, y) for x, y in zip(a, b))
    if isinstance(a, dict):
        return a.keys() == b.keys() and all(json_equal(a[k], b[k]) for k in a)
    return a == b


def jstr(s):
    """Jsonnet string literal for an arbitrary python string."""
    return json.dumps(s, ensure_ascii=True)


# --------------------------------------------------------------------------- findings / verdict

def load_known():
    p = os.path.join(VERIF, "known-findings.json")
    if not os.path.exists(p):
        return []
    return json.load(open(p))


class Check:
    """Accumulates the verdict and the evidence of one check run."""

    def __init__(self, prop, tier, seed):
        self.prop, self.tier, self.seed = prop, tier, seed
        self.t0 = time.time()
        self.known = [k for k in load_known() if k.get("property") == prop and k.get("status") == "known"]
        self.known_hit = {}
        self.violations = []
        self.states = 0
        self.transitions = 0
        self.traces = 0
        self.evaluations = 0
        self.nontrivial = set()
        self.samples = []
        self.tlc_runs = []
        self.extra = {}
        self.assumptions = []
        self.workdir = os.path.join(WORK, prop)
        os.makedirs(self.workdir, exist_ok=True)
        for f in os.listdir(self.workdir):
            if f.startswith("violation-") or f == "all-violations.ndjson":
                os.remove(os.path.join(self.workdir, f))

    # -- TLC bookkeeping
    def add_tlc(self, r, what):
        self.states += r.distinct
        self.transitions += r.generated
        self.tlc_runs.append({"what": what, "generated": r.generated, "distinct": r.distinct,
                              "replay_cases": len(r.replay), "wall_s": round(r.wall, 1)})

    def sample(self, s, cap=6):
        if len(self.samples) < cap:
            self.samples.append(s)

    def count(self, key=None, n=1):
        self.evaluations += n
        if key is not None:
            self.nontrivial.add(key if isinstance(key, (str, int, tuple)) else json.dumps(key, sort_keys=True))

    # -- verdict
    def disagree(self, construct, case, expected, observed, what):
        """A disagreement between specification and implementation. `construct` is the stable key a
        known finding is matched on (family + the specific input/construct)."""
        for k in self.known:
            m = k.get("match", {})
            if (m.get("construct") == construct or (m.get("prefix") and construct.startswith(m["prefix"]))
                    or any(x in construct for x in m.get("any_contains", []))):
                ent = self.known_hit.setdefault(k["what"], 0)
                self.known_hit[k["what"]] = ent + 1
                return
        n = len(self.violations) + 1
        if n == 1:
            self._all = open(os.path.join(self.workdir, "all-violations.ndjson"), "w")
        if n <= 200000:
            self._all.write(json.dumps({"construct": construct, "what": what, "observed": observed,
                                        "expected": expected}, default=str, ensure_ascii=False)[:3000] + "\n")
        if n <= 25:
            path = os.path.join(self.workdir, f"violation-{n}.json")
            json.dump({"property": self.prop, "construct": construct, "what": what, "case": case,
                       "expected": expected, "observed": observed}, open(path, "w"), indent=1,
                      ensure_ascii=False, default=str)
        else:
            path = os.path.join(self.workdir, "violation-25.json")
        self.violations.append((construct, path, what))

    def finish(self, level="model_checking", rule="", exhaustive=False):
        for what, n in sorted(self.known_hit.items()):
            print(f"KNOWN-FINDING: property={self.prop} {what} ({n} case(s))")
        if self.violations:
            import collections
            cls = collections.Counter(":".join(c.split(":")[:3])[:100] for c, _, _ in self.violations)
            for k, n in cls.most_common(40):
                log(f"[violation-class] {n:6d}  {k}")
        shown = set()
        for construct, path, what in self.violations:
            if len(shown) < 10 and construct not in shown:
                shown.add(construct)
                log(f"[violation] {construct}: {what}")
                print(f"VIOLATION property={self.prop} replay={path}")
        cov = {
            "states": self.states, "transitions": self.transitions,
            "traces_validated_against_impl": self.traces,
            "samples": self.samples or [{"note": "no sample recorded"}],
            "evaluations": self.evaluations, "distinct_nontrivial": len(self.nontrivial),
            "rule": rule, "exhaustive": exhaustive, "tlc_runs": self.tlc_runs,
            "known_findings_hit": self.known_hit,
        }
        cov.update(self.extra)
        ev = {"property_id": self.prop, "tier": self.tier, "seed": self.seed, "level": level,
              "coverage": cov, "assumptions": self.assumptions,
              "wall_s": round(time.time() - self.t0, 1), "violations": len(self.violations)}
        os.makedirs(os.path.join(VERIF, "evidence"), exist_ok=True)
        json.dump(ev, open(os.path.join(VERIF, "evidence", f"{self.prop}.json"), "w"), indent=1,
                  ensure_ascii=False, default=str)
        log(f"[{self.prop}] {self.evaluations} evaluations, {len(self.nontrivial)} distinct non-trivial, "
            f"{self.states} states, {self.traces} traces, {len(self.violations)} violations, "
            f"{len(self.known_hit)} known findings, {time.time() - self.t0:.0f}s")
        return 1 if self.violations else 0


def stable_id(obj):
    return hashlib.sha1(json.dumps(obj, sort_keys=True, ensure_ascii=False).encode()).hexdigest()[:12]
