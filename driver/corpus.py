"""Program corpora shared by several checks: hand-written programs aimed at specific hazards and the
repository's own test programs (used as additional drivers, never as oracles)."""
import glob
import os

# programs that build cyclic structures / exercise every kind of cached context
CYCLIC = [
    "local o = {a: self, b: 1}; o.a.a.b",
    "local o = {a: $, b: {c: $.b}}; std.length(o)",
    "local f(n) = if n == 0 then 0 else f(n - 1); f(10)",
    "local a = {x: b}, b = {y: a}; std.length(a.x.y.x)",
    "local f = function(x) g(x), g = function(x) if x > 3 then x else f(x + 1); f(0)",
    "{ local me = self, a: 1, b: me.a + 1, c: {d: me.b} }",
    "local base = {a: 1, b: self.a}; local d = base {a: 2, c: super.b}; [d.c, d.b]",
    "local arr = [function() arr, 1]; std.length(arr[0]())",
    "local o = {f(x): self.g(x), g(x): x + 1}; o.f(1)",
    "local mk(n) = {n: n, next: if n > 0 then mk(n - 1) else null}; mk(5).next.next.n",
    "[{a: i, b: self.a} for i in [1, 2, 3]]",
    "{[k]: {up:: $, v: k} for k in ['a', 'b']}",
    "local o = {a: std.map(function(x) x + $.b, [1, 2]), b: 1}; o.a",
    "std.foldl(function(acc, x) acc {[x]: acc}, ['a', 'b', 'c'], {})",
    "local o = {assert self.a == 1, a: 1, b: self}; o.b.b.a",
    "local t = std.objectRemoveKey({a: 1, b: self.a}, 'a'); std.objectFields(t)",
]
ERRORING = [
    "local o = {a: self, b: error 'x'}; o.a.b",
    "local f(n) = f(n + 1); f(0)",
    "local a = b, b = a; a",
    "{a: self.a}.a",
    "local o = {assert false : 'no', a: self}; o.a",
    "local o = {a: $, b: [1, 2][5]}; o",
    "local x = [x[0]]; x[0]",
    "{a: 1, b: {c: $.nope}}",
    "local f(x) = {a: x, b: f(x + 1).a}; f(0).b",
    "std.foldl(function(a, b) a + b, [1, 'a', {}], 0)",
]


def repo_programs():
    out = []
    for d in ("suite", "golden"):
        for p in sorted(glob.glob(f"/repo/tests/{d}/*.jsonnet")):
            try:
                out.append((os.path.relpath(p, "/repo"), open(p, encoding="utf-8").read()))
            except Exception:
                pass
    return out


def classify(r):
    """Outcome class used by several state-machine specs."""
    if r["k"] == "val":
        return "val"
    if r["k"] == "crash":
        return "crash"
    c = r.get("class", "")
    if c == "StackOverflow":
        return "stack"
    if c == "InfiniteRecursionDetected":
        return "infrec"
    if c == "AssertionFailed":
        return "assert"
    return "err"
