#!/usr/bin/env python3
"""Regenerates the generated part of DESIGN.md (between the BEGIN/END GENERATED markers) from known-findings.json,
hooks.json, seeded/*/meta.json and evidence/*.json."""
import collections
import glob
import json
import os

V = os.path.dirname(os.path.dirname(os.path.abspath(__file__)))
k = json.load(open(os.path.join(V, "known-findings.json")))
out = []
out.append("### 10.4 Genuine defects repaired in `/repo` (`fix:` commits; from known-findings.json, status `fixed`)\n")
out.append("| property | commit | what failed |\n|---|---|---|")
for x in k:
    if x["status"] == "fixed":
        w = x["what"].split(" ", 3)[3] if x["what"].startswith("fixed:") else x["what"]
        out.append(f"| {x['property']} | `{x['commit'][:7]}` | {w.replace('|', '&#124;').replace(chr(10), ' ')} |")
out.append("\n### 10.5 Known findings (genuine defects recorded, not repaired; status `known`)\n")
groups = collections.OrderedDict()
for x in k:
    if x["status"] == "known":
        groups.setdefault(x["property"], []).append(x)
for p, xs in groups.items():
    out.append(f"**{p}** ({len(xs)} entries)\n")
    for x in xs:
        m = x["match"]
        key = m.get("construct") or m.get("prefix") or " / ".join(m.get("any_contains", []))
        mode = "construct" if "construct" in m else "prefix" if "prefix" in m else "contains"
        out.append(f"* `{key[:110]}` ({mode}) - {x['what'][:400].replace(chr(10), ' ')}")
    out.append("")
seeded = sorted(glob.glob(os.path.join(V, "seeded", "*", "meta.json")))
out.append("### 10.6 Seeded changes (written by fresh sub-agents that saw only the property text) and the checks that catch them\n")
out.append("Protocol: a fresh sub-agent gets only the text of one property and its own scratch git worktree of `/repo` under `/tmp` (nothing "
           "from `/verif`) and is asked for one small realistic change that breaks the property, compiles, keeps the repository's tests green and "
           "needs something specific to manifest. Each change was confirmed here (test suite re-run in the worktree), stored as "
           "`seeded/<id>/{patch.diff, demonstration.md, meta.json}`, applied to `/repo` with `git apply`, checked with `driver/seeded.py` and undone with "
           "`git checkout -- .`; worktrees are removed afterwards. Where a change was missed the check was strengthened (never the change weakened) and "
           "re-run; the note column says what was added.\n")
if seeded:
    out.append("| id | property | change | needs | caught by (quick tier) |\n|---|---|---|---|---|")
    for f in seeded:
        m = json.load(open(f))
        out.append(f"| {os.path.basename(os.path.dirname(f))} | {m.get('property')} | {m.get('summary', '')[:200].replace('|', '/')} | {str(m.get('needs', ''))[:160].replace('|', '/')} | "
                   f"{', '.join(m.get('caught_by', [])) or 'MISSED'}{(' - ' + m['note'][:160]) if m.get('note') else ''} |")
else:
    out.append("(none kept yet)")
text = "\n".join(out) + "\n"
p = os.path.join(V, "DESIGN.md")
s = open(p, encoding="utf-8").read()
b, e = "<!-- BEGIN GENERATED -->\n", "<!-- END GENERATED -->\n"
if b in s:
    s = s[:s.index(b) + len(b)] + text + s[s.index(e):]
    open(p, "w", encoding="utf-8").write(s)
    print("DESIGN.md tables regenerated")
else:
    print("markers not found")
