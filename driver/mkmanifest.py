#!/usr/bin/env python3
"""Regenerates /verif/MANIFEST.json from the table below (kept in one place so that the manifest is
always valid and `not_applicable` is always the complement of the claimed set)."""
import json
import os

VERIF = os.path.dirname(os.path.dirname(os.path.abspath(__file__)))
ALL = [f"C{n:02d}" for n in range(1, 21)]

# id -> (technique, level text, level note, design ref)
CLAIMED = {
    "C05": ("TLA+ spec JsonText (Writer/Reader) model-checked by TLC; TLC-enumerated values replayed through "
            "every JSON path of the implementation; produced texts trace-validated by TLC against the spec's RFC 8259 Reader",
            "TLC proves Reader(Writer(v,f)) = Visible(v) for every enumerated value and 10 formats; every implementation "
            "output is accepted only if the specification's Reader reads it back as the visible value (ascending keys, no "
            "hidden fields), functions must be refused, std.parseJson must invert the model's and the implementation's texts",
            "trusted: TLC, the TLA+ Reader (RFC 8259 transcription), python float() as read-back oracle for doubles; numbers in "
            "enumerated values are <= 9-digit integers",
            "DESIGN.md §4 C05"),
    "C18": ("TLA+ specs Interner (pool/refcount protocol) and Gc (evaluate/drop/collect) model-checked by TLC; every "
            "TLC-generated interner transition replayed on real IStr/IBytes with the pool_len hook; collector runs "
            "trace-validated against Trace_Gc",
            "TLC checks PoolExact, RefCounts, Canonical, Utf8Flag, ContentsStable on all operation sequences within the bounds "
            "and every one of those transitions is replayed against the implementation comparing pool size, pooled contents, "
            "live contents and pairwise equality after each step; tracked-object counts before/after each evaluation must be a "
            "behaviour of Gc.tla",
            "trusted: TLC, jrsonnet_gcmodule's count_thread_tracked, the cfg-guarded pool accessors; bounds: 4 contents, <=8 ops, <=4 live handles; "
            "memory safety of the unsafe refcount code is not modelled",
            "DESIGN.md §4 C18"),
    "C03": ("TLA+ spec Lazy (memo-cell protocol with explicit evaluation stack) model-checked by TLC; every (dependency graph, "
            "demand sequence) replayed on real thunks, object fields, array elements and locals; hook-event traces of real "
            "evaluations validated against Trace_Lazy; chains of Objects.tla replayed with an error planted in every member definition outside the model's Used set (the definitions a field read evaluates)",
            "TLC checks AtMostOnce, PendingIffRunning, QuiescentClean, StoredOutcome, OnlyNeeded, Stable over all graphs of <=3 cells "
            "incl. cycles x all demand orders; each behaviour is replayed on four kinds of real memo cells comparing outcome and "
            "bodies run per demand; memoisation events emitted by the evaluator hooks must form a behaviour of the protocol; "
            "hand-written unneeded-position and shared-position programs bind the protocol to language constructs",
            "trusted: TLC, the cfg-guarded event sink; the expectations of the unneeded/shared-position programs are hand-written; "
            "order of evaluation is not compared",
            "DESIGN.md §4 C03"),
    "C08": ("TLA+ spec Arrays (view terms, documented denotation Den, implementation-shaped Get/LenImpl) model-checked "
            "by TLC (Get refines Den); every enumerated term replayed through Jsonnet indexing, ArrValue::get and "
            "whole-array observations",
            "TLC enumerates all compositions of view operations within the depth bound and checks that the index translation of "
            "each representation with its own bounds check refines the denotation; every term is then probed on the real "
            "implementation at every index from -2 to len+2 (source level and Rust API) and through length, ==, <, iteration, "
            "foldl, toString and manifestation, plus arrays around the 1000-element concatenation threshold",
            "trusted: TLC, the documented semantics of std.slice/reverse/repeat/range/makeArray/map/filter as transcribed in Den; "
            "negative slice bounds count from the end; element types limited to numbers, 1-char strings, small arrays",
            "DESIGN.md §4 C08"),
    "C07": ("TLA+ spec Imports (worlds + per-state cache protocol as a state machine) model-checked by TLC; every "
            "behaviour replayed on a real directory tree through a recording/fault-injecting resolver built by "
            "jrsonnet_cli::MiscOpts; import-cache hook events trace-validated against Trace_Imports",
            "TLC checks LoadOnce, EvalOnce, NoStaleFlag, EvaluatingIsStack, CacheSound, RetrySame over five families of worlds "
            "(layouts x -J/JSONNET_PATH orders x import kinds x spellings, import graphs with strict/lazy cycles, file kinds, "
            "injected resolve/load faults, recovery) with two runs per state; the resolver call log, the order of file "
            "evaluations, outcome and value of each run must equal the model's; hook events of these runs and of random "
            "4-8 file graphs must be behaviours of the cache protocol",
            "trusted: TLC, the recording resolver wrapper of the harness; error kinds compared as value-vs-error; symlink and "
            "d/../ spellings only in the importing directory",
            "DESIGN.md §4 C07"),
    "C02": ("TLA+ spec Objects (declarative object model + implementation-shaped single-pass lookups) model-checked by "
            "TLC (refinement, consistency); every enumerated chain replayed on the implementation through source-level "
            "and Rust-API probes",
            "TLC enumerates all chains of <=3 layers over five member-kind families (visibility, +:, self/super/$/local/in-super "
            "references, removed keys incl. re-adding and double removal, assertions) and checks that the skip-counter/add-stack "
            "algorithms refine the declarative semantics for lookups from the top and from every layer; each chain is rendered "
            "as Jsonnet in both spellings and every query kind (reads, has/hasAll/in, fields, manifest, equality, repeated "
            "reads, super reads, in-super, ObjValue::get) must equal the model's observation",
            "trusted: TLC, the transcription of the Jsonnet object semantics in part 1 of Objects.tla; member values are numbers, "
            "names {a,b}; quick tier replays a seeded sample of the enumerated chains (thorough replays all)",
            "DESIGN.md §4 C02"),
    "C01": ("TLA+ spec Core (executable big-step semantics of the core language, written from the Jsonnet specification) "
            "evaluated by TLC on bounded program families; every program replayed on the implementation under up to 10 "
            "configurations (2 parsers, 2 printings, snippet/import/ext-code/TLA body); inheritance chains of Objects.tla (plus, refs, omit, locals with shared layers) judged by the object model on both parsers",
            "TLC evaluates Run(p) for every program of the families (operators x typed pool incl. all ill-typed pairs, signatures x "
            "call shapes with the positional=named invariant, expression grammar of depth <=2, object programs, indexing/slicing, "
            "precedence nestings, hand-written scope/recursion/laziness programs); the implementation must give the same JSON "
            "value or fail exactly when the model fails, in every configuration; thorough tier: Desugar.tla translates every "
            "destructuring pattern x position, `??`, `?.` and object iteration as docs/features.adoc states, and the experimental build "
            "must evaluate sugar and translation to the same outcome",
            "trusted: TLC, the transcription of the Jsonnet semantics in Core.tla (call-by-name; integers < 1e9, exact division; "
            "fuel-bounded: programs outside this domain are not judged); the pretty-printer of the driver",
            "DESIGN.md §4 C01"),
    "C06": ("TLA+ specs Grammar (parser for the Jsonnet expression grammar) and Lexical (literal decoding) evaluated by TLC "
            "on ALL token / piece sequences up to a length bound; each text parsed by the ir, peg and rowan parsers and "
            "compared with the specification's tree; the comment / blank family of Lexical decides every text over `/ * 1 a space newline #` of up to 6 (thorough 7) characters",
            "TLC enumerates every token sequence of length <=4 (thorough <=5) over six family alphabets, every pair of operators in "
            "both nestings, and every literal built from <=3 escape/character pieces, number texts of <=5 pieces and text blocks "
            "of <=3 lines; both evaluator parsers must accept exactly the texts the grammar accepts and build exactly its tree "
            "(spans erased), the rowan parser must report no error exactly then and reproduce the input text",
            "trusted: TLC, the transcription of the Jsonnet grammar/lexical rules in Grammar.tla and Lexical.tla; static checks "
            "(duplicate names, stand-alone super, computed imports) and forms the Jsonnet documents leave open are only checked "
            "for agreement between the two evaluator parsers",
            "DESIGN.md §4 C06"),
    "C12": ("TLA+ spec Format (format-string parser state machine + rendering of d i u o x X c s %% with flags, width, "
            "precision, star arguments, %(key), errors) evaluated by TLC on the enumerated cross product; every pair replayed "
            "through std.format and %; floating conversions trace-validated (LayoutFloat around CPython's digits)",
            "TLC computes Format(fmt, vals) for flags x width x precision x conversion x values, star-argument shapes, mapping keys "
            "and malformed/truncated formats; the implementation must produce exactly that text or fail exactly when the model "
            "fails, through std.format, `fmt % [vals]` and `fmt % scalar`; for e E f F every (flags, width, precision, value) the "
            "output must be the specification's sign/zero-padding/alignment around the oracle's magnitude text",
            "trusted: TLC, Format.tla's transcription of Python %-formatting, CPython's printf for the digits of floating "
            "conversions (rounding ties excluded); forms where Python 3 and std.jsonnet differ (#o, # on 0, %s precision, %g digit "
            "count, key with positional values) are undecided and only required not to crash",
            "DESIGN.md §4 C12"),
    "C10": ("TLA+ spec StdArrays (one operator per function from the stdlib documentation / std.jsonnet) evaluated by TLC on "
            "enumerated calls with model-level laws; every call replayed through Jsonnet; std.slice judged by the slice denotation of Arrays.tla",
            "TLC evaluates Call(c) for every call over arrays of length 0..3 (thorough 0..4) over a 9-value alphabet and a pool of "
            "total, partial and type-changing user functions, and checks that Sort yields the stable ordered permutation and the "
            "set laws; the implementation must return the same value or fail exactly when the definition fails, with and "
            "without optional arguments",
            "trusted: TLC, the transcription of the documented definitions in StdArrays.tla; undocumented argument shapes are "
            "undecided (crash-freedom only); laziness is C03's subject",
            "DESIGN.md §4 C10"),
    "C11": ("TLA+ spec StdStrings (string functions over code-point sequences, number parsers, UTF-8 and base64 codecs, "
            "parseJson = the RFC 8259 Reader) evaluated by TLC on enumerated calls with codec-inverse and split/join laws; every "
            "call replayed through Jsonnet; digests trace-validated against python hashlib; parseYaml on JSON texts judged by the JSON Reader",
            "TLC evaluates Call(c) for every call over strings of length 0..3/4 (thorough +1) mixing ASCII, 2-byte and astral code "
            "points, overlapping patterns, offsets beyond the length, invalid UTF-8 byte arrays and malformed base64/digit strings, "
            "and checks Decode(Encode(x)) = x and Join(Split(s)) = s; the implementation must return the same value or fail "
            "exactly when the definition fails",
            "trusted: TLC, the transcription of the documented definitions; hashlib for md5/sha1/sha256/sha512/sha3; lossy UTF-8 "
            "decoding, Latin-1 vs UTF-8 in base64Decode, non-canonical base64 and integers beyond 1e8 are undecided",
            "DESIGN.md §4 C11"),
    "C13": ("TLA+ specs StdObjects (type/length/equality/xor/mergePatch/prune with RFC 7396 and prune laws) and "
            "MC_StdObjectsChain (object-inspection functions on the chains of Objects.tla) evaluated by TLC; every call / chain "
            "replayed through Jsonnet, including a failing-fields rendering for laziness",
            "TLC computes the documented result of each function on a pool of JSON-like values (hidden fields, nulls, nested empty "
            "containers, functions) and on inheritance chains with hidden/unhidden/+:/removed-key members; the implementation "
            "must agree, list names in ascending order, honour inc_hidden/default arguments, and the functions whose definitions "
            "do not need field values must work on objects whose fields all fail",
            "trusted: TLC, the transcription of the documented definitions; values containing functions and patches with hidden "
            "fields are undecided; quick tier replays a seeded sample of the chains",
            "DESIGN.md §4 C13"),
    "C09": ("TLA+ spec Numbers (order on ranks with trichotomy/derived-operator laws; 64-bit two's-complement bit vectors for "
            "& | ^ << >> with safe-range and overflow tests) model-checked by TLC and replayed on boundary doubles; "
            "arithmetic/math-function executions trace-validated against Trace_Numbers with an IEEE/libm oracle; round, sign, exponent, mantissa, deg2rad, rad2deg, mod in the oracle trace",
            "TLC enumerates all pairs and structured triples of ranks of a boundary-dense sorted list of doubles (zeros, subnormals, "
            "one-ulp neighbours, +-2^53 and neighbours, +-max) and all bit-vector operand pairs; every comparison operator, "
            "std.equals/primitiveEquals/__compare, sort, set, uniq, setMember, min/max(Array) and every bitwise operator must agree "
            "with the model; every + - * / % and math-function execution over the boundary set must be an error iff the IEEE "
            "result is not finite and otherwise return the oracle's bits (<=1 ulp for transcendental functions)",
            "trusted: TLC, IEEE-754 hardware arithmetic and the platform libm via python floats/math as the value oracle; shift "
            "counts >= 64 are undecided; fractional operands of bitwise operators are truncated",
            "DESIGN.md §4 C09"),
    "C16": ("TLA+ spec Determinism (memo: (program, configuration) -> output; Observe enabled only for the remembered output) "
            "model-checked by TLC (Functional); every program x configuration observed in many contexts on the implementation "
            "and the observation trace validated against Trace_Determinism",
            "TLC checks that an observed answer never changes in Determinism and enumerates thread histories (Total); each "
            "program x configuration (hash-order / did-you-mean / multi-failure / std.trace / ext+tla hazards, cyclic and erroring "
            "corpora, repository programs, TLC-enumerated Core programs) is run in 5+ fresh processes, on a used thread after every "
            "sampled history, inside a long-lived State and after pre-interning 1/1000/50000 strings; digests of output + error "
            "text + trace + std.trace lines form an Observe trace that Trace_Determinism accepts only if it is functional; "
            "System.tla composes frame counter, per-state file cache, pipeline, memo and collector of one thread (IdleClean, ReadOnce, "
            "EnteredWhileRunning, Functional, Reclaimed checked by TLC); TLC-enumerated schedules of evaluations on one state are "
            "recorded (hook events) and validated step by step by Trace_System, which reuses System's actions",
            "sampled programs and contexts, not all; wall-clock, memory limits and native stack exhaustion are outside",
            "DESIGN.md section C16"),
    "C17": ("TLA+ specs Lexing (cursor machine: tokens tile the text, tree spells the input) and Position (characters with UTF-8 "
            "widths, LineCol of every boundary, planted-construct layouts) model-checked by TLC; TLC-enumerated texts, boundaries and "
            "layouts replayed on the lexer, syntax tree, offset mapper and formatted traces; Lex events validated by Trace_Lexing",
            "TLC checks TilingInv of Lexing and the monotonicity laws of LineCol, enumerates every text over 6 character classes up to "
            "5 (thorough 6) characters x every boundary and every planted layout (0-2 preceding lines of 6 kinds x 7 own-line prefixes x 9 "
            "constructs x 3 followers x LF/CRLF); the implementation must report the line always and the column when the prefix is ASCII, "
            "for both parsers; all C06 token sequences and literals (8 joiners), random and mutated texts must tile and be lossless "
            "(Trace_Lexing); IR spans of generated and repository programs must lie inside the text, on character and token "
            "boundaries, carry the labelled content and label the same tokens after re-spacing with non-ASCII comments and CRLF",
            "trusted: TLC, the Python renderer of layouts (cross-checked against the model's line/column) and the tokenizer used for "
            "re-spacing (programs it cannot tokenise are skipped); span content rules cover variables, call arguments, error/import "
            "keywords, fixed field names",
            "DESIGN.md section C17"),
    "C19": ("TLA+ spec Formatter (a formatter as a function text -> text | Declined constrained by Preserves/Diagnoses/Idempotent; "
            "MeaningKept, TestAccepts, NeverFormatsInvalid checked by TLC for every such function over small domains); every generated "
            "valid program x indent formatted by the implementation and the Format-event trace validated against Trace_Formatter (Prop=C19)",
            "TLC enumerates all formatters satisfying the three constraints (3 texts, 2 meanings, 2 indents) and checks the user-level "
            "invariants; programs: TLC-enumerated Core ASTs in two renderings, grammar-accepted token sequences, a construct-complete hand "
            "list, repository programs, each also with numbered comments at token boundaries (every boundary x 4 comment kinds for the hand "
            "list); event = digests of the evaluator parser's tree after SugarNorm for input and output + normalised comment sequences; "
            "Trace_Formatter accepts a formatted valid program only if the output parses, means the same and keeps the comments; lost "
            "comments are attributed to their place in the syntax tree",
            "comment text compared up to marker, per-line blanks and * gutter; declining is accepted (counted); trusted: TLC, the harness AST "
            "serializer, the Python SugarNorm",
            "DESIGN.md section C19"),
    "C20": ("TLA+ spec Formatter (Diagnoses, Idempotent => TestAccepts) model-checked by TLC; every C06 token sequence and literal, "
            "random and mutated texts, and every generated valid program x indent x 2 passes run through the implementation, Format-event "
            "trace validated against Trace_Formatter (Prop=C20); jrsonnet-fmt / jrsonnet-fmt --test executables on a sample",
            "no crash outcome exists in the trace spec; a text of a systematic family that the evaluator's parser rejects must be Declined "
            "(diagnostic rendered as the command renders it); a generated valid program that is formatted must be a fixed point of the second "
            "pass for indent tabs/2/4; the command's output must be accepted by its --test mode",
            "invalid = rejected by jrsonnet_ir_parser; fixed point judged on the generated valid programs (the property's quantifier); debug "
            "build (dprint debug assertions are active)",
            "DESIGN.md section C20"),
    "C15": ("TLA+ spec Cli (Translate/Outcome/Render of a configuration, pipeline machine with EnteredWhileEvaluating, Deps over import "
            "graphs, native/import callback outcomes) model-checked by TLC; every enumerated configuration replayed on the jrsonnet "
            "executable, the library API (harness plumbing) and libjsonnet.so (ctypes, separate process); import graphs replayed on jrsonnet-deps; dependency graphs over two directories (family deps2: one import text naming different files)",
            "TLC enumerates 52k configurations (ext x tla flavour/payload incl. values taken from the environment, search path, input mode, 13 output modes, stack limit), 9k "
            "import graphs and 53 callback cases and checks the pipeline invariant; all single-variable configurations plus a seeded sample of "
            "the product are run: the library must compute the value the model denotes (or fail where it denotes an error), the "
            "executable must exit/print/write what Render says with the library's text, libjsonnet must return the same JSON and error flag "
            "(also through native and import callbacks); jrsonnet-deps must list exactly Deps and every file an evaluation loads",
            "sample of the configuration product in the quick tier; libjsonnet text compared as JSON; right-most -J wins is assumed; "
            "JSONNET_PATH is left to C07",
            "DESIGN.md section C15"),
    "C14": ("TLA+ spec Formats (68 hostile string atoms with their classes, 7 value shapes, Domain(format, value) in {in, out, open}) "
            "model-checked by TLC; every enumerated value written by the 24 writers (std.manifest* with all option combinations and the "
            "CLI output formats) on the implementation and read back by independent parsers",
            "TLC enumerates the values and decides, per format, whether a value is in the domain (the text must be well-formed and read "
            "back as the same data by PyYAML / tomllib / ast / xml.etree / configparser), outside it (the writer must fail) or left open "
            "(no crash); the model's atom classes are re-derived from the actual characters on every run",
            "readers are third-party / stdlib parsers (YAML 1.1 semantics for PyYAML); a final line break is appended before reading YAML; "
            "multi-line strings outside the block-scalar-safe class, XML-unrepresentable characters, INI / Python-variable names outside "
            "the identifier class are left open; quick tier pairs every atom with a covering sample of second atoms",
            "DESIGN.md section C14"),
    "C04": ("TLA+ specs Total (per-thread outcome protocol and histories), Stack (frame counter) and StdSig (boundary "
            "tuples) model-checked by TLC; source texts, every std function x boundary tuples, recursion sweeps and TLC-enumerated "
            "failure histories executed on the implementation and trace-validated against Trace_Total; every literal of the lexical families as source text, structured values in every argument position of every std function",
            "TLC checks Bounded/Balanced of the frame counter and IdleClean of the thread protocol and enumerates token sequences, "
            "argument tuples and all histories of 3 outcome classes; every execution is an event that must be val or err (no crash "
            "action exists) with frame counter, assertion markers and entered state restored; recursion must succeed when "
            "4n < limit and must stop with a stack-overflow error when n > limit; self-dependent values must report infinite "
            "recursion; the probe after every history must evaluate normally",
            "trusted: TLC, the cfg-guarded depth/asserting/entered accessors; unoptimised build with overflow checks; sizes "
            "bounded so that legal results fit in memory; quick tier samples 60k of the std x tuple calls",
            "DESIGN.md §4 C04"),
}

NOT_YET = "specification module and binding not built yet in this round; see DESIGN.md §4 for the planned model"


def main():
    checks = []
    for pid in ALL:
        if pid not in CLAIMED:
            continue
        tech, text, note, ref = CLAIMED[pid]
        checks.append({
            "property_id": pid,
            "quick_cmd": f"python3 driver/check.py {pid} --tier quick",
            "thorough_cmd": f"python3 driver/check.py {pid} --tier thorough",
            "evidence_file": f"/verif/evidence/{pid}.json",
            "replay_cmd_template": f"python3 driver/check.py {pid} --replay {{path}}",
            "engine": "tlc+jrv",
            "level_claimed": {"category": "model_checking", "text": text, "design_ref": ref},
            "level_note": note,
            "technique": tech,
        })
    m = {
        "version": 1,
        "setup_cmd": "python3 driver/setup.py",
        "hooks": {
            "guard": "jrsonnet_verif",
            "enable": "RUSTFLAGS=--cfg jrsonnet_verif (set in /verif/harness/.cargo/config.toml; the harness depends on the /repo crates by path)",
            "baseline_off_cmd": "cd /repo && cargo test --workspace --no-fail-fast --offline",
            "source_commits": json.load(open(os.path.join(VERIF, "hooks.json")))["commits"],
            "add_only": True,
        },
        "engines": [
            {"name": "tlc+jrv", "path": "/verif/driver/check.py",
             "serves_properties": sorted(CLAIMED),
             "kind_free_text": "explicit TLA+ specifications in /verif/spec checked by TLC (model checking, replay-case "
                               "generation, trace validation) bound to the implementation by the Rust conformance worker "
                               "/verif/harness (jrv) that links the /repo crates with --cfg jrsonnet_verif"},
        ],
        "checks": checks,
        "notes": "All checks: exit 0 held / exit 1 with VIOLATION lines / exit 2 tool failure. Known findings are in "
                 "/verif/known-findings.json. Scratch data lives in /verif/work (git-ignored).",
        "not_applicable": [{"property_id": p, "reason": NA.get(p, NOT_YET)} for p in ALL if p not in CLAIMED],
    }
    json.dump(m, open(os.path.join(VERIF, "MANIFEST.json"), "w"), indent=1)
    print("claimed:", sorted(CLAIMED), "not claimed:", [p for p in ALL if p not in CLAIMED])


NA = {}

if __name__ == "__main__":
    main()
