"""C01 - evaluation agrees with the Jsonnet language semantics.

spec:  Core.tla - an executable big-step (call-by-name) semantics of the core language: scoping, closures,
       parameter binding, operators, strings, arrays, comprehensions, indexing/slicing, objects (inheritance,
       visibility, locals, assertions, computed names), error/assert; MC_Core.tla enumerates bounded program
       families and checks the positional/named call invariant.
bind:  every program is pretty-printed (fully parenthesised and minimally parenthesised/sugared) and
       evaluated by the implementation with both parsers, as snippet, imported file, external-code variable
       and top-level-argument function body; value (as JSON) or failure must equal the model's outcome."""
import json
import os
import random

import common
from common import from_cps, run_cmds, run_tlc_many, stable_id, tla_to_py
from render import ast_src

FAMS = ["ops", "calls", "grammar", "objects", "index", "scope", "prec"]
STYLE_FULL = {"full": True, "sugar": False, "dot": False, "ident_fields": False}
STYLE_MIN = {"full": False, "sugar": True, "dot": True, "ident_fields": True}


def configs(p, fam):
    """(config name, harness command fields, env key)"""
    full = ast_src(p, STYLE_FULL)
    mini = ast_src(p, STYLE_MIN)
    out = [
        ("snippet.ir.full", {"src": full, "parser": "ir"}, ""),
        ("snippet.peg.full", {"src": full, "parser": "peg"}, ""),
        ("snippet.ir.min", {"src": mini, "parser": "ir"}, ""),
        ("snippet.peg.min", {"src": mini, "parser": "peg"}, ""),
        ("file.ir", {"src": full, "via": "file"}, ""),
        ("file.peg", {"src": mini, "via": "file"}, "peg"),
        ("extcode.ir", {"src": "std.extVar('p')", "ext": {"p": {"code": full}}}, ""),
        ("extcode.peg", {"src": "std.extVar('p')", "ext": {"p": {"code": mini}}}, "peg"),
    ]
    if fam == "core.grammar" or fam == "core.grammar2":
        body = ast_src(p["e"], STYLE_FULL)     # Close(e) = local x = 10, y = 20; e
        out.append(("tla.ir", {"src": f"function(x, y) {body}", "tla": {"x": {"code": "10"}, "y": {"code": "20"}}}, ""))
        out.append(("tla.named.ir", {"src": f"function(y=20, x) {body}", "tla": {"x": {"code": "10"}}}, ""))
    else:
        out.append(("tla.ir", {"src": f"function() {full}", "tla": {}}, ""))
    return out


def agrees(exp, r):
    if r["k"] == "crash":
        return False
    if exp["k"] == "val":
        return r["k"] == "val" and common.json_equal(json.loads(r["out"]), tla_to_py(exp["v"]))
    if r["k"] != "err":
        return False
    if exp.get("c") == "user" and "m" in exp:
        return from_cps(exp["m"]) in r.get("msg", "")
    return True


def op_key(p):
    t = p["t"]
    if t == "bin":
        return f"bin {p['op']} {p['l']['t']}/{p['r']['t']}"
    if t == "un":
        return f"un {p['op']} {p['e']['t']}"
    return t


def run(chk):
    thorough = chk.tier == "thorough"
    rng = random.Random(chk.seed)
    jobs = [dict(module="MC_Core", cfg=f"MC_Core_{f}.cfg", workers=4, timeout=3000, xmx="6g", java_opts=("-Xss512m",))
            for f in FAMS]
    parts = [1, 2, 3, 4, 5, 6, 7] if thorough else [1 + chk.seed % 7]
    jobs += [dict(module="MC_Core", cfg=f"MC_Core_grammar2_{p}.cfg", workers=6, timeout=3000, xmx="8g",
                  java_opts=("-Xss512m",)) for p in parts]
    rs = run_tlc_many(jobs, parallel=4)
    cases = []
    for j, r in zip(jobs, rs):
        chk.add_tlc(r, f"{j['cfg']}: Run(p) for every program; positional = named binding (calls)")
        rep = r.replay
        if "grammar2" in j["cfg"] and not thorough and len(rep) > 5000:
            rng.shuffle(rep)
            rep = rep[:5000]
        cases.extend(rep)
    if thorough or os.environ.get("VERIF_EXP"):
        _exp(chk)          # experimental syntax against its documented desugaring (experimental build of the harness)
    oom = [c for c in cases if c["out"]["k"] == "oom"]
    cases = [c for c in cases if c["out"]["k"] != "oom"]
    chk.extra["programs_enumerated"] = len(cases) + len(oom)
    chk.extra["outside_decided_domain"] = len(oom)
    chk.extra["expected_errors"] = sum(1 for c in cases if c["out"]["k"] == "err")

    cmds = {"": [], "peg": []}
    meta = {"": [], "peg": []}
    for ci, c in enumerate(cases):
        for name, fields, envk in configs(c["p"], c["fam"]):
            if not thorough and c["fam"] == "core.grammar2" and name not in ("snippet.ir.full", "snippet.peg.min", "tla.ir", "file.peg"):
                continue
            cmd = {"cmd": "eval", "id": len(cmds[envk])}
            cmd.update(fields)
            cmds[envk].append(cmd)
            meta[envk].append((ci, name))
    results = {"": run_cmds(cmds[""]), "peg": run_cmds(cmds["peg"], env_extra={"JRSONNET_LEGACY_PARSER": "1"})}
    for envk in ("", "peg"):
        for cmd, r, (ci, name) in zip(cmds[envk], results[envk], meta[envk]):
            c = cases[ci]
            chk.count((stable_id(c["p"]), name))
            if not agrees(c["out"], r):
                src = cmd.get("ext", {}).get("p", {}).get("code") or cmd["src"]
                what = ("crash" if r["k"] == "crash" else
                        "evaluates although the semantics fail" if c["out"]["k"] == "err" else
                        "fails although the semantics give a value" if r["k"] == "err" else "wrong value")
                chk.disagree(f"c01:{c['fam']}:{op_key(c['p'])}:{name}:{src[:90]}", {"src": src, "config": name, "cmd": cmd},
                             c["out"] if c["out"]["k"] == "err" else tla_to_py(c["out"]["v"]), r, what)
    # ---- object programs with inheritance: the object model (Objects.tla) prescribes every field and the manifestation
    from render import obj_chain, obj_chain_shared
    ofams = ["plus", "refs", "omit", "locals"]
    ors = run_tlc_many([dict(module="Objects", cfg=f"MC_Objects_{f}.cfg", workers=5, timeout=3000, xmx="8g") for f in ofams], parallel=3)
    ocmds, ometa = [], []
    for f, r in zip(ofams, ors):
        chk.add_tlc(r, f"Objects[{f}]: field values and manifestation of inheritance chains")
        rep = r.replay
        if not thorough and len(rep) > 1200:
            rng.shuffle(rep)
            if f == "locals":
                rep.sort(key=lambda c: obj_chain_shared(c["chain"]) is None)
            rep = rep[:1200]
        for c in rep:
            O = obj_chain(c["chain"], rng.randrange(2))
            if f == "locals":
                O = obj_chain_shared(c["chain"]) or O       # equal layers as one object value mixed in twice
            for name in ("a", "b"):
                g = c["obs"][name]["get"]
                ocmds.append({"cmd": "eval", "id": len(ocmds), "src": f"{O}.{name}"})
                ometa.append((c, name, ("val", g["n"]) if g["k"] == "num" else ("err",)))
            m = c["manifest"]
            ocmds.append({"cmd": "eval", "id": len(ocmds), "src": O})
            ometa.append((c, "manifest", ("val", {x["f"]: x["n"] for x in m["fs"]}) if m["k"] == "obj" else ("err",)))
    for envk, extra in (("ir", None), ("peg", {"JRSONNET_LEGACY_PARSER": "1"})):
        for cmd, r, (c, what, exp) in zip(ocmds, run_cmds(ocmds, env_extra=extra), ometa):
            chk.count(("objchain", envk, cmd["src"]))
            ok = (r["k"] == "val" and common.json_equal(json.loads(r["out"]), exp[1])) if exp[0] == "val" else r["k"] == "err"
            if not ok:
                chk.disagree(f"c01:{c['fam']}:{envk}:{what}:{cmd['src'][:100]}", {"src": cmd["src"], "parser": envk}, exp, r,
                             "an inheritance chain evaluates differently from the object model")
    chk.extra["object_chain_programs"] = len(ocmds)

    chk.traces += len(cases)
    for c in (cases[7], cases[len(cases) // 2]):
        chk.sample({"program": ast_src(c["p"], STYLE_MIN), "model_outcome": c["out"]})
    chk.assumptions += ["numbers are integers below 1e9 with exact division; programs exhausting the model's fuel or leaving "
                        "the integer domain are outside the decided domain and not judged",
                        "errors are compared as failure-vs-value (plus the text of `error` expressions)"]


def _exp(chk):
    from props import c01exp
    c01exp.run(chk)


def finish(chk):
    return chk.finish(rule="bounded program families (all operators x 16-value typed pool; 9 signatures x 55 call shapes; depth-1/2 "
                           "expression grammar; object programs; indexing/slicing; hand-written scope/recursion programs) x up "
                           "to 10 configurations (parser, parenthesisation/sugar, embedding position); distinct = (program, config)",
                      exhaustive=True)


def replay(case):
    cmd = dict(case["case"]["cmd"])
    cmd["id"] = 0
    env = {"JRSONNET_LEGACY_PARSER": "1"} if case["case"]["config"].endswith(".peg") and not case["case"]["config"].startswith("snippet") else None
    r = run_cmds([cmd], env_extra=env)[0]
    print("source:", case["case"]["src"])
    print("observed:", json.dumps(r)[:800])
    print("expected:", case["expected"])
    return 0
