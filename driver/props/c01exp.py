"""C01, experimental syntax: "an experimental-syntax program gives the result of its documented desugaring".

spec:  Desugar.tla (Bindings(pattern, subject): the translation of destructuring patterns into accesses; the
       translations of `??`, `?.` and object iteration as docs/features.adoc states them).
bind:  every TLC-enumerated pattern x position (local, parameter, comprehension variable, object-level local) is
       printed twice - with the pattern and with its translation - and both are evaluated on the experimental build of
       the implementation (cargo feature set exp-destruct, exp-null-coaelse, exp-object-iteration): same value, or both fail."""
import json

import common
from common import run_cmds, run_tlc_many


def pat_src(p):
    t = p["t"]
    if t == "name":
        return p["n"]
    if t == "skip":
        return "?"
    if t == "obj":
        parts = []
        for f in p["fields"]:
            into = f["into"]
            s = f["f"] if (into["t"] == "name" and into["n"] == f["f"]) else f"{f['f']}: {pat_src(into)}"
            if f["d"] != -1:
                s += f" = {f['d']}"
            parts.append(s)
        if p["rest"]:
            parts.append("..." + p["rest"])
        return "{" + ", ".join(parts) + "}"
    parts = [pat_src(x) for x in p["start"]]
    if p["rest"] == "drop":
        parts.append("...")
    elif p["rest"] != "none":
        parts.append("..." + p["rest"])
    parts += [pat_src(x) for x in p["end"]]
    return "[" + ", ".join(parts) + "]"


def expr_src(e):
    t = e["t"]
    if t == "subject":
        return "s"
    if t == "field":
        return f"{expr_src(e['e'])}.{e['f']}"
    if t == "index":
        return f"{expr_src(e['e'])}[{e['i']}]"
    if t == "fromend":
        x = expr_src(e["e"])
        return f"{x}[std.length({x}) - {e['k']}]"
    if t == "slice":
        x = expr_src(e["e"])
        return f"{x}[{e['a']}:std.length({x}) - {e['k']}]"
    if t == "default":
        x = expr_src(e["e"])
        return f"(if std.objectHas({x}, '{e['f']}') then {x}.{e['f']} else {e['d']})"
    if t == "objrest":
        x = expr_src(e["e"])
        return "{[k]: " + x + "[k] for k in std.objectFields(" + x + ") if !std.member(" + json.dumps(sorted(e["fs"])) + ", k)}"
    raise KeyError(t)


def subject_for(p):
    """a value the pattern fits: requested fields a, b present (q absent), one extra field / two extra elements"""
    def val(q, base):
        if q["t"] == "arr":
            return subject_for(q)
        if q["t"] == "obj":
            return subject_for(q)
        return str(base)
    if p["t"] == "obj":
        # without `...rest` the pattern names every field of the subject (whether extra fields are an error is not documented)
        fs = {}
        for f in p["fields"]:
            if f["f"] in ("a", "b"):
                fs[f["f"]] = val(f["into"], {"a": 1, "b": 2}[f["f"]])
        if p["rest"]:
            fs.setdefault("b", "2")
            fs["c"] = "9"
        return "{" + ", ".join(f"{k}: {v}" for k, v in fs.items()) + "}"
    if p["t"] == "arr":
        els = [val(q, 10 + i) for i, q in enumerate(p["start"])]
        if p["rest"] != "none":
            els += ["50", "51"]
        els += [val(q, 90 + i) for i, q in enumerate(p["end"])]
        return "[" + ", ".join(els) + "]"
    return "0"


def programs(c):
    p, binds = c["p"], c["binds"]
    names = [b["n"] for b in binds]
    body = "[" + ", ".join(names) + "]"
    subj = subject_for(p)
    pat = pat_src(p)
    plain_binds = ", ".join(f"{b['n']} = {expr_src(b['e'])}" for b in binds)
    plain_local = f"local {plain_binds}; " if binds else ""
    pos = c["pos"]
    if pos == "local":
        return f"local s = {subj}; local {pat} = s; {body}", f"local s = {subj}; {plain_local}{body}"
    if pos == "param":
        return f"local f({pat}) = {body}; f({subj})", f"local f(s) = {plain_local}{body}; f({subj})"
    if pos == "forvar":
        return f"[{body} for {pat} in [{subj}]]", f"[{plain_local}{body} for s in [{subj}]]"
    obj_binds = "".join(f"local {b['n']} = {expr_src(b['e'])}, " for b in binds)
    return f"{{local {pat} = {subj}, r: {body}}}.r", f"{{local s = {subj}, {obj_binds}r: {body}}}.r"


def run(chk):
    rs = run_tlc_many([dict(module="Desugar", cfg=f"MC_Desugar_{f}.cfg", workers=2) for f in ("object", "array", "misc")], parallel=3)
    cases = []
    for f, r in zip(("object", "array", "misc"), rs):
        chk.add_tlc(r, f"Desugar[{f}]: translation of every pattern / operator; BindsEachNameOnce")
        cases += r.replay
    common.build_harness_exp()
    cmds, meta = [], []
    for ci, c in enumerate(cases):
        sugar, plain = (c["sugar"], c["plain"]) if c["fam"] == "desugar.misc" else programs(c)
        for which, src in (("sugar", sugar), ("plain", plain)):
            cmds.append({"cmd": "eval", "id": len(cmds), "src": src})
            meta.append((ci, which))
    res = run_cmds(cmds, exe=common.JRV_EXP, timeout_per_case=10)
    n_ok = 0
    for k in range(0, len(cmds), 2):
        c = cases[meta[k][0]]
        s, p = res[k], res[k + 1]
        chk.count(("exp", cmds[k]["src"]))
        key = f"c01:exp:{c['fam']}:{cmds[k]['src'][:100]}"
        desc = {"sugar": cmds[k]["src"], "desugared": cmds[k + 1]["src"], "build": "experimental (harness feature exp)"}
        if s["k"] == "crash" or p["k"] == "crash":
            chk.disagree(key, desc, "value or error", s if s["k"] == "crash" else p, "crash")
            continue
        same = (s["k"] == p["k"]) and (s["k"] == "err" or common.json_equal(json.loads(s["out"]), json.loads(p["out"])))
        if not same:
            chk.disagree(key, desc, {"desugared": p.get("out", p.get("msg"))}, {"k": s["k"], "sugar": s.get("out", s.get("msg"))},
                         "the experimental syntax and its documented desugaring give different results")
        elif s["k"] == "val":
            n_ok += 1
    chk.extra["exp_programs"] = len(cmds) // 2
    chk.extra["exp_programs_with_value"] = n_ok
    chk.sample({"sugar": cmds[len(cmds) // 2 & ~1]["src"], "desugared": cmds[(len(cmds) // 2 & ~1) + 1]["src"]})
