"""C02 - object inheritance, late binding and visibility follow the object model.

spec:  Objects.tla - declarative object model (definitions, masks of removed keys, visibility merge, +:
       folding, self/super/$ evaluation, assertions) and the implementation-shaped single-pass lookups;
       TLC checks the refinement and consistency on every enumerated chain.
bind:  every chain is rendered as Jsonnet in both spellings and probed: field reads, has/hasAll/in,
       objectFields/All, manifestation, equality, super reads and `"f" in super` from every layer,
       repeated/ordered reads (field cache), and ObjValue::get through the Rust API."""
import json

import common
from common import run_cmds, run_tlc_many, stable_id
from render import obj_chain, obj_chain_shared

FAMS = ["vis", "plus", "refs", "omit", "assert", "locals", "strplus"]
NAMES = ["a", "b"]


def text_of(sq):
    """string value of Objects.tla (0..9 the digits, 10 the letter x)"""
    return "".join("x" if ch == 10 else str(ch) for ch in sq)


def want_get(g):
    """model outcome -> ('val', n) | ('err',)"""
    if g["k"] == "num":
        return ("val", g["n"])
    if g["k"] == "str":
        return ("val", text_of(g["s"]))
    return ("err",)   # absent (no such field) and errors both surface as errors of `o.f`


def check_val(r, n):
    return r["k"] == "val" and json.loads(r["out"]) == n


def run(chk):
    thorough = chk.tier == "thorough"
    rs = run_tlc_many([dict(module="Objects", cfg=f"MC_Objects_{f}.cfg", workers=6, timeout=3000, xmx="8g")
                       for f in FAMS], parallel=3)
    cases = []
    import random
    rng = random.Random(chk.seed)
    for f, r in zip(FAMS, rs):
        chk.add_tlc(r, f"Objects[{f}]: implementation-shaped lookups refine the declarative model; consistency")
        rep = r.replay
        cap = 100000 if thorough else {"vis": 1800, "plus": 1463, "refs": 2500, "omit": 2200, "assert": 1200, "locals": 2200, "strplus": 4000}[f]
        if len(rep) > cap:
            rng.shuffle(rep)
            if f == "locals":
                # first the chains in which one layer value with an object-level local occurs at two positions
                def reused(c):
                    ls = [json.dumps(l, sort_keys=True) for l in c["chain"] if not l["omit"] and any(m["p"] and m["b"]["k"] == "local" for m in l["ms"].values())]
                    return len(ls) != len(set(ls))
                rep.sort(key=lambda c: not reused(c))
            rep = rep[:cap]
        cases.extend(rep)
    chk.extra["chains_enumerated"] = sum(len(r.replay) for r in rs)
    chk.extra["chains_replayed"] = len(cases)

    cmds, meta = [], []
    by_chain = {json.dumps(c["chain"], sort_keys=True): c for c in cases}

    def add(ci, kind, src, arg=None, cmd="eval", extra=None):
        c = {"cmd": cmd, "id": len(cmds), "src": src}
        if extra:
            c.update(extra)
        cmds.append(c)
        meta.append((ci, kind, arg))

    for ci, c in enumerate(cases):
        ch = c["chain"]
        asserts_fail = c["asserts"] and c["manifest"]["k"] == "err" and c["manifest"]["c"] == "assert"
        for style in (0, 1):
            O = obj_chain(ch, style)
            pre = f"local o = {O}; "
            for f in NAMES:
                add(ci, "get", pre + f"o.{f}", (style, f))
            add(ci, "manifest", pre + "o", style)
            if style == 1 or c["fam"] == "objects.strplus":
                continue        # (strplus: field reads and manifestation only - its values are numbers or strings)
            for f in NAMES:
                add(ci, "index", pre + f"o['{f}']", f)
            if not asserts_fail:
                add(ci, "names", pre + "{has: [std.objectHas(o, f) for f in ['a', 'b']], "
                    "hasAll: [std.objectHasAll(o, f) for f in ['a', 'b']], hasEx: [std.objectHasEx(o, f, true) for f in ['a', 'b']], "
                    "inn: [f in o for f in ['a', 'b']], "
                    "fields: std.objectFields(o), fieldsAll: std.objectFieldsAll(o), len: std.length(o)}")
            if c["manifest"]["k"] == "obj":
                lit = "{" + ", ".join(f"{x['f']}: {x['n']}" for x in c["manifest"]["fs"]) + "}"
                add(ci, "equal", pre + f"local o2 = {O}; [o == {lit}, {lit} == o, o == o2, o != {lit}, "
                    f"std.objectValues(o) == [o[k] for k in std.objectFields(o)]]")
                # repeated / reordered reads through the same object (field cache)
                vis = sorted(x["f"] for x in c["manifest"]["fs"])
                if vis:
                    seq = [vis[-1]] + vis + [vis[0]]
                    add(ci, "reads", pre + "[" + ", ".join(f"o.{f}" for f in seq) + "]", seq)
            # the same layer value at several positions of the chain (a mixin applied twice)
            S = obj_chain_shared(ch)
            if S:
                for f in NAMES:
                    add(ci, "get", f"local o = {S}; o.{f}", ("shared", f))
                add(ci, "manifest", f"local o = {S}; o", "shared")
            # history: the chain without its last layer is evaluated first (its own assertions run and are remembered),
            # then the whole chain - late binding must still see the final object
            if len(ch) >= 2 and not ch[-1]["omit"] and not any(l["omit"] for l in ch):
                pc = by_chain.get(json.dumps(ch[:-1], sort_keys=True))
                if pc is not None and pc["manifest"]["k"] == "obj":
                    Pfx = obj_chain(ch[:-1], 0)
                    Last = obj_chain(ch[-1:], 0)
                    add(ci, "history", f"local p = {Pfx}; local o = p + {Last}; [p, o]", None)
            add(ci, "api", O, None, cmd="demand", extra={"demands": [{"f": "a"}, {"f": "b"}, {"f": "a"}, {"f": "zz"}]})
            # super reads from every (ordinary) layer
            P = obj_chain(ch, 0, probes=True)
            for sp in c["super"]:
                j = sp["j"]
                if ch[j - 1]["omit"]:
                    continue
                add(ci, "super.get", f"local o = {P}; o.ps{j}{sp['f']}", sp)
                add(ci, "super.has", f"local o = {P}; o.ph{j}{sp['f']}", sp)
    res = run_cmds(cmds)

    for cmd, r, (ci, kind, arg) in zip(cmds, res, meta):
        c = cases[ci]
        key = stable_id(c["chain"])
        fam = c["fam"]
        chk.count((key, kind, json.dumps(arg, sort_keys=True)))
        desc = {"src": cmd["src"]}
        asserts_fail = c["asserts"] and c["manifest"]["k"] == "err" and c["manifest"]["c"] == "assert"

        def bad(exp, what):
            chk.disagree(f"c02:{fam}:{kind}:{key}", desc, exp, r, what)

        if r["k"] == "crash":
            bad("value or error", "crash while probing an object")
            continue
        if kind in ("get", "index"):
            f = arg[1] if kind == "get" else arg
            w = want_get(c["obs"][f]["get"])
            ok = check_val(r, w[1]) if w[0] == "val" else r["k"] == "err"
            if not ok:
                bad(c["obs"][f]["get"], f"reading field {f} differs from the object model")
        elif kind == "manifest":
            m = c["manifest"]
            if m["k"] == "obj":
                exp = {x["f"]: (text_of(x["n"]) if isinstance(x["n"], list) else x["n"]) for x in m["fs"]}
                if not (r["k"] == "val" and common.json_equal(json.loads(r["out"]), exp)):
                    bad(exp, "manifestation differs from the visible fields of the object model")
            elif r["k"] != "err":
                bad(m, "manifestation should fail (assertion or erroring visible field)")
        elif kind == "history":
            m = c["manifest"]
            if m["k"] == "obj":
                exp = {x["f"]: x["n"] for x in m["fs"]}
                if not (r["k"] == "val" and common.json_equal(json.loads(r["out"])[1], exp)):
                    bad(exp, "the composed object differs from the object model after its prefix was evaluated on its own")
            elif r["k"] != "err":
                bad(m, "the composed object should fail (assertion or erroring field) - also after its prefix was evaluated on its own")
        elif kind == "names":
            exp = {"has": [c["obs"][f]["vis"] == "visible" for f in NAMES], "hasAll": [c["obs"][f]["has"] for f in NAMES],
                   "hasEx": [c["obs"][f]["has"] for f in NAMES], "inn": [c["obs"][f]["has"] for f in NAMES],
                   "fields": sorted(c["fields"]), "fieldsAll": sorted(c["fieldsAll"]), "len": len(c["fields"])}
            if not (r["k"] == "val" and common.json_equal(json.loads(r["out"]), exp)):
                bad(exp, "objectHas/objectHasAll/in/objectFields/objectFieldsAll/length differ from the object model")
        elif kind == "equal":
            if not (r["k"] == "val" and json.loads(r["out"]) == [True, True, True, False, True]):
                bad([True, True, True, False, True], "equality with the manifested literal / a second copy / objectValues")
        elif kind == "reads":
            exp = [next(x["n"] for x in c["manifest"]["fs"] if x["f"] == f) for f in arg]
            if not (r["k"] == "val" and json.loads(r["out"]) == exp):
                bad(exp, "repeated reads through the same object differ (field cache)")
        elif kind == "api":
            if r["k"] != "demanded":
                bad("object", "chain did not evaluate to an object")
                continue
            for f, ob in zip(["a", "b", "a", "zz"], r["obs"]):
                if f == "zz":
                    ok = ob["k"] == ("err" if asserts_fail else "absent")
                else:
                    g = c["obs"][f]["get"]
                    if g["k"] == "num":
                        ok = ob["k"] == "val" and json.loads(ob["out"]) == g["n"]
                    elif g["k"] == "absent":
                        ok = ob["k"] == "absent"
                    else:
                        ok = ob["k"] == "err"
                if not ok:
                    chk.disagree(f"c02:{fam}:api:{key}", desc, c["obs"].get(f, "absent"), ob,
                                 f"ObjValue::get({f}) differs from the object model")
                    break
        elif kind == "super.get":
            if asserts_fail:
                if r["k"] != "err":
                    bad("error (assertion)", "field read although an object assertion fails")
                continue
            w = want_get(arg["get"])
            ok = check_val(r, w[1]) if w[0] == "val" else r["k"] == "err"
            if not ok:
                bad(arg["get"], f"super.{arg['f']} from layer {arg['j']} differs from the object model")
        elif kind == "super.has":
            if asserts_fail:
                continue
            if not (r["k"] == "val" and json.loads(r["out"]) == arg["has"]):
                bad(arg["has"], f"'{arg['f']}' in super from layer {arg['j']} differs from the object model")
    chk.traces += len(cases)
    mid = cases[len(cases) // 2]
    chk.sample({"chain_as_jsonnet": obj_chain(mid["chain"], 1), "model_obs": mid["obs"], "manifest": mid["manifest"]})
    om = next(c for c in cases if c["fam"] == "objects.omit")
    chk.sample({"removed_key_chain": obj_chain(om["chain"], 0), "fields": om["fields"], "fieldsAll": om["fieldsAll"]})
    chk.assumptions += ["member values are numbers; names {a,b}; whether std.objectFields alone triggers assertions is not decided",
                        "self-referential loops are compared as error-vs-value only"]


def finish(chk):
    return chk.finish(rule="chains of <=3 layers (+ removed-key pseudo layers) over five member-kind families; each probed by "
                           "field reads in two spellings, indexing, manifestation, objectHas*/in/objectFields*, equality, "
                           "ordered repeated reads, super reads from every layer, and the Rust API; distinct = (chain, probe)",
                      exhaustive=(chk.tier == "thorough"))


def replay(case):
    src = case["case"]["src"]
    r = run_cmds([{"cmd": "eval", "id": 0, "src": src}])[0]
    print("source:", src)
    print("observed:", json.dumps(r)[:800])
    print("expected:", case["expected"])
    return 0
