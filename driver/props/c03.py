"""C03 - evaluation is call-by-need.

spec:  Lazy.tla - the memo-cell protocol (Waiting/Pending/Computed/Errored) with an explicit evaluation
       stack; TLC explores every dependency graph (cycles included) x every external demand sequence.
bind:  spec -> impl: each behaviour is replayed on four kinds of real memo cells - raw Thunk<Val>
       (MemoizedClosureThunk), object fields (obj.f / self.f), array elements, local bindings - comparing
       outcome and the list of bodies run after every demand;
       impl -> spec: the hook events of every run (also of hand-written unneeded-position programs and of
       the repository's suite files) are validated against Trace_Lazy.tla."""
import json

import common
from render import obj_chain
import corpus
from common import run_cmds, run_tlc_many, stable_id


def body(kind, c, node):
    dep = {"obj": "self.t%d", "arr": "a[%d]", "loc": "t%d"}[kind]
    s = f"std.trace('L{c}', {c})"
    for d in node["deps"]:
        s += " + 10 * " + (dep % d)
    if node["fail"]:
        s += f" + error 'fail{c}'"
    return s


def render(kind, nodes):
    n = len(nodes)
    if kind == "obj":
        return "{" + ", ".join(f"t{c}: {body(kind, c, nodes[c])}" for c in range(n)) + "}"
    if kind == "arr":
        return "local a = [" + ", ".join(body(kind, c, nodes[c]) for c in range(n)) + "]; a"
    if kind == "loc":
        return ("local " + ", ".join(f"t{c} = {body(kind, c, nodes[c])}" for c in range(n)) + "; ["
                + ", ".join(f"t{c}" for c in range(n)) + "]")
    raise ValueError(kind)


def expect_ok(exp, ob, labels):
    """model demand record vs harness observation"""
    out = exp["out"]
    if out["k"] == "val":
        if ob["k"] != "val":
            return False
        got = ob["v"] if "v" in ob else json.loads(ob["out"])
        if got != out["v"]:
            return False
    else:
        if ob["k"] != "err":
            return False
        e = out["e"]
        if e[0] == "infrec":
            if ob["class"] != "InfiniteRecursionDetected":
                return False
        else:
            if ob["class"] != "RuntimeError" or not ob["msg"].endswith(f"fail{e[1]}"):
                return False
    want = [f"L{c}" for c in exp["runs"]] if labels else exp["runs"]
    got = ob["traces"] if labels else ob["runs"]
    return want == got


# (program with an unneeded position holding BOMB, expected JSON) - expectations written by hand
UNNEEDED = [
    ("local unused = BOMB; 1", 1),
    ("local f(x, y) = x; f(1, BOMB)", 1),
    ("local f(x, y=BOMB) = x + y; f(1, 2)", 3),
    ("local f(x, y=BOMB) = x; f(1)", 1),
    ("if true then 1 else BOMB", 1),
    ("if false then BOMB else 2", 2),
    ("true || BOMB", True),
    ("false && BOMB", False),
    ("[1, BOMB, 3][2]", 3),
    ("std.length([BOMB, BOMB])", 2),
    ("{a: 1, b: BOMB}.a", 1),
    ("std.objectFields({a: BOMB, b: BOMB})", ["a", "b"]),
    ("std.length({a: BOMB})", 1),
    ("std.objectHas({a: BOMB}, 'a')", True),
    ("'a' in {a: BOMB}", True),
    ("({a: BOMB} + {a: 2}).a", 2),
    ("local o = {a: BOMB, b: 2}; o {a: 1}.a + o.b", 3),
    ("[x for x in [1, 2, 3] if x > 2 || false][0]", 3),
    ("std.length([BOMB for i in [1, 2, 3]])", 3),
    ("std.length(std.map(function(x) BOMB, [1, 2]))", 2),
    ("std.map(function(x) if x == 1 then BOMB else x, [1, 2])[1]", 2),
    ("std.length(std.makeArray(3, function(i) BOMB))", 3),
    ("([BOMB] + [2])[1]", 2),
    ("[BOMB, 5, 6][1:][0]", 5),
    ("std.reverse([1, BOMB])[1]", 1),
    ("std.length(std.repeat([BOMB], 3))", 3),
    ("local a = [BOMB, 2]; local b = a; b[1]", 2),
    ("{a: 1, assert true, local l = BOMB, b: self.a}.b", 1),
    ("std.get({a: 1}, 'a', BOMB)", 1),
    ("local f = function(a) function(b) a; f(7)(BOMB)", 7),
    ("std.length(std.objectValues({a: BOMB, b: BOMB}))", 2),
    ("std.foldl(function(acc, x) acc + 1, [BOMB, BOMB], 0)", 2),
    ("std.type([BOMB])", "array"),
    ("std.isObject({a: BOMB})", True),
    ("local f(x) = 1; f(x=BOMB)", 1),
    ("{[if false then 'k']: BOMB, a: 1}", {"a": 1}),
    ("std.objectHasAll({a:: BOMB}, 'a')", True),
    ("{a:: BOMB, b: 1}", {"b": 1}),
    # the standard library passes elements to user functions lazily (std.jsonnet: func(arr[i]))
    ("std.map(function(x) 1, [BOMB])[0]", 1),
    ("std.mapWithIndex(function(i, x) i, [BOMB])[0]", 0),
    ("std.foldr(function(x, acc) acc + 1, [BOMB, BOMB], 0)", 2),
    ("std.mapWithKey(function(k, v) k, {a: BOMB}).a", "a"),
    ("std.length(std.filter(function(x) true, [BOMB, BOMB]))", 2),
    ("std.flatMap(function(x) [1], [BOMB])", [1]),
    ("std.filterMap(function(x) true, function(x) 1, [BOMB])[0]", 1),
]
# shared positions: ONCE = std.trace('ONCE', 1) must be traced exactly once (expected values by hand)
SHARED = [
    ("local x = ONCE; [x, x, x]", [1, 1, 1]),
    ("local f(a) = [a, a]; f(ONCE)", [1, 1]),
    ("local f(a, b=a) = [a, b, b]; f(ONCE)", [1, 1, 1]),
    ("local f(a=ONCE) = [a, a]; f()", [1, 1]),
    ("local arr = [ONCE]; [arr[0], arr[0]]", [1, 1]),
    ("local arr = [x for x in [ONCE]]; [arr[0], arr[0]]", [1, 1]),
    ("local arr = std.map(function(x) x, [ONCE]); [arr[0], arr[0]]", [1, 1]),
    ("local arr = std.map(function(x) ONCE, [0]); [arr[0], arr[0]]", [1, 1]),
    ("local arr = std.makeArray(1, function(i) ONCE); [arr[0], arr[0]]", [1, 1]),
    ("local arr = [ONCE] + [2]; [arr[0], arr[0], arr[1:][0]]", [1, 1, 2]),
    ("local o = {a: ONCE}; [o.a, o.a]", [1, 1]),
    ("{a: ONCE, b: self.a, c: self.a}", {"a": 1, "b": 1, "c": 1}),
    ("local o = {a: ONCE}; local p = o {b: super.a, c: super.a}; [p.b, p.c]", [1, 1]),
    ("local o = {a: ONCE} + {b: self.a, c: $.a}; [o.b, o.c, o.a]", [1, 1, 1]),
    ("{local l = ONCE, a: l, b: l}", {"a": 1, "b": 1}),
    ("local o = {assert self.a == 1, a: ONCE}; o.a", 1),
    ("local o = {assert self.a == 1, a: ONCE}; [o.a, o.a]", [1, 1]),
    ("local o = {assert self.a == 1, a: ONCE, b: self.a}; o.b", 1),
    ("local o = {a: ONCE}; std.objectValues(o) + [o.a]", [1, 1]),
    ("local o = {a: ONCE}; [std.get(o, 'a'), o.a, o['a']]", [1, 1, 1]),
    ("local x = ONCE; local y = x; local z = y; [x, y, z]", [1, 1, 1]),
    ("local f(a) = a; local v = ONCE; [f(v), f(v)]", [1, 1]),
]
# binders x consumers: every way of naming a value once x every way of using the name several times
# (B: binder with hole USE, the bound name is `x`; U: consumer expression over x with its value when x = 1)
_BINDERS = [
    "local x = ONCE; USE", "(function(x) USE)(ONCE)", "(function(x=ONCE) USE)()", "local f(x) = USE; f(ONCE)",
    "local o = {v: ONCE}; local x = o.v; USE", "{local x = ONCE, r: USE}.r", "{local x = ONCE, assert x == 1, r: USE}.r",
    "{local x = ONCE, local y = x, assert y == 1, r: USE}.r", "{local x = ONCE, assert x == 1 : 'm', r: USE, s: x}.r",
    "local o = {local x = ONCE, assert x == 1, r: USE, s: x}; [o.s, o.r][1]", "{v:: ONCE, local x = self.v, r: USE}.r",
    "{v:: ONCE, assert self.v == 1, local x = self.v, r: USE}.r", "({v:: ONCE} + {local x = super.v, r: USE}).r",
    "({v:: ONCE} + {local x = super.v, assert x == 1, r: USE}).r", "[USE for x in [ONCE]][0]", "{[k]: USE for k in ['r'] for x in [ONCE]}.r",
    "local a = [ONCE]; local x = a[0]; USE", "local x = std.map(function(i) ONCE, [0])[0]; USE", "local x = {a: ONCE}.a; USE",
    "local o = {x: ONCE}; local x = o.x; assert x == 1; USE", "local x = ONCE; assert x == 1; USE",
    # strict calls: the argument is forced once, before the call, and never again
    "(function(x) USE)(ONCE) tailstrict", "local f(x) = USE; f(ONCE) tailstrict", "local f(x) = USE; f(x=ONCE) tailstrict",
    "local f(y, x) = USE; f(0, ONCE) tailstrict", "local f(x, y=x) = local x2 = x; (USE) + 0 * y; f(ONCE) tailstrict" if False else "local f(x, y=x) = USE; f(ONCE) tailstrict",
]
_USES = [("[x, x]", [1, 1]), ("x + x", 2), ("{a: x, b: x}", {"a": 1, "b": 1}), ("local g() = x; g() + g()", 2),
         ("std.map(function(i) x + i, [0, 1])", [1, 2]), ("{local y = x, assert y == 1, a: y, b: x}", {"a": 1, "b": 1}),
         ("if x == 1 then x else 0", 1), ("[x][0] + {a: x}.a", 2)]
SHARED += [(b.replace("USE", "(" + u + ")"), v) for b in _BINDERS for u, v in _USES]
SHARED += [("std.map(function(v) v + 1, [ONCE]) tailstrict", [2]), ("std.abs(n=ONCE) tailstrict", 1),
           ("local f(a) = a[0] + a[0]; f([ONCE]) tailstrict", 2)]
BOMBS = ["error 'bomb'", "(local f() = f(); f())", "std.trace('BOMB', 0)", "{a: 1}.nope", "(1 / 0)", "[][1]"]

# (call with tailstrict twin): the twin may only turn a value into an error when an argument errors
TAILSTRICT = [
    ("local f(x, y) = x; f(1, 2)", "local f(x, y) = x; f(1, 2) tailstrict", False),
    ("local f(x, y) = x; f(1, error 'e')", "local f(x, y) = x; f(1, error 'e') tailstrict", True),
    ("local f(n, acc) = if n == 0 then acc else f(n - 1, acc + n) tailstrict; f(50, 0)",
     "local f(n, acc) = if n == 0 then acc else f(n - 1, acc + n); f(50, 0)", False),
    ("local f(x, y=x) = [x, y]; f(1)", "local f(x, y=x) = [x, y]; f(1) tailstrict", False),
    ("local id(x) = x; id({a: error 'e'}).a", "local id(x) = x; id({a: error 'e'}) tailstrict.a", False),
    ("std.length([1, 2])", "std.length([1, 2]) tailstrict", False),
    ("local f(a) = 1; f([error 'x'])", "local f(a) = 1; f([error 'x']) tailstrict", False),
    ("local f(x=error 'd') = 1; f()", "local f(x=error 'd') = 1; f() tailstrict", False),
]


def event_lines(events, obj_hit_any=True):
    out = []
    for e in events:
        if e["site"] == "imp":
            continue
        key = f"{e['site']}:{e['cell']}:{e['idx']}:{e.get('key', '')}"
        what = e["what"]
        if e["site"] == "obj" and what == "hit":
            what = "hit_any"
        if what == "restart_asserting":
            what = "restart"
        out.append({"ev": what, "c": key})
    out.append({"ev": "reset", "c": ""})
    return out


def run(chk):
    thorough = chk.tier == "thorough"
    cfgs = ["MC_Lazy_n2.cfg", "MC_Lazy_n3.cfg"] + (["MC_Lazy_n3d2.cfg"] if thorough else [])
    rs = run_tlc_many([dict(module="Lazy", cfg=c, workers=6, timeout=3000, xmx="10g") for c in cfgs], parallel=3)
    cases = []
    for c, r in zip(cfgs, rs):
        chk.add_tlc(r, f"Lazy[{c}]: AtMostOnce PendingIffRunning QuiescentClean StoredOutcome OnlyNeeded Stable")
        cases.extend(r.replay)
    if thorough and len(cases) > 120000:
        import random
        rng = random.Random(chk.seed)
        big = [c for c in cases if len(c["nodes"]) == 3]
        small = [c for c in cases if len(c["nodes"]) != 3]
        rng.shuffle(big)
        cases = small + big[:120000]
    chk.extra["behaviours_enumerated"] = len(cases)

    # ---- spec -> impl on four kinds of memo cells
    cmds, meta = [], []
    for ci, c in enumerate(cases):
        dem = [d["c"] for d in c["demands"]]
        cmds.append({"cmd": "thunks", "id": len(cmds), "nodes": c["nodes"], "demands": dem})
        meta.append((ci, "thunk"))
        for kind in ("obj", "arr", "loc"):
            src = render(kind, c["nodes"])
            dd = [{"f": f"t{d}"} if kind == "obj" else {"i": d} for d in dem]
            cmds.append({"cmd": "demand", "id": len(cmds), "src": src, "demands": dd,
                         "want_events": (ci % 4 == 0)})
            meta.append((ci, kind))
    res = run_cmds(cmds)
    ev_lines, ev_meta = [], []
    for cmd, r, (ci, kind) in zip(cmds, res, meta):
        c = cases[ci]
        chk.count((kind, stable_id([c["nodes"], [d["c"] for d in c["demands"]]])))
        if r["k"] not in ("thunks", "demanded"):
            chk.disagree(f"c03:{kind}:crash:{stable_id(cmd)}", cmd, "observations", r, "crash / setup error in memo-cell replay")
            continue
        for step, (exp, ob) in enumerate(zip(c["demands"], r["obs"])):
            if not expect_ok(exp, ob, labels=(kind != "thunk")):
                chk.disagree(f"c03:{kind}:{json.dumps(c['nodes'])}:{[d['c'] for d in c['demands']][:step + 1]}",
                             cmd, exp, ob, f"{kind} cell: outcome or bodies run differ from Lazy.tla at demand {step + 1}")
                break
        if "events" in r:
            start = len(ev_lines)
            ev_lines.extend(event_lines(r["events"]))
            ev_meta.append((start, len(ev_lines), cmd))
    chk.traces += len(cmds)
    chk.sample({"graph": cases[len(cases) // 2]["nodes"], "demands": cases[len(cases) // 2]["demands"],
                "as_object": render("obj", cases[len(cases) // 2]["nodes"])})

    # ---- unneeded positions (bombs): outcome must be the hand-written expectation whatever the bomb
    bcmds, bmeta = [], []
    for prog, exp in UNNEEDED:
        for b in BOMBS:
            src = prog.replace("BOMB", b)
            bcmds.append({"cmd": "eval", "id": len(bcmds), "src": src, "want_events": True})
            bmeta.append((prog, b, exp))
    bres = run_cmds(bcmds)
    for cmd, r, (prog, b, exp) in zip(bcmds, bres, bmeta):
        chk.count(("bomb", prog, b))
        ok = r["k"] == "val" and common.json_equal(json.loads(r["out"]), exp) and \
            not any(t["v"] == "BOMB" for t in r.get("traces", []))
        if not ok:
            chk.disagree(f"c03:unneeded:{prog}", {"src": cmd["src"]}, exp, r,
                         "an expression in an unneeded position was evaluated (or the result changed)")
        if "events" in r:
            start = len(ev_lines)
            ev_lines.extend(event_lines(r["events"]))
            ev_meta.append((start, len(ev_lines), cmd))
    chk.sample({"unneeded_program": UNNEEDED[2][0], "bombs": BOMBS})

    # ---- object chains of Objects.tla: every definition a read does not need holds a bomb
    import copy
    import random as _random
    orng = _random.Random(chk.seed)
    ofams = ["plus", "omit", "refs"]
    ors = run_tlc_many([dict(module="Objects", cfg=f"MC_Objects_{f}.cfg", workers=5, timeout=3000, xmx="8g") for f in ofams], parallel=3)
    ocmds, ometa = [], []
    for f, r in zip(ofams, ors):
        chk.add_tlc(r, f"Objects[{f}]: Used = the definitions a field read evaluates")
        rep = [c for c in r.replay if not c["asserts"]]
        if not thorough and len(rep) > 2500:
            orng.shuffle(rep)
            rep = rep[:2500]
        for c in rep:
            for name in ("a", "b"):
                g = c["obs"][name]["get"]
                if g["k"] != "num":
                    continue
                used = {(u[0], u[1]) for u in c["used"][name]}
                ch = copy.deepcopy(c["chain"])
                planted = 0
                for j, layer in enumerate(ch, start=1):
                    if layer["omit"]:
                        continue
                    for mn, m in layer["ms"].items():
                        if m["p"] and (j, mn) not in used:
                            m["b"] = {"k": "bomb", "g": "", "n": 0}
                            planted += 1
                if planted:
                    ocmds.append({"cmd": "eval", "id": len(ocmds), "src": f"{obj_chain(ch, 0)}.{name}"})
                    ometa.append((c, name, g["n"]))
    for cmd, r, (c, name, n) in zip(ocmds, run_cmds(ocmds), ometa):
        chk.count(("objbomb", cmd["src"]))
        if not (r["k"] == "val" and json.loads(r["out"]) == n):
            chk.disagree(f"c03:object-unneeded:{c['fam']}:{cmd['src']}", {"src": cmd["src"], "chain": c["chain"], "field": name}, n, r,
                         "reading a field evaluated a definition the object model does not need (overridden, masked by a removed key, or another field)")
    chk.extra["object_reads_with_bombs"] = len(ocmds)

    # ---- shared positions: evaluated at most once
    scmds = [{"cmd": "eval", "id": i, "src": prog.replace("ONCE", "std.trace('ONCE', 1)"), "want_events": True}
             for i, (prog, exp) in enumerate(SHARED)]
    for cmd, r, (prog, exp) in zip(scmds, run_cmds(scmds), SHARED):
        chk.count(("shared", prog))
        n = sum(1 for t in r.get("traces", []) if t["v"] == "ONCE")
        ok = r["k"] == "val" and common.json_equal(json.loads(r["out"]), exp) and n == 1
        if not ok:
            chk.disagree(f"c03:shared:{prog}", {"src": cmd["src"]}, {"value": exp, "ONCE traced": 1},
                         {"outcome": r.get("out", r.get("msg")), "ONCE traced": n},
                         "a shared binding/element/field was evaluated more than once (or the result is wrong)")
        if "events" in r:
            start = len(ev_lines)
            ev_lines.extend(event_lines(r["events"]))
            ev_meta.append((start, len(ev_lines), cmd))

    # ---- tailstrict
    tcmds = []
    for a, b, may_fail in TAILSTRICT:
        tcmds += [{"cmd": "eval", "id": len(tcmds), "src": a}, {"cmd": "eval", "id": len(tcmds) + 1, "src": b}]
    tres = run_cmds(tcmds)
    for i, (a, b, may_fail) in enumerate(TAILSTRICT):
        ra, rb = tres[2 * i], tres[2 * i + 1]
        chk.count(("tailstrict", a))
        same = ra["k"] == rb["k"] == "val" and ra["out"] == rb["out"]
        allowed = same or (may_fail and "err" in (ra["k"], rb["k"]) and "crash" not in (ra["k"], rb["k"])) \
            or (ra["k"] == rb["k"] == "err")
        if not allowed:
            chk.disagree(f"c03:tailstrict:{a}", {"plain": a, "twin": b}, "same value (or error only if an argument errors)",
                         [ra, rb], "tailstrict changed a result that exists")

    # ---- repository programs as additional event sources
    pcmds = [{"cmd": "eval", "id": i, "src": src, "want_events": True}
             for i, (name, src) in enumerate(corpus.repo_programs())]
    pcmds += [{"cmd": "eval", "id": 1000 + i, "src": p, "want_events": True}
              for i, p in enumerate(corpus.CYCLIC + corpus.ERRORING)]
    for cmd, r in zip(pcmds, run_cmds(pcmds)):
        if "events" in r:
            start = len(ev_lines)
            ev_lines.extend(event_lines(r["events"]))
            ev_meta.append((start, len(ev_lines), cmd))

    # ---- impl -> spec
    # chunk boundaries must fall on resets: build chunks from whole evaluations
    chunks, cur, cur_meta = [], [], []
    for (a, b, cmd) in ev_meta:
        cur.extend(ev_lines[a:b])
        cur_meta.append((len(cur), cmd))
        if len(cur) > 40000:
            chunks.append((cur, cur_meta))
            cur, cur_meta = [], []
    if cur:
        chunks.append((cur, cur_meta))
    total_events = sum(len(c[0]) for c in chunks)
    for k, (lines, cmeta) in enumerate(chunks):
        rej = common.validate_lines(chk, "Trace_Lazy", "Trace_Lazy.cfg", lines, f"lazy{k}", chunk=10 ** 9, parallel=1)
        for li in rej:
            cmd = next(c for (end, c) in cmeta if li < end)
            ev = lines[li]
            kind = "restart" if ev["ev"] == "restart" else "protocol"
            src = cmd.get("src", "")
            chk.disagree(f"c03:events:{kind}:{src[:120]}", {"src": src, "event": ev, "line": li},
                         "memoisation events form a behaviour of Lazy.tla", ev,
                         "object field body started again while its first evaluation is pending (assertion re-entry)"
                         if kind == "restart" else "memoisation event not allowed by the Lazy protocol")
    chk.extra["hook_events_validated"] = total_events
    chk.assumptions += ["order of evaluation is not compared, only which bodies run during which demand",
                        "unneeded-position expectations are hand-written constants, not produced by the implementation"]


def finish(chk):
    return chk.finish(rule="every (dependency graph, demand sequence) of Lazy.tla within the bounds, replayed on 4 kinds of "
                           "memo cells; distinct = (cell kind, graph, demands); plus unneeded-position programs x 6 bombs, "
                           "tailstrict twins and hook-event traces", exhaustive=True)


def replay(case):
    c = case["case"]
    r = run_cmds([c if "cmd" in c else {"cmd": "eval", "id": 0, "src": c["src"], "want_events": True}])[0]
    print(json.dumps(r, indent=1)[:4000])
    print("expected:", case["expected"])
    return 0
