"""C04 - evaluation is total: a value or a Jsonnet error, never a crash.

spec:  Total.tla (outcome protocol of a thread: every evaluation ends in an outcome class and leaves the thread
       idle-clean; histories of outcome classes), Stack.tla (frame counter: Push only below the limit, PushFail at the
       limit, Pop on every exit path, Override/Restore; Bounded, Balanced; MustSucceed / MustFail for recursion
       depth n), StdSig.tla (every tuple of boundary kinds for std calls).
bind:  arbitrary source texts (token sequences enumerated by TLC, seeded random bytes, single-character mutations
       of valid programs), every std function x every boundary tuple, recursion swept across the limit,
       self-dependent values, and TLC-enumerated histories of failing/succeeding evaluations followed by a probe on
       the same thread - all recorded as a trace validated by Trace_Total.tla (no crash event, frame counter /
       assertion markers / entered state restored)."""
import json
import random

import common
from props import c06
import corpus
from common import run_cmds, run_tlc, run_tlc_many

POOL = [
    "-1", "0", "1", "2", "0.5", "-0.5", "2147483648", "9007199254740992", "1e300", "-1e300",       # 1..10 numbers
    "''", "'a'", "'é'", "'\U0001F600'", "'%d %s'", "'a,b,,c'",                                 # 11..16 strings
    "[]", "[1]", "[[]]", "[1, 2, 3]", "['a', 'b']", "[null]",                                       # 17..22 arrays
    "{}", "{a: 1}", "{a:: 1, b: {c: null}}", "null", "true", "function(x) x", "function(x, y) x",   # 23..29
    "std.range(1, 20000)",                                                                         # 30 large
]
STRUCTURED = ["{a: [{b: 1}, 2]}", "[{a: 1}, 2, [null]]", "{a: [[], {}], b: {c: [{d: {}}, 'x']}}", "{a: [{b: 1}, error 'x']}", "{a: [[{b: 1}], [2]]}"]
POOL3 = ["-1", "0", "1", "0.5", "1e300", "''", "'a'", "'é'", "[]", "[1, 2, 3]", "{a: 1}", "null"]
SKIP_FUNCS = {"native", "thisFile"}
HUGE = {"2147483648", "9007199254740992", "1e300", "std.range(1, 20000)"}
SIZE_FUNCS = {"repeat", "makeArray", "range", "join", "format", "escapeStringJson", "manifestJsonEx", "manifestYamlDoc"}

CLASS_PROG = {
    "val": ("1 + 1", None), "err": ("error 'x'", None), "type": ("1 + {}", None),
    "stack": ("local f(n) = 1 + f(n + 1); f(0)", 30), "infrec": ("local a = a; a", None),
    "assert_manifest": ("{assert self.a == 2 : 'no', a: 1, b: self.a}", None), "syntax": ("1 +", None),
    "import": ("import 'does/not/exist.jsonnet'", None),
}
PROBE = ("local o = {assert self.a == 1, a: 1, b: [self.a, std.length('éx')], c: std.map(function(x) x * 2, [1, 2])}; o",
         {"a": 1, "b": [1, 2], "c": [2, 4]})


def wrap_call(f, args):
    call = f"std.{f}({', '.join(args)})"
    return (f"local r = {call}; [std.type(r), if std.isArray(r) && std.length(r) < 50 then r "
            f"else if std.isObject(r) && std.length(r) < 50 then r else if std.isString(r) && std.length(r) < 200 then r else 0]")


def eval_event(r):
    return {"ev": "Eval", "k": r["k"] if r["k"] in ("val", "err") else "crash", "depth_before": r.get("depth_before", 0),
            "depth_after": r.get("depth_after", 0), "asserting": r.get("asserting", 0), "entered": bool(r.get("entered_after", False))}


def run(chk):
    thorough = chk.tier == "thorough"
    rng = random.Random(chk.seed)
    lines, lmeta = [], []

    def record(cmd, r, construct):
        lines.append(eval_event(r))
        lmeta.append((construct, cmd, r))

    # ---- the specifications on their own
    rs = run_tlc_many([dict(module="Stack", cfg="MC_Stack.cfg", workers=2), dict(module="Total", cfg="MC_Total.cfg", workers=2),
                       dict(module="StdSig", cfg="MC_StdSig.cfg", workers=2),
                       dict(module="MC_Grammar", cfg="MC_Grammar_misc_3.cfg", workers=2, java_opts=("-Xss512m",)),
                       dict(module="MC_Grammar", cfg="MC_Grammar_keyword_3.cfg", workers=2, java_opts=("-Xss512m",)),
                       dict(module="Lexical", cfg="MC_Lexical_dq.cfg", workers=2, java_opts=("-Xss512m",)),
                       dict(module="Lexical", cfg="MC_Lexical_sq.cfg", workers=2, java_opts=("-Xss512m",)),
                       dict(module="Lexical", cfg="MC_Lexical_block.cfg", workers=2, java_opts=("-Xss512m",))], parallel=8)
    for r, what in zip(rs, ["Stack: Bounded, Balanced", "Total: IdleClean; histories", "StdSig: boundary tuples",
                             "token sequences (misc)", "token sequences (keyword)", "string literals (double quoted): every escape sequence",
                             "string literals (single quoted)", "text blocks"]):
        chk.add_tlc(r, what)
    histories = rs[1].replay
    tuples = rs[2].replay
    token_cases = rs[3].replay + rs[4].replay

    # ---- (1) arbitrary source texts
    texts = [" ".join(c["ts"]) for c in token_cases]
    for r in rs[5:8]:           # every literal of the lexical families is a source text too (escapes, surrogates, blocks)
        for c in r.replay:
            texts += [src for _, src, _ in c06.lex_sources(c)]
    alphabet = [chr(c) for c in range(32, 127)] + ["\n", "\t", "é", "\U0001F600", "\x00", "\x7f", "|||", "'", '"', "/*", "*/", "//"]
    for _ in range(6000 if thorough else 1500):
        texts.append("".join(rng.choice(alphabet) for _ in range(rng.randint(1, 24))))
    valid = corpus.CYCLIC + corpus.ERRORING + [src for _, src in corpus.repo_programs() if len(src) < 1500]
    for _ in range(6000 if thorough else 1500):
        s = rng.choice(valid)
        i = rng.randrange(len(s))
        kind = rng.random()
        s = s[:i] + ("" if kind < 0.3 else rng.choice(alphabet)) + (s[i + 1:] if kind < 0.7 else s[i:])
        texts.append(s)
    tcmds = [{"cmd": "eval", "id": i, "src": t} for i, t in enumerate(texts)]
    for cmd, r in zip(tcmds, run_cmds(tcmds, timeout_per_case=10)):
        chk.count(("text", cmd["src"]))
        record(cmd, r, f"c04:text:{cmd['src'][:120]!r}")

    # ---- (2) std x boundary arguments
    intro = run_cmds([{"cmd": "eval", "id": 0, "src": "{[f]: std.length(std[f]) for f in std.objectFieldsAll(std) if std.isFunction(std[f])}"}])[0]
    if intro["k"] != "val":
        raise common.ToolError("cannot list std functions: " + json.dumps(intro)[:300])
    arity = json.loads(intro["out"])
    scmds = []
    for f, n in sorted(arity.items()):
        if f in SKIP_FUNCS or f.startswith("__"):
            continue
        if n == 0:
            scmds.append({"cmd": "eval", "id": len(scmds), "src": wrap_call(f, [])})
            continue
        for t in tuples:
            if t["n"] != min(n, 3):
                continue
            pool = POOL3 if t["n"] == 3 else POOL
            args = [pool[i - 1] for i in t["a"]] + ["null"] * (n - 3 if n > 3 else 0)
            if f in SIZE_FUNCS and any(a in HUGE for a in args):
                continue
            scmds.append({"cmd": "eval", "id": len(scmds), "src": wrap_call(f, args)})
    if not thorough and len(scmds) > 60000:
        rng.shuffle(scmds)
        scmds = scmds[:60000]
        for i, c in enumerate(scmds):
            c["id"] = i
    # structured values (containers of mixed element kinds, an error inside) in every argument position
    for f, n in sorted(arity.items()):
        if f in SKIP_FUNCS or f.startswith("__") or n == 0:
            continue
        for extra in STRUCTURED:
            for pos in range(min(n, 3)):
                for filler in ("null", "'  '", "1", "{}"):
                    args = [filler] * n
                    args[pos] = extra
                    scmds.append({"cmd": "eval", "id": len(scmds), "src": wrap_call(f, args)})
    # operators and calls with extreme operands that the tuple pool does not reach
    for src in ["'aa' * 1e300", "'aa' * -1", "'aa' * 0.5", "std.format('%99999d', [1])", "std.format('%.99999f', [1])",
                "std.format('%*d', [1e300, 1])", "std.trace(['a" + "é" * 300 + "'], 1)", "std.trace({a: 'ab" + "é" * 300 + "'}, 1)", "std.trace({a: '" + "\U0001F600" * 200 + "'}, 1)",
                "std.repeat('a', 1e300)", "std.repeat([1], -1)", "std.makeArray(1e300, function(i) i)", "std.char(1e300)",
                "std.range(-1e300, 1e300)", "std.substr('é', 0, 1e300)", "std.slice([1], 0, 1e300, 1e300)", "[1, 2][1e300]",
                "'abc'[1e300]", "[1, 2][0.5]", "[1][-1e300:1e300:1e300]", "std.join('a', std.range(1, 3))",
                "std.parseJson('" + "[" * 5000 + "')", "std.parseYaml('" + "[" * 2000 + "')", "std.base64Decode('!!!!')",
                "std.decodeUTF8([1e300])", "std.decodeUTF8([-1])", "std.md5(1)", "std.sort([1, 'a', null, {}])",
                "std.sort([{}, {}])", "std.set([[1], 'a'])", "std.manifestJsonEx({a: 1}, 1)", "std.manifestYamlDoc(function(x) x)",
                "std.manifestTomlEx({a: null}, '  ')", "std.manifestXmlJsonml([1])", "std.manifestXmlJsonml(['a', {b: function(x) x}])",
                "std.mergePatch(1e300, {a: null})", "std.prune(std.range(1, 10))", "std.objectRemoveKey({}, 'a').a",
                "std.mod('%d', [1, 2])", "std.mod(1, 0)", "std.log(-1)", "std.pow(-1, 0.5)", "std.exponent(0)", "std.mantissa(1e300)",
                "std.round(1e300)", "std.round(-0.5)", "std.sign('a')", "std.isEven(1e300)", "std.isOdd(0.5)", "std.isInteger(1e300)",
                "std.hypot(1e300, 1e300)", "std.clamp(1, 5, 2)", "(function(a, b) 1)(a=1, b=2, c=3)", "(function(a) 1)(1, a=2, b=3)",
                "std.length(x=1, y=2)", "std.length(1, x=2, y=3)", "(function() 1)(a=1)", "std.makeArray(1, function() 1, sz=2, func=3)", "std.manifestIni(1)", "std.deg2rad(1e308) * 1e10"]:
        scmds.append({"cmd": "eval", "id": len(scmds), "src": f"local r = {src}; [std.type(r)]"})
    scmds.append({"cmd": "eval", "id": len(scmds), "src": "local r = function(a, b) 1; r",
                  "tla": {"x1": {"str": "1"}, "y2": {"str": "2"}, "z3": {"str": "3"}}})
    chk.extra["std_functions"] = len(arity)
    chk.extra["std_calls"] = len(scmds)
    for cmd, r in zip(scmds, run_cmds(scmds, timeout_per_case=4, chunk=60)):
        chk.count(("std", cmd["src"]))
        call = cmd["src"].split(";")[0][len("local r = "):]
        record(cmd, r, f"c04:std:{call}")

    # ---- (3) recursion across the frame limit and self-dependent values
    K_MAX = 4            # frames per recursion level are between 1 and K_MAX (Stack.MustSucceed / MustFail)
    templates = {
        "call": "local f(n) = if n == 0 then 0 else 1 + f(n - 1); f({n})",
        "mutual": "local a(n) = if n == 0 then 0 else 1 + b(n - 1), b(n) = if n == 0 then 0 else 1 + a(n - 1); a({n})",
        "field": "local o = {{f(n): if n == 0 then 0 else 1 + self.f(n - 1)}}; o.f({n})",
    }
    rcmds, rmeta = [], []
    for lim in (10, 200, 512):
        for name, t in templates.items():
            for n in sorted({1, lim // (2 * K_MAX), lim // K_MAX - 1, lim - 2, lim - 1, lim, lim + 1, lim + 2, 4 * lim}):
                if n < 1:
                    continue
                rcmds.append({"cmd": "eval", "id": len(rcmds), "src": t.format(n=n), "max_stack": lim})
                rmeta.append((name, lim, n))
    for cmd, r, (name, lim, n) in zip(rcmds, run_cmds(rcmds, timeout_per_case=30), rmeta):
        chk.count(("recursion", name, lim, n))
        construct = f"c04:recursion:{name}:limit={lim}:n={n}"
        record(cmd, r, construct)
        if r["k"] == "crash":
            continue
        if K_MAX * n < lim:
            if not (r["k"] == "val" and json.loads(r["out"]) == n):
                chk.disagree(construct, {"src": cmd["src"], "max_stack": lim}, n, r, "recursion well below the frame limit fails")
        elif n > lim:
            if not (r["k"] == "err" and r["class"] == "StackOverflow"):
                chk.disagree(construct, {"src": cmd["src"], "max_stack": lim}, "stack overflow error", r,
                             "recursion deeper than the frame limit is not stopped with a stack-overflow error")
        elif r["k"] == "err" and r["class"] != "StackOverflow":
            chk.disagree(construct, {"src": cmd["src"], "max_stack": lim}, "value or stack overflow error", r, "unexpected error kind")
    selfdep = ["local a = a; a", "{a: self.a}.a", "local x = [x[0]]; x[0]", "local a = b, b = a; a + 1",
               "local o = {a: self.b, b: self.a}; o.a", "local f = f; f(1)", "{a: $.a + 1}.a"]
    for cmd, r in zip([{"cmd": "eval", "id": i, "src": s} for i, s in enumerate(selfdep)],
                      run_cmds([{"cmd": "eval", "id": i, "src": s} for i, s in enumerate(selfdep)])):
        chk.count(("selfdep", cmd["src"]))
        record(cmd, r, f"c04:selfdep:{cmd['src']}")
        if not (r["k"] == "err" and r["class"] == "InfiniteRecursionDetected"):
            chk.disagree(f"c04:selfdep:{cmd['src']}", {"src": cmd["src"]}, "infinite recursion error", r,
                         "a value depending on itself is not reported as infinite recursion")

    # ---- (4) histories on one thread, then a probe
    def run_history(h):
        seq = []
        for c in h["hist"]:
            src, ms = CLASS_PROG[c]
            cmd = {"cmd": "eval", "src": src}
            if ms:
                cmd["max_stack"] = ms
            seq.append(cmd)
        seq.append({"cmd": "eval", "src": PROBE[0]})
        for i, c in enumerate(seq):
            c["id"] = i
        return seq, run_cmds(seq, parallel=1, chunk=len(seq))

    from concurrent.futures import ThreadPoolExecutor
    common.build_harness()
    with ThreadPoolExecutor(max_workers=12) as ex:
        hres = list(ex.map(run_history, histories))
    for h, (seq, res) in zip(histories, hres):
        chk.count(("history", tuple(h["hist"])))
        lines.append({"ev": "Thread"})
        lmeta.append(None)
        for cmd, r in zip(seq, res):
            record(cmd, r, f"c04:history:{'/'.join(h['hist'])}:{cmd['src'][:40]}")
        p = res[-1]
        if not (p["k"] == "val" and common.json_equal(json.loads(p["out"]), PROBE[1])):
            chk.disagree(f"c04:history:{'/'.join(h['hist'])}:probe", {"history": h["hist"], "probe": PROBE[0]}, PROBE[1], p,
                         "after this history of outcomes the same thread does not evaluate the probe program normally")

    # ---- impl -> spec
    rej = common.validate_lines(chk, "Trace_Total", "Trace_Total.cfg", lines, "total", parallel=6)
    for li in rej:
        construct, cmd, r = lmeta[li]
        what = ("crash: " + (r.get("msg") or r.get("how") or "")[:80]) if r["k"] == "crash" else \
            "thread-local interpreter state not restored after the evaluation (frame counter / assertion markers / entered state)"
        chk.disagree(construct, {"src": cmd.get("src"), "max_stack": cmd.get("max_stack")}, "value or error, thread idle-clean", r, what)
    chk.sample({"std_call": scmds[len(scmds) // 2]["src"], "boundary_pool": POOL[:8]})
    chk.sample({"history": histories[len(histories) // 2]["hist"], "probe": PROBE[0]})
    chk.assumptions += ["unoptimised build with overflow checks: a panic there is a panic (or silent wrap-around) for users",
                        "arguments that only make a legal result too large for memory are excluded (resource exhaustion is not claimed)",
                        f"frames per recursion level are assumed to lie between 1 and {K_MAX}"]


def finish(chk):
    return chk.finish(rule="source texts (TLC token sequences of length <= 3 over two alphabets, seeded random characters, "
                           "single-character mutations of valid programs); every std function x every boundary tuple of its arity; "
                           "recursion depth swept across 3 frame limits for 4 templates; all histories of 3 outcome classes + probe; "
                           "distinct = program (+ limit / history)", exhaustive=False)


def replay(case):
    c = case["case"]
    cmd = {"cmd": "eval", "id": 0, "src": c.get("src") or c.get("probe")}
    if c.get("max_stack"):
        cmd["max_stack"] = c["max_stack"]
    r = run_cmds([cmd])[0]
    print("source:", cmd["src"])
    print("observed:", json.dumps(r)[:800])
    print("expected:", case["expected"])
    return 0
