"""C05 - JSON manifestation is well-formed and faithful.

spec:   JsonText.tla (Writer / Reader), MC_JsonText.tla (families, RoundTrip theorem, REPLAY)
bind:   spec -> impl: TLC enumerates values; each is rendered as Jsonnet (plain literal and
        lazily-built/inherited form) and manifested through every JSON-producing path;
        impl -> spec: the produced texts are a trace validated by Trace_JsonText.tla, whose Reader
        is the independent RFC 8259 parser of the property."""
import json
import math
import os
import random
import struct

import common
from common import cps, from_cps, run_cmds, run_tlc_many, stable_id
from render import jstr, lit

FAMS_QUICK = ["scalars", "strings", "flat", "hidden", "func"]
FAMS_THOROUGH = FAMS_QUICK + ["nested", "strings3"]


def arr1(v):
    return {"t": "arr", "a": [v]}


def paths_for(E):
    """(path name, jsonnet source, manifest format, wrapped?) for every JSON-producing path."""
    return [
        ("api.min", E, "min", False),
        ("api.default", E, "default", False),
        ("api.cli3", E, "cli3", False),
        ("api.cli1", E, "cli1", False),
        ("std.manifestJson", f"std.manifestJson({E})", "string", False),
        ("std.manifestJsonMinified", f"std.manifestJsonMinified({E})", "string", False),
        ("std.manifestJsonEx.2", f"std.manifestJsonEx({E}, '  ')", "string", False),
        ("std.manifestJsonEx.tab", f"std.manifestJsonEx({E}, '\\t')", "string", False),
        ("std.manifestJsonEx.empty", f"std.manifestJsonEx({E}, '')", "string", False),
        ("std.manifestJsonEx.crlf", f"std.manifestJsonEx({E}, ' ', '\\r\\n', ':')", "string", False),
        ("std.manifestJsonEx.kv", f"std.manifestJsonEx({E}, '  ', ' ', ' :\\t')", "string", False),
        ("std.toString", f"std.toString([{E}])", "string", True),
        ("concat", f"'' + [{E}]", "string", True),
        ("api.tostring", f"[{E}]", "tostring", True),
    ]


def boundary_doubles(rng, n_random):
    xs = [0.0, -0.0, 1.0, -1.0, 0.5, 0.1, 1.5, 1e-7, 1e21, 1e22, 1.7976931348623157e308,
          -1.7976931348623157e308, 5e-324, 2.2250738585072014e-308, 2.225073858507201e-308,
          9007199254740991.0, 9007199254740992.0, 9007199254740994.0, -9007199254740992.0,
          4294967296.0, 2147483648.0, 123456789012345680.0, 1e15, 1e16, 1e17, 0.30000000000000004,
          3.141592653589793, 1 / 3, 100.0, 1e100, 1.0000000000000002, 0.9999999999999999]
    # integer-valued doubles around the ranges of the machine integer types a reader may go through (i32, i64, u64)
    for k in list(range(30, 34)) + list(range(50, 70)) + [100, 127, 128]:
        p2 = float(2 ** k)
        xs += [p2, -p2, math.nextafter(p2, 0.0), math.nextafter(p2, math.inf), -math.nextafter(p2, math.inf)]
    for k in range(15, 26):
        xs += [float(10 ** k), -float(10 ** k), float(3 * 10 ** k)]
    for e in range(-320, 309, 7):
        xs.append(float(f"1e{e}"))
        xs.append(float(f"-7.3e{e}"))
    for _ in range(n_random):
        b = rng.getrandbits(64)
        x = struct.unpack("<d", struct.pack("<Q", b))[0]
        if math.isfinite(x):
            xs.append(x)
    return xs


def num_src(x):
    r = repr(x)
    if r.startswith("-"):
        return f"(-{r[1:]})"
    return r


def run(chk):
    thorough = chk.tier == "thorough"
    fams = FAMS_THOROUGH if thorough else FAMS_QUICK
    rng = random.Random(chk.seed)

    # 1. the specification on its own: RoundTrip / ReaderStrict on every family
    mc = run_tlc_many([dict(module="MC_JsonText", cfg=f"MC_JsonText_{f}.cfg", workers=4) for f in fams],
                      parallel=4)
    for f, r in zip(fams, mc):
        chk.add_tlc(r, f"MC_JsonText[{f}]: Reader(Writer(v,f)) = Visible(v) for 10 formats; damaged texts rejected")
    # 2. replay generation
    gen = run_tlc_many([dict(module="MC_JsonText", cfg=f"Gen_JsonText_{f}.cfg", workers=4) for f in fams],
                       parallel=4)
    cases = []
    for f, r in zip(fams, gen):
        chk.add_tlc(r, f"Gen_JsonText[{f}]")
        cases.extend(r.replay)
    if not thorough and len(cases) > 2600:
        keep = [c for c in cases if c["fam"] in ("scalars", "func", "strings")]
        rest = [c for c in cases if c["fam"] not in ("scalars", "func", "strings")]
        rng.shuffle(rest)
        cases = keep + rest[:2600 - len(keep)]

    # 3. spec -> impl: every value through every path
    cmds, meta = [], []
    for ci, c in enumerate(cases):
        for style in (0, 1):
            E = lit(c["v"], style)
            for (pname, src, fmt, wrapped) in paths_for(E):
                if style == 1 and pname not in ("api.min", "std.manifestJsonEx.2", "std.toString", "api.cli3"):
                    continue
                cmds.append({"cmd": "eval", "id": len(cmds), "src": src, "manifest": fmt})
                meta.append((ci, style, pname, wrapped, src))
    res = run_cmds(cmds)
    lines, lmeta = [], []
    mj_text = {}
    for r, (ci, style, pname, wrapped, src) in zip(res, meta):
        c = cases[ci]
        v = arr1(c["v"]) if wrapped else c["v"]
        chk.count(("manifest", stable_id(c["v"]), pname))
        if r["k"] == "crash":
            chk.disagree(f"c05:{pname}:crash:{src[:80]}", {"src": src}, "value or error", r, "crash during manifestation")
            continue
        line = {"ev": "Manifest", "v": v, "k": r["k"]}
        if r["k"] == "val":
            line["text"] = cps(r["out"])
            if pname == "std.manifestJson" and style == 0:
                mj_text[ci] = r["out"]
        lines.append(line)
        lmeta.append(("manifest", ci, pname, src, r))

    # 3b. std.parseJson as a left inverse, on the model's texts (incl. the all-escapes spelling) and
    #     on the implementation's own output
    pcmds, pmeta = [], []
    for ci, c in enumerate(cases):
        if c["func"]:
            continue
        E0 = lit(c["vis"], 0)
        texts = [("model.min", from_cps(c["exp"]["min"])), ("model.std4", from_cps(c["exp"]["std4"])),
                 ("model.alt", from_cps(c["exp"]["alt"]))]
        if ci in mj_text:
            texts.append(("impl.manifestJson", mj_text[ci]))
        for tname, text in texts:
            src = f"std.parseJson({jstr(text)}) == {E0}"
            pcmds.append({"cmd": "eval", "id": len(pcmds), "src": src})
            pmeta.append((ci, tname, text, src))
    pres = run_cmds(pcmds)
    for r, (ci, tname, text, src) in zip(pres, pmeta):
        c = cases[ci]
        chk.count(("parse", stable_id(c["v"]), tname))
        if r["k"] == "crash":
            chk.disagree(f"c05:parseJson:crash:{src[:80]}", {"src": src}, "value", r, "crash in std.parseJson")
            continue
        lines.append({"ev": "ParseJson", "v": c["vis"], "text": cps(text), "k": r["k"],
                      "eq": r.get("out") == "true"})
        lmeta.append(("parse", ci, tname, src, r))

    # 3c. doubles: the text must be an RFC 8259 number (decided by the model's number grammar);
    #     that it denotes the same double is an oracle-in-trace (python float())
    dbl = boundary_doubles(rng, 2000 if thorough else 150)
    dcmds = []
    for x in dbl:
        dcmds.append({"cmd": "eval", "id": len(dcmds), "src": num_src(x), "manifest": "min"})
        dcmds.append({"cmd": "eval", "id": len(dcmds),
                      "src": f"local x = {num_src(x)}; std.parseJson(std.manifestJsonEx([x], ' '))[0] == x"})
    dres = run_cmds(dcmds)
    for i, x in enumerate(dbl):
        r, p = dres[2 * i], dres[2 * i + 1]
        chk.count(("double", repr(x)))
        if r["k"] != "val":
            chk.disagree(f"c05:double:{x!r}", {"x": repr(x)}, "number text", r, "finite number not manifested")
            continue
        try:
            rb = float(r["out"]) == x
        except ValueError:
            rb = False
        lines.append({"ev": "Number", "text": cps(r["out"]), "rb": rb})
        lmeta.append(("double", None, repr(x), num_src(x), r))
        if not (p["k"] == "val" and p["out"] == "true"):
            chk.disagree(f"c05:double.parseJson:{x!r}", {"x": repr(x)}, "true", p,
                         "std.parseJson(std.manifestJsonEx([x]))[0] != x")

    # 3d. every Unicode scalar value (thorough); quick: all of U+0000..U+02FF and the boundaries of the encoding forms
    if True:
        ucmds, umeta = [], []
        if thorough:
            chunks = [[c for c in range(cp, min(cp + 192, 0x110000)) if not (0xD800 <= c <= 0xDFFF)] for cp in range(0, 0x110000, 192)]
        else:
            chunks = [list(range(cp, cp + 64)) for cp in range(0, 0x300, 64)]
            chunks.append([0x7FF, 0x800, 0x2028, 0x2029, 0xD7FF, 0xE000, 0xFEFF, 0xFFFD, 0xFFFE, 0xFFFF, 0x10000, 0x1F600, 0x10FFFF])
        for chunk in chunks:
            if not chunk:
                continue
            s = from_cps(chunk)
            for pname, src, fmt in (("api.min", jstr(s), "min"),
                                    ("std.manifestJsonEx.2", f"std.manifestJsonEx({jstr(s)}, '  ')", "string")):
                ucmds.append({"cmd": "eval", "id": len(ucmds), "src": src, "manifest": fmt})
                umeta.append((chunk, pname, src))
        ures = run_cmds(ucmds)
        for r, (chunk, pname, src) in zip(ures, umeta):
            chk.count(("unicode", chunk[0], pname))
            if r["k"] != "val":
                chk.disagree(f"c05:unicode:{pname}:{chunk[0]:#x}", {"first": chunk[0]}, "text", r, "string not manifested")
                continue
            lines.append({"ev": "Manifest", "v": {"t": "str", "s": chunk}, "k": "val", "text": cps(r["out"])})
            lmeta.append(("unicode", None, pname, f"U+{chunk[0]:04X}..", r))

    # 3e. long strings (inside an array and an object, so that every path sees them as nested values) through every path;
    #     the independent reader here is python's json (the model's Reader is exercised on the short cases above)
    import json as _json
    lcmds, lmeta2 = [], []
    for n in (255, 256, 257, 300, 1000, 5000):
        for unit in ("a", "\u00e9", "x\\\"y"):
            E = f"{{k: [std.join('', std.repeat([{jstr(unit)}], {n}))]}}"
            for pname, src, fmt, wrapped in paths_for(E):
                lcmds.append({"cmd": "eval", "id": len(lcmds), "src": src, "manifest": fmt})
                lmeta2.append((n, unit, pname, wrapped, src))
    for r, (n, unit, pname, wrapped, src) in zip(run_cmds(lcmds, timeout_per_case=30), lmeta2):
        chk.count(("long", n, unit, pname))
        want = {"k": [unit * n]}
        ok = False
        if r["k"] == "val":
            try:
                got = _json.loads(r["out"])
                ok = got == ([want] if wrapped else want)
            except ValueError:
                ok = False
        if not ok:
            chk.disagree(f"c05:long:{pname}:{n}x{unit!r}", {"src": src[:200]}, f"JSON text of a {n * len(unit)}-character string", {"k": r["k"], "out": (r.get("out") or r.get("msg") or "")[:200]},
                         "a long string is not manifested as JSON text that reads back as the same string")

    # 4. impl -> spec: trace validation
    rejected = common.validate_lines(chk, "Trace_JsonText", "Trace_JsonText.cfg", lines, "c05")
    for li in rejected:
        kind, ci, pname, src, r = lmeta[li]
        chk.disagree(f"c05:{kind}:{pname}:{src[:120]}", {"src": src, "line": lines[li]},
                     "a step allowed by JsonText (Reader(text) = Visible(v) / error iff function / parseJson equal)",
                     r, f"trace line rejected by Trace_JsonText ({kind} via {pname})")

    for c in cases[:3]:
        chk.sample({"value": c["v"], "jsonnet": lit(c["v"], 1), "model_text_cli3": from_cps(c["exp"]["cli3"])})
    chk.sample({"double": repr(dbl[5]), "paths": [p[0] for p in paths_for("E")]})
    chk.assumptions += [
        "numbers inside enumerated values are integers of at most 9 digits; doubles are covered by the Number events "
        "(syntax decided by the model, read-back equality by python float() as oracle-in-trace)",
        "string escaping is judged by reading the text back (any RFC 8259 spelling is accepted), not byte-for-byte",
    ]


def finish(chk):
    return chk.finish(rule="values enumerated by TLC per family (strings over 19 JSON-critical code points, scalars, "
                           "flat/nested containers, objects with hidden fields, functions) x 14 JSON-producing paths x 2 "
                           "construction styles; distinct = (value, path); plus parseJson texts and boundary doubles",
                      exhaustive=True)


def replay(case):
    c = case["case"]
    src = c.get("src")
    print("source:", src)
    for fmt in ("min", "string"):
        r = run_cmds([{"cmd": "eval", "id": 0, "src": src, "manifest": fmt}])[0]
        print(fmt, "->", json.dumps(r, ensure_ascii=False)[:600])
    print("expected:", case["expected"])
    return 0
