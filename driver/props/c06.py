"""C06 - the bundled parsers accept the same language and build the same tree.

spec:  Grammar.tla - a parser for the Jsonnet expression grammar (precedence table, left associativity,
       postfix chains, slices, calls with named-after-positional rule, locals, functions, objects, methods,
       comprehensions) over token sequences; MC_Grammar.tla enumerates ALL token sequences up to a length over
       family alphabets and every pair of operators.
bind:  each token sequence is printed as source text and parsed by the default (ir) parser, the legacy (peg)
       parser and the rowan parser of the formatter: both evaluator parsers must accept exactly when the
       grammar accepts and build the grammar's tree (spans erased); rowan must report no error exactly then."""
import json

import common
from common import run_cmds, run_tlc_many

FAMS = ["ops", "chains", "expr", "postfix", "keyword", "object", "array", "misc"]
LEX = ["dq", "sq", "vdq", "vsq", "num", "block", "comment"]


def lex_sources(c):
    """(variant, source text, model result) for a lexical case"""
    body = "".join(common.from_cps(p) for p in c["ps"])
    fam = c["fam"].split(".")[1]
    if fam == "dq":
        return [("", '"' + body + '"', c["res"])]
    if fam == "sq":
        return [("", "'" + body + "'", c["res"])]
    if fam == "vdq":
        return [("", '@"' + body + '"', c["res"])]
    if fam == "vsq":
        return [("", "@'" + body + "'", c["res"])]
    if fam in ("num", "comment"):
        return [("", body, c["res"])]
    lines = "\n".join(common.from_cps(p) for p in c["ps"])
    r = c["res"]
    return [("plain", "|||\n" + lines + "\n|||", r["plain"]), ("chomp", "|||-\n" + lines + "\n|||", r["chomp"]),
            ("indented_end", "|||\n" + lines + "\n |||", r["indented_end"])]


def num_ast(src, toks):
    """expected tree of a text of numbers / identifiers / dots / + - (left associative, unary binds tighter)"""
    pos = [0]

    def text(t):
        return src[t["a"] - 1:t["b"] - 1]

    def operand():
        t = toks[pos[0]]
        if t["k"] == "op":
            pos[0] += 1
            return {"t": "un", "op": text(t), "e": operand()}
        pos[0] += 1
        base = ({"t": "num", "v": float(text(t).replace("_", ""))} if t["k"] == "num" else {"t": "var", "v": text(t)})
        parts = []
        while pos[0] + 1 < len(toks) and toks[pos[0]]["k"] == "dot" and toks[pos[0] + 1]["k"] == "id":
            parts.append({"v": {"t": "str", "v": common.cps(text(toks[pos[0] + 1]))}})
            pos[0] += 2
        return {"t": "index", "e": base, "parts": parts} if parts else base

    e = operand()
    while pos[0] < len(toks):
        op = text(toks[pos[0]])
        pos[0] += 1
        e = {"t": "bin", "op": op, "l": e, "r": operand()}
    return e


def flat_index(x):
    """`a.b.c` as one index node with two parts or as two nested index nodes with one part each is the same chain of
    lookups: the default parser builds the first, the legacy parser the second. Compared in the flattened form."""
    if isinstance(x, list):
        return [flat_index(v) for v in x]
    if not isinstance(x, dict):
        return x
    x = {k: flat_index(v) for k, v in x.items()}
    if x.get("t") == "index" and isinstance(x.get("e"), dict) and x["e"].get("t") == "index":
        return {"t": "index", "e": x["e"]["e"], "parts": x["e"]["parts"] + x["parts"]}
    return x


def norm_nums(x):
    """harness prints numbers as text: compare them as doubles"""
    if isinstance(x, list):
        return [norm_nums(y) for y in x]
    if isinstance(x, dict):
        if x.get("t") == "num":
            return {"t": "num", "v": float(x["v"])}
        return {k: norm_nums(v) for k, v in x.items()}
    return x


RESERVED = {"e", "E"}


def run_lexical(chk, thorough):
    jobs = [dict(module="Lexical", cfg=f"MC_Lexical_{f}{'_7' if thorough and f == 'comment' else ''}.cfg", workers=4, timeout=3000,
                 java_opts=("-Xss512m",)) for f in LEX]
    rs = run_tlc_many(jobs, parallel=3)
    items = []
    for j, r in zip(jobs, rs):
        chk.add_tlc(r, f"{j['cfg']}: literal decoding of every piece sequence")
        for c in r.replay:
            for variant, src, res in lex_sources(c):
                items.append((c["fam"], variant, src, res))
    cmds = [{"cmd": "parse", "id": i, "src": it[2]} for i, it in enumerate(items)]
    res = run_cmds(cmds, timeout_per_case=5)
    for (fam, variant, src, model), cmd, r in zip(items, cmds, res):
        chk.count(("lex", fam, variant, src))
        desc = {"src": src}
        key = f"c06:{fam}{'.' + variant if variant else ''}"
        if fam == "lexical.block":
            # cause tag of a recorded finding: tab- and space-indented lines (or terminator) in one block
            lead = {l[0] for l in src.split("\n")[1:] if l[:1] in (" ", "\t")}
            if len(lead) == 2:
                key += ":mixed-ws"
        if r["k"] != "parsed" or any(r[p].get("k") == "crash" for p in ("ir", "peg", "rowan")):
            chk.disagree(f"{key}:crash:{src!r}", desc, "accept or reject", r, "a parser panicked on a literal")
            continue
        ir, peg, rowan = norm_nums(r["ir"]), norm_nums(r["peg"]), r["rowan"]
        if model["k"] == "unspec":
            if not (ir == peg or (ir["k"] == "reject" and peg["k"] == "reject")):
                chk.disagree(f"{key}:parsers-differ:{src!r}", desc, "ir and peg agree", {"ir": ir, "peg": peg},
                             "the two evaluator parsers decode a literal differently (not decided by the grammar)")
            continue
        if model["k"] == "str":
            exp = {"k": "ok", "ast": {"t": "str", "v": model["s"]}}
        elif model["k"] == "tokens":
            try:
                exp = {"k": "ok", "ast": num_ast(src, model["toks"])}
            except OverflowError:
                continue
            if "Infinity" in json.dumps(exp):
                continue        # literal beyond the double range: not decided by the grammar
        else:
            exp = {"k": "reject"}
        for name, p in (("ir", ir), ("peg", peg)):
            ok = (p["k"] == "ok" and p["ast"] == exp["ast"]) if exp["k"] == "ok" else p["k"] == "reject"
            if not ok:
                what = (f"{name} parser rejects a valid literal" if exp["k"] == "ok" and p["k"] != "ok" else
                        f"{name} parser decodes the literal differently" if exp["k"] == "ok" else
                        f"{name} parser accepts an invalid literal")
                chk.disagree(f"{key}:{name}:{exp['k']}:{src!r}", desc, exp, p, what)
        if (rowan["errors"] == 0) != (exp["k"] == "ok"):
            chk.disagree(f"{key}:rowan:{exp['k']}:{src!r}", desc, "no errors" if exp["k"] == "ok" else "errors", rowan,
                         "rowan parser accepts/rejects a literal differently from the lexical grammar")
        if not rowan["lossless"]:
            chk.disagree(f"{key}:rowan.lossless:{src!r}", desc, "syntax tree text = input", rowan, "rowan tree does not reproduce the input")
    chk.extra["literal_texts"] = len(items)
    chk.sample({"literal": items[len(items) // 2][2], "model": items[len(items) // 2][3]})



def static_issue(e):
    """well-formedness conditions that are not syntax (outside C06): duplicate parameters / locals /
    fields, stand-alone super"""
    found = []

    def walk(x, parent=None):
        if isinstance(x, list):
            for y in x:
                walk(y, parent)
            return
        if not isinstance(x, dict):
            return
        t = x.get("t")
        if t == "lit" and x.get("v") == "super":
            if not (parent and ((parent.get("t") == "index" and parent.get("e") is x)
                                or (parent.get("t") == "bin" and parent.get("op") == "in" and parent.get("r") is x))):
                found.append("standalone super")
        if t == "import" and x["e"].get("t") != "str":
            found.append("computed import")
        if t == "fn" or t == "bindfn":
            names = [p["n"] for p in x["p"]]
            if len(set(names)) != len(names):
                found.append("duplicate parameter")
        if "params" in x and isinstance(x["params"], list):
            names = [p["n"] for p in x["params"]]
            if len(set(names)) != len(names):
                found.append("duplicate parameter")
        if t == "local" or t in ("members", "objcomp"):
            names = [b["n"] for b in x.get("binds", x.get("locals", []))]
            if len(set(names)) != len(names):
                found.append("duplicate local")
        if t == "members":
            names = [f["name"]["v"] for f in x["fields"] if f["name"]["t"] == "fixed"]
            if len(set(names)) != len(names):
                found.append("duplicate field")
        for k, v in x.items():
            walk(v, x)

    walk(e)
    return found


def feature_tags(e):
    """syntactic features of the grammar's tree that identify known parser limitations"""
    tags = set()

    def walk(x):
        if isinstance(x, list):
            for y in x:
                walk(y)
            return
        if not isinstance(x, dict):
            return
        t = x.get("t")
        if t == "un" and x.get("op") == "+":
            tags.add("unary-plus")
        if t == "bin":
            if x["op"] in ("*", "/", "%") and x["l"].get("t") == "un":
                tags.add("unary-before-mul")
            if x["r"].get("t") in ("local", "assert") or x["l"].get("t") in ("local", "assert"):
                tags.add("stmt-as-operand")
        if t == "un" and x["e"].get("t") in ("local", "assert"):
            tags.add("stmt-as-operand")
        for v in x.values():
            walk(v)

    walk(e)
    return ",".join(sorted(tags)) or "-"


def run(chk):
    thorough = chk.tier == "thorough"
    n = 5 if thorough else 4
    jobs = [dict(module="MC_Grammar", cfg=f"MC_Grammar_{f}_{n}.cfg", workers=5, timeout=3000, xmx="8g",
                 java_opts=("-Xss512m",)) for f in FAMS]
    rs = run_tlc_many(jobs, parallel=3)
    cases = []
    for j, r in zip(jobs, rs):
        chk.add_tlc(r, f"{j['cfg']}: Parse(ts) for every token sequence")
        cases.extend(r.replay)
    chk.extra["token_sequences"] = len(cases)
    chk.extra["accepted_by_grammar"] = sum(1 for c in cases if c["res"]["ok"])
    cmds = [{"cmd": "parse", "id": i, "src": " ".join(c["ts"])} for i, c in enumerate(cases)]
    res = run_cmds(cmds, timeout_per_case=5)
    for c, cmd, r in zip(cases, cmds, res):
        src = cmd["src"]
        fam = c["fam"]
        chk.count(src)
        if r["k"] != "parsed":
            chk.disagree(f"c06:{fam}:crash:{src}", {"src": src}, "parse result", r, "crash in a parser")
            continue
        ir, peg, rowan = flat_index(r["ir"]), flat_index(r["peg"]), r["rowan"]
        r["same"] = ir == peg
        for name, p in (("ir", ir), ("peg", peg), ("rowan", rowan)):
            if p.get("k") == "crash":
                chk.disagree(f"c06:{fam}:crash.{name}:{src}", {"src": src}, "accept or reject", p, f"{name} parser panicked")
        if ir.get("k") == "crash" or peg.get("k") == "crash" or rowan.get("k") == "crash":
            continue
        model_ok = c["res"]["ok"]
        issues = static_issue(c["res"]["e"]) if model_ok else []
        desc = {"src": src, "tokens": c["ts"]}
        if issues:
            # not decided by the grammar: the two evaluator parsers must still agree with each other
            if not r["same"]:
                chk.disagree(f"c06:{fam}:parsers-differ:{src}", desc, "ir and peg agree", {"ir": ir, "peg": peg},
                             "the two evaluator parsers disagree (" + ",".join(issues) + ")")
            continue
        exp = {"k": "ok", "ast": c["res"]["e"]} if model_ok else {"k": "reject"}
        for name, p in (("ir", ir), ("peg", peg)):
            if model_ok:
                ok = p["k"] == "ok" and p["ast"] == c["res"]["e"]
                what = (f"{name} parser rejects a text the grammar accepts" if p["k"] != "ok"
                        else f"{name} parser builds a different tree")
            else:
                ok = p["k"] == "reject"
                what = f"{name} parser accepts a text the grammar rejects"
            if not ok:
                tag = feature_tags(c["res"]["e"]) if model_ok else "-"
                chk.disagree(f"c06:{fam}:{name}:{tag}:{src}", desc, exp, p, what)
        rowan_ok = rowan["errors"] == 0
        if rowan_ok != model_ok:
            tag = feature_tags(c["res"]["e"]) if model_ok else "-"
            chk.disagree(f"c06:{fam}:rowan:{tag}:{src}", desc, "no errors" if model_ok else "errors",
                         rowan, "rowan parser accepts/rejects differently from the grammar")
    chk.traces += len(cases)
    run_lexical(chk, thorough)
    acc = [c for c in cases if c["res"]["ok"] and len(c["ts"]) >= 4]
    chk.sample({"tokens": acc[len(acc) // 2]["ts"], "tree": acc[len(acc) // 2]["res"]["e"]})
    chk.sample({"tokens": cases[len(cases) // 3]["ts"], "grammar_accepts": cases[len(cases) // 3]["res"]["ok"]})
    chk.assumptions += ["static checks that are not syntax (duplicate parameters/locals/fields, stand-alone super) are outside "
                        "the grammar: for such texts only agreement of the two evaluator parsers is required",
                        "literal decoding (escapes, text blocks, number forms) is covered by the lexical family"]


def finish(chk):
    return chk.finish(rule="all token sequences of length <= N over 6 family alphabets + every operator pair in both nestings "
                           "(distinct = token sequence); each parsed by 3 parsers", exhaustive=True)


def replay(case):
    src = case["case"]["src"]
    r = run_cmds([{"cmd": "parse", "id": 0, "src": src}])[0]
    print("source:", src)
    print(json.dumps(r, indent=1)[:3000])
    print("expected:", json.dumps(case["expected"])[:1500])
    return 0
