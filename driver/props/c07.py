"""C07 - imports resolve, load and evaluate as specified.

spec:  Imports.tla - worlds (file layouts over root / library dirs, file kinds, import graphs, -J / JSONNET_PATH
       search path, injected resolver faults) and the per-state cache protocol as a state machine
       (StartRun, Resolve, Fetch, Finish, Abort, EndRun), two runs on one state; TLC checks LoadOnce, EvalOnce,
       NoStaleFlag, EvaluatingIsStack, CacheSound, RetrySame.
bind:  spec -> impl: every behaviour is replayed on a real directory tree through a recording/fault-injecting
       wrapper around FileImportResolver built by jrsonnet_cli::MiscOpts (-J, JSONNET_PATH); resolver call
       log, evaluation order (std.trace labels), outcome and value are compared run by run;
       impl -> spec: import-cache hook events (also of random larger graphs) are validated by Trace_Imports."""
import json
import random

import common
from common import run_cmds, run_tlc_many, stable_id

FAMS = ["layout", "graph", "kinds", "fault", "recover"]
BAD = [0xFF, 0xFE, 0x41]


def spell(name, sp):
    return {"plain": name, "dotslash": "./" + name, "dotdot": "d/../" + name, "link": "l" + name, "abs": name}[sp]


def json_file(name, d, deps):
    strict = [(i, s) for i, s in enumerate(deps) if not s["lazy"]]
    lazy = [(i, s) for i, s in enumerate(deps) if s["lazy"]]
    tag = f"{name}@{d}"
    body = "{v: '%s', deps: [%s]" % (tag, ", ".join(f"d{i}" for i, _ in strict))
    if lazy:
        body += ", lz:: [%s]" % ", ".join(f"{s['kind']} '{spell(s['target'], s['sp'])}'" for _, s in lazy)
    body += "}"
    if not strict:
        return f"std.trace('EVAL {tag}', {body})"
    loc = "local " + ", ".join(f"d{i} = {s['kind']} '{spell(s['target'], s['sp'])}'" for i, s in strict) + "; "
    cond = " && ".join(f"std.type(d{i}) != 'x'" for i, _ in strict)
    return f"{loc}std.trace('EVAL {tag}', if {cond} then {body} else null)"


def file_content(w, name, d):
    k = "json" if name == "m" else w["fkind"][name]
    if k == "json":
        return json_file(name, d, w["sites"] if name == "m" else w["deps"][name])
    if k == "text":
        return f"just some text {{ of {name}@{d}\n"
    if k == "bad":
        return {"bytes": BAD}
    return {"dir": True}


def files_of(w):
    fs = {"root/m": file_content(w, "m", "root"), "root/d/keep": "x"}
    for n, dirs in w["placed"].items():
        for d in dirs:
            fs[f"{d}/{n}"] = file_content(w, n, d)
            if d == "root":
                fs[f"root/l{n}"] = {"symlink": n}
    for d in ("L1", "L2"):
        fs.setdefault(f"{d}/.keep", "x")
    return fs


def pstr(p):
    return "<default>" if p[0] == "default" else f"$ROOT/{p[0]}/{p[1]}"


def expected_value(w, v):
    if v["t"] == "json":
        return {"deps": [expected_value(w, x) for x in v["deps"]], "v": f"{v['p'][1]}@{v['p'][0]}"}
    c = file_content(w, v["p"][1], v["p"][0])
    if v["t"] == "str":
        return c
    data = bytes(c["bytes"]) if isinstance(c, dict) else c.encode("utf-8")
    return list(data)


def model_log(run):
    res, evs = [], []
    for e in run["log"]:
        if e["op"] == "resolve":
            r = e["res"]
            res.append(("resolve", pstr(e["from"]), None if e["sp"] == "abs" else spell(e["name"], e["sp"]),
                        r if isinstance(r, str) else pstr(r)))
        elif e["op"] == "load":
            res.append(("load", pstr(e["p"]), e["res"]))
        else:
            evs.append(f"EVAL {e['p'][1]}@{e['p'][0]}")
    return res, evs


def impl_log(step):
    res = []
    for e in step.get("resolver_log", []):
        if e["op"] == "resolve":
            res.append(("resolve", e["from"], None if e["from"] == "<default>" else e["path"], e["res"]))
        else:
            res.append(("load", e["path"], "fault" if e["res"] == "fault" else "ok"))
    return res, [t["v"] for t in step.get("traces", [])]


def imp_events(step):
    out = []
    for e in step.get("events", []):
        if e["site"] == "imp":
            ev = {"ev": e["what"]}
            ev["p"] = e.get("key", "")
            out.append(ev)
    return out


def command_for(w, nruns=2, want_events=True):
    steps = [{"via": "file", "main": "root/m", "record_imports": True, "want_events": want_events}
             for _ in range(nruns)]
    cmd = {"cmd": "eval", "files": files_of(w), "jlist": w["jlist"], "jsonnet_path": w["env"],
           "record_imports": True, "steps": steps}
    if w["fault"]["op"] != "none":
        f = w["fault"]
        # resolve faults are keyed by the import text, load faults by the resolved path
        cmd["faults"] = [{"op": f["op"], "path": f["name"] if f["op"] == "resolve" else "/" + f["name"], "times": 1}]
    return cmd


def random_world(rng, n):
    names = [f"f{i}" for i in range(n)]
    w = {"placed": {x: ["root"] for x in names}, "fkind": {x: "json" for x in names}, "deps": {},
         "jlist": [], "env": [], "fault": {"op": "none", "name": ""}}
    for x in names:
        k = rng.choice([0, 1, 1, 2, 3])
        w["deps"][x] = [{"kind": rng.choice(["import", "import", "importstr", "importbin"]),
                         "target": rng.choice(names + ["zz"] if rng.random() < 0.05 else names),
                         "sp": rng.choice(["plain", "dotslash"]), "lazy": rng.random() < 0.3} for _ in range(k)]
    w["sites"] = [{"kind": "import", "target": rng.choice(names), "sp": "plain", "lazy": False}
                  for _ in range(rng.choice([1, 2, 3]))]
    return w


def run(chk):
    thorough = chk.tier == "thorough"
    rs = run_tlc_many([dict(module="Imports", cfg=f"MC_Imports_{f}.cfg", workers=4) for f in FAMS], parallel=5)
    cases = []
    for f, r in zip(FAMS, rs):
        chk.add_tlc(r, f"Imports[{f}]: LoadOnce EvalOnce NoStaleFlag EvaluatingIsStack CacheSound RetrySame")
        cases.extend(r.replay)
    cmds = []
    for i, c in enumerate(cases):
        cmd = command_for(c["world"])
        cmd["id"] = i
        cmds.append(cmd)
    res = run_cmds(cmds)
    ev_lines, ev_meta = [], []
    for c, cmd, r in zip(cases, cmds, res):
        w = c["world"]
        key = stable_id(w)
        chk.count((c["fam"], key))
        desc = {"world": w, "files": cmd["files"]}
        if r["k"] != "seq":
            chk.disagree(f"c07:{c['fam']}:crash:{key}", desc, "two runs", r, "crash while importing")
            continue
        tot_loads, tot_evals = {}, {}
        bad = False
        for ri, (mrun, step) in enumerate(zip(c["runs"], r["results"])):
            mres, mevs = model_log(mrun)
            ires, ievs = impl_log(step)
            mo = mrun["outcome"]
            if mo["k"] == "val":
                exp = expected_value(w, mo["v"])
                ok_out = step["k"] == "val" and common.json_equal(json.loads(step["out"]), exp)
            else:
                exp = {"error": mo["class"]}
                ok_out = step["k"] == "err"
            what = None
            if not ok_out:
                what = "outcome/value of the import differs from Imports.tla"
            elif mres != ires:
                what = "resolver call sequence (resolve order, loads, cache hits) differs from Imports.tla"
                exp = mres
            elif mevs != ievs:
                what = "files evaluated (order/multiplicity) differ from Imports.tla"
                exp = mevs
            if what and not bad:
                bad = True
                sites = [(s["kind"], s["target"], s["sp"]) for s in w["sites"]]
                chk.disagree(f"c07:{c['fam']}:run{ri + 1}:{sites}:{w['fault']['op']}:{key}", desc, exp,
                             {"outcome": step.get("out", step.get("msg")), "log": ires, "evals": ievs}, what)
            for e in ires:
                if e[0] == "load":
                    tot_loads[e[1]] = tot_loads.get(e[1], 0) + 1
            if step.get("depth", 0) != 0:
                chk.disagree(f"c07:{c['fam']}:depth:{key}", desc, 0, step["depth"], "frame counter not restored")
        start = len(ev_lines)
        for step in r["results"]:
            ev_lines.extend(imp_events(step))
            ev_lines.append({"ev": "run", "p": ""})
        ev_lines.append({"ev": "reset", "p": ""})
        ev_meta.append((len(ev_lines), desc))
        exp_loads = {pstr(x["p"]): x["n"] for x in c["loads"]}
        if not bad and exp_loads != tot_loads:
            chk.disagree(f"c07:{c['fam']}:loads:{key}", desc, exp_loads, tot_loads,
                         "number of reads per file over both runs differs from Imports.tla")
    chk.traces += len(cases)
    chk.sample({"world": cases[len(cases) // 2]["world"], "files": cmds[len(cases) // 2]["files"],
                "model_runs": cases[len(cases) // 2]["runs"]})

    # random larger graphs: impl -> spec only
    rng = random.Random(chk.seed)
    rcmds = []
    for i in range(600 if thorough else 150):
        w = random_world(rng, rng.choice([4, 6, 8]))
        cmd = command_for(w)
        cmd["id"] = f"r{i}"
        rcmds.append((w, cmd))
    for (w, cmd), r in zip(rcmds, run_cmds([c for _, c in rcmds])):
        chk.count(("random", stable_id(w)))
        if r["k"] != "seq":
            chk.disagree(f"c07:random:crash:{stable_id(w)}", {"world": w}, "two runs", r, "crash while importing")
            continue
        o = [s["k"] + ":" + s.get("out", "") for s in r["results"]]
        if o[0] != o[1]:
            chk.disagree(f"c07:random:retry:{stable_id(w)}", {"world": w, "files": cmd["files"]}, o[0], o[1],
                         "second run on the same state differs from the first (no faults injected)")
        for step in r["results"]:
            ev_lines.extend(imp_events(step))
            ev_lines.append({"ev": "run", "p": ""})
        ev_lines.append({"ev": "reset", "p": ""})
        ev_meta.append((len(ev_lines), {"world": w, "files": cmd["files"]}))
    rej = common.validate_lines(chk, "Trace_Imports", "Trace_Imports.cfg", ev_lines, "imports", chunk=10 ** 9, parallel=1)
    for li in rej:
        desc = next(d for (end, d) in ev_meta if li < end)
        chk.disagree(f"c07:events:{ev_lines[li]['ev']}:{stable_id(desc['world'])}", desc,
                     "import-cache events form a behaviour of the cache protocol", ev_lines[li],
                     "import-cache hook event not allowed by Trace_Imports (second load/evaluation, stale evaluating flag, ...)")
    chk.extra["hook_events_validated"] = len(ev_lines)
    chk.assumptions += ["error kinds are compared as value-vs-error only", "symlinks and d/../ spellings live in the root directory"]


def finish(chk):
    return chk.finish(rule="every world of the five families of Imports.tla x two runs on one state (distinct = world); plus "
                           "seeded random graphs of 4-8 files validated against Trace_Imports", exhaustive=True)


def replay(case):
    w = case["case"]["world"]
    cmd = command_for(w)
    cmd["id"] = 0
    r = run_cmds([cmd])[0]
    print(json.dumps(cmd["files"], indent=1))
    print(json.dumps(r, indent=1)[:5000])
    print("expected:", json.dumps(case["expected"])[:2000])
    return 0
