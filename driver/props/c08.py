"""C08 - arrays behave identically whatever their internal representation.

spec:  Arrays.tla - view terms, Den (documented denotation), Get/LenImpl (index translation of each
       representation with its own bounds check); TLC checks Get refines Den on every enumerated term.
bind:  every term is rendered as Jsonnet (both `a[s:e:k]` and std.slice spellings) and probed: each index
       from -2 to len+2 through Jsonnet indexing, every index through the Rust ArrValue API, and
       whole-array observations (length, ==, <, iteration, foldl, toString, manifestation)."""
import json

import common
from common import run_cmds, run_tlc_many, tla_to_py
from render import arr_term, lit, term_ops


def expect_elem(d, i):
    return ("val", d[i]) if 0 <= i < len(d) else ("err", None)


def run(chk):
    thorough = chk.tier == "thorough"
    cfgs = ["MC_Arrays_d1full.cfg", "MC_Arrays_d2.cfg", "MC_Arrays_long.cfg"]
    if thorough:
        cfgs = ["MC_Arrays_d2full.cfg", "MC_Arrays_d3.cfg", "MC_Arrays_long.cfg"]
    rs = run_tlc_many([dict(module="Arrays", cfg=c, workers=6, timeout=3000, xmx="10g") for c in cfgs], parallel=3)
    terms, longs, seen = [], [], set()
    for c, r in zip(cfgs, rs):
        chk.add_tlc(r, f"Arrays[{c}]: Get/LenImpl refine Den on every term")
        for x in r.replay:
            key = json.dumps(x["term"], sort_keys=True)
            if key in seen:
                continue
            seen.add(key)
            (longs if x["fam"] == "arrays.long" else terms).append(x)
    if thorough and len(terms) > 150000:
        import random
        random.Random(chk.seed).shuffle(terms)
        terms = terms[:150000]
    chk.extra["terms"] = len(terms) + len(longs)

    cmds, meta = [], []
    for ti, x in enumerate(terms):
        d = [tla_to_py(v) for v in x["den"]]
        n = len(d)
        for style in (0, 1):
            if style == 1 and '"slice"' not in json.dumps(x["term"]):
                continue
            T = arr_term(x["term"], style)
            L = "[" + ", ".join(lit(v) for v in x["den"]) + "]"
            whole = (f"local a = {T}; local l = {L}; "
                     "{len: std.length(a), eq: a == l, eq2: l == a, lt: a < l + [0], ge: !(a < l), "
                     "iter: [x for x in a], fold: std.foldl(function(acc, x) acc + [x], a, []), "
                     "str: std.toString(a) == std.toString(l), man: a, cat: [0] + a + [0]}")
            cmds.append({"cmd": "eval", "id": len(cmds), "src": whole})
            meta.append((ti, style, "whole", None))
            for i in range(-2, n + 3):
                cmds.append({"cmd": "eval", "id": len(cmds), "src": f"local a = {T}; a[{i}]"})
                meta.append((ti, style, "index", i))
            if style == 0:
                cmds.append({"cmd": "demand", "id": len(cmds), "src": T, "demands": [{"i": i} for i in range(0, n + 3)]})
                meta.append((ti, style, "api", None))
    for li, x in enumerate(longs):
        T = arr_term(x["term"], 0)
        cmds.append({"cmd": "eval", "id": len(cmds), "src": f"std.length({T})"})
        meta.append((li, 0, "long.len", None))
        for p in x["probes"]:
            cmds.append({"cmd": "eval", "id": len(cmds), "src": f"local a = {T}; a[{p['i']}]"})
            meta.append((li, 0, "long.index", p))
    res = run_cmds(cmds, timeout_per_case=30)

    for cmd, r, (ti, style, kind, arg) in zip(cmds, res, meta):
        if kind.startswith("long"):
            x = longs[ti]
            ops = term_ops(x["term"])
            chk.count(("long", ops, kind, json.dumps(arg)))
            if kind == "long.len":
                ok = r["k"] == "val" and json.loads(r["out"]) == x["len"]
                exp = x["len"]
            else:
                v = arg["v"]
                if v["t"] == "none":
                    ok, exp = r["k"] == "err", "error (out of bounds)"
                else:
                    exp = tla_to_py(v)
                    ok = r["k"] == "val" and common.json_equal(json.loads(r["out"]), exp)
            if not ok:
                chk.disagree(f"c08:long:{ops}:{kind}:{arg['i'] if arg else ''}", {"src": cmd["src"]}, exp, r,
                             "array around the concatenation threshold differs from its denotation")
            continue
        x = terms[ti]
        d = [tla_to_py(v) for v in x["den"]]
        ops = term_ops(x["term"])
        chk.count((ops, style, kind, arg))
        if r["k"] == "crash":
            chk.disagree(f"c08:crash:{ops}:{kind}:{arg}", {"src": cmd.get("src")}, "value or error", r,
                         "crash while probing an array view")
            continue
        if kind == "whole":
            exp = {"len": len(d), "eq": True, "eq2": True, "lt": True, "ge": True, "iter": d, "fold": d,
                   "str": True, "man": d, "cat": [0] + d + [0]}
            ok = r["k"] == "val" and common.json_equal(json.loads(r["out"]), exp)
            if not ok:
                chk.disagree(f"c08:whole:{ops}", {"src": cmd["src"]}, exp, r,
                             "length/equality/order/iteration/fold/toString/manifest of a view differ from its denotation")
        elif kind == "index":
            k, v = expect_elem(d, arg)
            ok = (r["k"] == "val" and common.json_equal(json.loads(r["out"]), v)) if k == "val" else r["k"] == "err"
            if not ok:
                rel = "neg" if arg < 0 else ("in" if arg < len(d) else f"len+{arg - len(d)}")
                chk.disagree(f"c08:index:{ops}:{rel}", {"src": cmd["src"], "index": arg, "len": len(d)},
                             v if k == "val" else "error (index out of bounds)", r,
                             "indexing a view differs from indexing the plain array")
        else:
            if r["k"] != "demanded":
                chk.disagree(f"c08:api:{ops}:setup", {"src": cmd["src"]}, "array", r, "view term did not evaluate")
                continue
            for i, ob in enumerate(r["obs"]):
                k, v = expect_elem(d, i)
                ok = (ob["k"] == "val" and common.json_equal(json.loads(ob["out"]), v)) if k == "val" \
                    else ob["k"] == "absent"
                if not ok:
                    rel = "in" if i < len(d) else f"len+{i - len(d)}"
                    chk.disagree(f"c08:api:{ops}:{rel}", {"src": cmd["src"], "index": i, "len": len(d)},
                                 v if k == "val" else "None (out of bounds)", ob,
                                 "ArrValue::get on a view differs from the plain array")
                    break
    chk.traces += len(terms) + len(longs)
    mid = terms[len(terms) // 3]
    chk.sample({"term": mid["term"], "jsonnet": arr_term(mid["term"], 0), "denotes": [tla_to_py(v) for v in mid["den"]]})
    chk.sample({"long_term": arr_term(longs[0]["term"], 0), "len": longs[0]["len"]})
    chk.assumptions += ["negative slice bounds count from the end (std.slice as documented since Jsonnet 0.20)",
                        "elements are numbers, one-character strings and small arrays"]


def finish(chk):
    return chk.finish(rule="all compositions of view operations over 12 base arrays within the depth bound (full slice "
                           "cross product at the top level), each probed at every index -2..len+2 by Jsonnet indexing, "
                           "by ArrValue::get, and by whole-array observations; distinct = (operator spine, spelling, probe)",
                      exhaustive=True)


def replay(case):
    c = case["case"]
    r = run_cmds([{"cmd": "eval", "id": 0, "src": c["src"]}])[0]
    print("source:", c["src"])
    print("observed:", json.dumps(r)[:1000])
    print("expected:", case["expected"])
    return 0
