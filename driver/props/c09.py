"""C09 - numbers are IEEE-754 doubles with checked range and coherent comparison.

spec:  Numbers.tla - (1) the order on ranks with trichotomy and the derived operators / sort / set / uniq /
       setMember / min / max; (3) 64-bit two's-complement bit vectors with & | ^ << >>, the safe-integer test
       and the overflow test for left shifts; Trace_Numbers.tla - (2) error iff the IEEE result is not finite.
bind:  ranks are mapped to a boundary-dense, exactly sorted list of doubles and every pair / structured triple
       is evaluated; bit-vector cases are rendered as integer literals; every arithmetic operator and math
       function over the boundary set is recorded as a trace with the IEEE/libm oracle and validated."""
import json
import math
import struct

import common
from common import run_cmds, run_tlc_many

MAXF = 1.7976931348623157e308
B = [-MAXF, -1e300, -9007199254740994.0, -9007199254740992.0, -9007199254740991.0, -3.0, -2.0, -1.5, -1.0, -0.5,
     -2.2250738585072014e-308, -5e-324, 0.0, 5e-324, 2.2250738585072014e-308, 0.5, 0.9999999999999999, 1.0,
     1.0000000000000002, 1.5, 2.0, 3.0, 9007199254740991.0, 9007199254740992.0, 9007199254740994.0, 1e300, MAXF]
assert B == sorted(B) and len(set(B)) == len(B)


def num(x):
    r = repr(x)
    return f"({r})" if r.startswith("-") else r


def rank_src(i, alt=False):
    x = B[i]
    if x == 0.0 and alt:
        return "(-0.0)"
    return num(x)


def bits_to_int(x):
    v = sum(1 << b for b in x["bits"])
    return -v if x["neg"] else v


def ulps(a, b):
    if a == b:
        return 0
    ia = struct.unpack("<q", struct.pack("<d", a))[0]
    ib = struct.unpack("<q", struct.pack("<d", b))[0]
    if (ia < 0) != (ib < 0):
        return 99
    return abs(ia - ib)


def oracle(op, a, b=None):
    try:
        r = {
            "+": lambda: a + b, "-": lambda: a - b, "*": lambda: a * b,
            "/": lambda: a / b, "%": lambda: math.fmod(a, b), "neg": lambda: -a,
            "pow": lambda: math.pow(a, b), "atan2": lambda: math.atan2(a, b), "hypot": lambda: math.hypot(a, b),
            "max": lambda: max(a, b), "min": lambda: min(a, b),
            "sqrt": lambda: math.sqrt(a), "exp": lambda: math.exp(a), "log": lambda: math.log(a), "sin": lambda: math.sin(a),
            "cos": lambda: math.cos(a), "tan": lambda: math.tan(a), "asin": lambda: math.asin(a), "acos": lambda: math.acos(a),
            "atan": lambda: math.atan(a), "floor": lambda: float(math.floor(a)), "ceil": lambda: float(math.ceil(a)),
            "abs": lambda: abs(a), "log2": lambda: math.log2(a), "log10": lambda: math.log10(a),
            "round": lambda: float(math.floor(a + 0.5)), "sign": lambda: float((a > 0) - (a < 0)),
            "exponent": lambda: float(math.frexp(a)[1]), "mantissa": lambda: math.frexp(a)[0],
            "deg2rad": lambda: math.radians(a), "rad2deg": lambda: math.degrees(a), "mod": lambda: math.fmod(a, b),
        }[op]()
    except (OverflowError, ValueError, ZeroDivisionError):
        return None
    if isinstance(r, float) and not math.isfinite(r):
        return None
    return float(r)


def run(chk):
    thorough = chk.tier == "thorough"
    rs = run_tlc_many([dict(module="Numbers", cfg=f"MC_Numbers_{f}.cfg", workers=4, java_opts=("-Xss512m",))
                       for f in ("pairs", "triples", "bits")], parallel=3)
    cases = []
    for r in rs:
        chk.add_tlc(r, "Numbers: OrderLaws / BitLaws and replay cases")
        cases.extend(r.replay)
    cmds, meta = [], []
    for ci, c in enumerate(cases):
        if c["fam"] == "numbers.pairs":
            for alt in (False, True):
                if alt and 12 not in (c["i"], c["j"]):
                    continue
                a, b = rank_src(c["i"], alt), rank_src(c["j"], False)
                src = (f"local a = {a}, b = {b}; {{lt: a < b, le: a <= b, eq: a == b, ne: a != b, ge: a >= b, gt: a > b, "
                       f"min: std.min(a, b), max: std.max(a, b), eq2: std.equals(a, b), peq: std.primitiveEquals(a, b), "
                       f"cmp: std.__compare(a, b)}}")
                cmds.append({"cmd": "eval", "id": len(cmds), "src": src})
                meta.append((ci, alt))
        elif c["fam"] == "numbers.triples":
            xs = "[" + ", ".join(rank_src(i) for i in c["t"]) + "]"
            src = (f"local t = {xs}; {{sort: std.sort(t), set: std.set(t), uniq: std.uniq(t), "
                   f"member: std.setMember(t[0], std.set([t[1], t[2]])), minArray: std.minArray(t), maxArray: std.maxArray(t)}}")
            cmds.append({"cmd": "eval", "id": len(cmds), "src": src})
            meta.append((ci, False))
        else:
            x, y = c["x"], c["y"]
            xs = num(float(bits_to_int(x)) + (0.5 if x["frac"] else 0.0)) if x["frac"] else f"({bits_to_int(x)})"
            ys = num(float(bits_to_int(y)) + (0.5 if y["frac"] else 0.0)) if y["frac"] else f"({bits_to_int(y)})"
            cmds.append({"cmd": "eval", "id": len(cmds), "src": f"{xs} {c['op']} {ys}"})
            meta.append((ci, False))
    res = run_cmds(cmds)
    for cmd, r, (ci, alt) in zip(cmds, res, meta):
        c = cases[ci]
        chk.count(cmd["src"])
        if r["k"] == "crash":
            chk.disagree(f"c09:{c['fam']}:crash:{cmd['src'][:100]}", {"src": cmd["src"]}, "value or error", r, "crash")
            continue
        if c["fam"] == "numbers.pairs":
            o = c["obs"]
            exp = {"lt": o["lt"], "le": o["le"], "eq": o["eq"], "ne": o["ne"], "ge": o["ge"], "gt": o["gt"],
                   "min": B[o["min"]], "max": B[o["max"]], "eq2": o["eq"], "peq": o["eq"],
                   "cmp": -1 if o["lt"] else (0 if o["eq"] else 1)}
            got = json.loads(r["out"]) if r["k"] == "val" else None
            if got is None or not common.json_equal(got, exp):
                wrong = [k for k in exp if got is None or not common.json_equal(got.get(k), exp[k])]
                chk.disagree(f"c09:pairs:{','.join(wrong)}:{B[c['i']]!r}:{B[c['j']]!r}", {"src": cmd["src"]}, exp, r,
                             "comparison operators / min / max / equals disagree with the total order of doubles")
        elif c["fam"] == "numbers.triples":
            o = c["obs"]
            exp = {"sort": [B[i] for i in o["sort"]], "set": [B[i] for i in o["set"]], "uniq": [B[i] for i in o["uniq"]],
                   "member": o["member"], "minArray": B[o["minArray"]], "maxArray": B[o["maxArray"]]}
            got = json.loads(r["out"]) if r["k"] == "val" else None
            if got is None or not common.json_equal(got, exp):
                wrong = [k for k in exp if got is None or not common.json_equal(got.get(k), exp[k])]
                chk.disagree(f"c09:triples:{','.join(wrong)}:{[B[i] for i in c['t']]}", {"src": cmd["src"]}, exp, r,
                             "sort / set / uniq / setMember / minArray / maxArray disagree with the order of doubles")
        else:
            m = c["res"]
            if m["k"] == "unspec":
                continue
            if m["k"] == "err":
                if r["k"] != "err":
                    chk.disagree(f"c09:bits:{c['op']}:should-fail:{cmd['src']}", {"src": cmd["src"]}, "error", r,
                                 "bitwise operation on an operand outside the safe-integer range / negative count / overflowing shift succeeds")
            else:
                exp = float(bits_to_int({"neg": m["neg"], "bits": m["bits"]}))
                if not (r["k"] == "val" and float(json.loads(r["out"])) == exp):
                    chk.disagree(f"c09:bits:{c['op']}:value:{cmd['src']}", {"src": cmd["src"]}, exp, r,
                                 "bitwise result differs from the two's-complement model")
    chk.traces += len(cases)

    # ---- finiteness: trace with the IEEE / libm oracle
    ops2 = [("+", "{a} + {b}"), ("-", "{a} - {b}"), ("*", "{a} * {b}"), ("/", "{a} / {b}"), ("%", "{a} % {b}"),
            ("pow", "std.pow({a}, {b})"), ("atan2", "std.atan2({a}, {b})"), ("hypot", "std.hypot({a}, {b})"),
            ("max", "std.max({a}, {b})"), ("min", "std.min({a}, {b})"), ("mod", "std.mod({a}, {b})")]
    ops1 = [("neg", "-{a}"), ("sqrt", "std.sqrt({a})"), ("exp", "std.exp({a})"), ("log", "std.log({a})"), ("sin", "std.sin({a})"),
            ("cos", "std.cos({a})"), ("tan", "std.tan({a})"), ("asin", "std.asin({a})"), ("acos", "std.acos({a})"),
            ("atan", "std.atan({a})"), ("floor", "std.floor({a})"), ("ceil", "std.ceil({a})"), ("abs", "std.abs({a})"),
            ("log2", "std.log2({a})"), ("log10", "std.log10({a})"), ("round", "std.round({a})"), ("sign", "std.sign({a})"),
            ("exponent", "std.exponent({a})"), ("mantissa", "std.mantissa({a})"), ("deg2rad", "std.deg2rad({a})"), ("rad2deg", "std.rad2deg({a})")]
    extra = [0.1, -0.1, 10.0, 709.0, 710.0, -745.0, 1e-10, 123456.789, math.pi, -math.pi / 2]
    vals = B + extra
    tcmds, tmeta = [], []
    for a in vals:
        for op, t in ops1:
            if op == "round" and (abs(a) >= 2.0 ** 52 or a - math.floor(a) == 0.5):
                continue        # ties (half away from zero or half up) are not decided by the documentation; huge values are integers
            tcmds.append({"cmd": "eval", "id": len(tcmds), "src": t.format(a=num(a))})
            tmeta.append((op, a, None))
        for b in (vals if thorough else B):
            for op, t in ops2:
                tcmds.append({"cmd": "eval", "id": len(tcmds), "src": t.format(a=num(a), b=num(b))})
                tmeta.append((op, a, b))
    lines, lmeta = [], []
    for cmd, r, (op, a, b) in zip(tcmds, run_cmds(tcmds), tmeta):
        chk.count(cmd["src"])
        if r["k"] == "crash":
            chk.disagree(f"c09:numop:crash:{cmd['src']}", {"src": cmd["src"]}, "value or error", r, "crash")
            continue
        o = oracle(op, a, b)
        ev = {"ev": "NumOp", "op": op, "cls": "finite" if o is not None else "nonfinite", "k": r["k"], "ulps": 0, "text_ok": True}
        if r["k"] == "val":
            txt = r["out"]
            ev["text_ok"] = not any(w in txt.lower() for w in ("nan", "inf"))
            try:
                ev["ulps"] = min(ulps(float(txt), o), 1000) if o is not None else 0
            except ValueError:
                ev["text_ok"] = False
        lines.append(ev)
        lmeta.append((cmd, o, r))
    for li in common.validate_lines(chk, "Trace_Numbers", "Trace_Numbers.cfg", lines, "numop", parallel=4):
        cmd, o, r = lmeta[li]
        chk.disagree(f"c09:numop:{lines[li]['op']}:{cmd['src']}", {"src": cmd["src"]},
                     "error (non-finite result)" if o is None else repr(o), r,
                     "operation result: non-finite result not reported as an error / value differs from IEEE-754 / libm")
    chk.sample({"boundary_doubles": [repr(x) for x in B[:6]] + ["..."], "pair_program": cmds[30]["src"]})
    chk.sample({"bitwise_case": next(c for c in cases if c["fam"] == "numbers.bits" and c["res"]["k"] == "val")})
    chk.assumptions += ["IEEE-754 hardware arithmetic and the platform libm (through python's float / math) are the oracle for "
                        "values; transcendental functions may differ from it by one ulp; shift counts >= 64 are undecided"]


def finish(chk):
    return chk.finish(rule="all pairs and structured triples of 27 boundary doubles under every comparison / ordering function; "
                           "bit-vector operand pairs under & | ^ << >>; every arithmetic operator and math function over the "
                           "boundary set as an oracle trace; distinct = rendered program", exhaustive=True)


def replay(case):
    src = case["case"]["src"]
    r = run_cmds([{"cmd": "eval", "id": 0, "src": src}])[0]
    print("source:", src)
    print("observed:", json.dumps(r)[:600])
    print("expected:", case["expected"])
    return 0
