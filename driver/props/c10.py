"""C10 - stdlib array, set and higher-order functions match their reference definitions.

spec:  StdArrays.tla - one operator per function transcribed from the standard-library documentation /
       std.jsonnet definitions (stable sort as THE stable ordered permutation, uniq/set, set algebra under key
       functions, member/find/count/remove/removeAt, flatten*, foldl/foldr/map/filter/filterMap/flatMap,
       join/lines/deepJoin, any/all/sum/avg/minArray/maxArray, range/repeat/makeArray); MC_StdArrays.tla
       enumerates the calls and checks model-level laws (sort is a stable permutation, set laws).
bind:  every call is rendered as Jsonnet (with and without the optional key function) and must return the
       model's value or fail exactly when the model fails."""
import json

import common
from common import run_cmds, run_tlc_many, tla_to_py
from render import lit

FAMS = ["sort", "sets", "search", "higher", "agg"]
FN = {
    "id": "function(x) x", "neg": "function(x) -x", "mod2": "function(x) x % 2", "const": "function(x) 0",
    "len": "function(x) std.length(x)", "partial": "function(x) if x == 1 then error 'p' else x",
    "wrap": "function(x) [x]", "dup": "function(x) [x, x]", "isnum": "function(x) std.isNumber(x)",
    "gt1": "function(x) x > 1", "true": "function(x) true", "one": "function(x) 1",
    "add": "function(p, q) p + q", "pair": "function(p, q) [p, q]", "first": "function(p, q) p", "sub": "function(p, q) p - q",
}


def arr(a):
    return "[" + ", ".join(lit(v) for v in a) + "]"


def sources(c):
    f, A, x, g, B, n = c["f"], arr(c["a"]), lit(c["x"]), FN.get(c["g"], ""), arr(c["b"]), c["n"]
    if f in ("sort", "uniq", "set"):
        out = [f"std.{f}({A}, {g})", f"std.{f}({A}, keyF={g})"]
        if c["g"] == "id":
            out.append(f"std.{f}({A})")
        return out
    if f in ("setUnion", "setInter", "setDiff"):
        return [f"std.{f}({A}, {B}, {g})"] + ([f"std.{f}({A}, {B})"] if c["g"] == "id" else [])
    if f == "setMember":
        return [f"std.setMember({x}, {A}, {g})"] + ([f"std.setMember({x}, {A})"] if c["g"] == "id" else [])
    if f in ("member", "contains", "count", "remove"):
        return [f"std.{f}({A}, {x})"]
    if f == "find":
        return [f"std.find({x}, {A})"]
    if f == "removeAt":
        return [f"std.removeAt({A}, {n})"]
    if f in ("flattenArrays", "flattenDeepArray", "lines", "deepJoin", "any", "all", "sum", "avg"):
        return [f"std.{f}({A})"]
    if f in ("foldl", "foldr"):
        return [f"std.{f}({g}, {A}, {x})"]
    if f in ("map", "filter", "flatMap"):
        return [f"std.{f}({g}, {A})"]
    if f == "mapWithIndex":
        return [f"std.mapWithIndex(function(i, x) [i, x], {A})"]
    if f == "filterMap":
        return [f"std.filterMap({g}, function(x) [x], {A})"]
    if f == "join":
        return [f"std.join({x}, {A})"]
    if f in ("minArray", "maxArray"):
        return [f"std.{f}({A}, {g}, {x})", f"std.{f}({A}, keyF={g}, onEmpty={x})"]
    if f == "minArray0":
        return [f"std.minArray({A})", f"std.maxArray({A})"] if False else [f"std.minArray({A})"]
    if f == "range":
        return [f"std.range({x}, {n})"]
    if f == "repeat":
        return [f"std.repeat({x}, {n})"]
    if f == "makeArray":
        return [f"std.makeArray({n}, {g})"]
    raise ValueError(f)


def run(chk):
    thorough = chk.tier == "thorough"
    if thorough:
        for f in FAMS:
            s = open(f"{common.SPEC}/MC_StdArrays_{f}.cfg").read().replace("MaxLen = 3", "MaxLen = 4")
            open(f"{common.SPEC}/_thorough_MC_StdArrays_{f}.cfg", "w").write(s)
    rs = run_tlc_many([dict(module="MC_StdArrays", cfg=(f"_thorough_MC_StdArrays_{f}.cfg" if thorough else f"MC_StdArrays_{f}.cfg"),
                            workers=6, timeout=3000, xmx="10g", java_opts=("-Xss512m",)) for f in FAMS], parallel=3)
    cases = []
    for f, r in zip(FAMS, rs):
        chk.add_tlc(r, f"StdArrays[{f}]: Call(c) for every enumerated call; SortIsStablePermutation, SetLaws")
        cases.extend(r.replay)
    cmds, meta = [], []
    for ci, c in enumerate(cases):
        for src in sources(c["c"]):
            cmds.append({"cmd": "eval", "id": len(cmds), "src": src})
            meta.append(ci)
    res = run_cmds(cmds)
    undecided = 0
    for cmd, r, ci in zip(cmds, res, meta):
        c = cases[ci]
        m = c["res"]
        chk.count(cmd["src"])
        construct = f"c10:{c['c']['f']}:{cmd['src']}"
        if r["k"] == "crash":
            chk.disagree(construct, {"src": cmd["src"]}, m, r, "crash in a standard-library function")
            continue
        if m["k"] == "unspec":
            undecided += 1
            continue
        if m["k"] == "val":
            exp = tla_to_py(m["v"])
            ok = r["k"] == "val" and common.json_equal(json.loads(r["out"]), exp)
            what = "result differs from the reference definition" if r["k"] == "val" else "fails although the reference definition gives a value"
        else:
            exp = "error"
            ok = r["k"] == "err"
            what = "returns a value although the reference definition fails"
        if not ok:
            chk.disagree(construct, {"src": cmd["src"]}, exp, r, what)
    chk.traces += len(cases)

    # ---- std.slice: its definition is the slice denotation of Arrays.tla (every start / end / step over the base arrays)
    from render import arr_term
    ar = common.run_tlc("Arrays", "MC_Arrays_d1full.cfg", workers=6, timeout=3000, xmx="10g")
    chk.add_tlc(ar, "Arrays[d1full]: Den of every slice term (the definition of std.slice)")
    scmds, smeta = [], []
    for x in ar.replay:
        t = x["term"]
        if t.get("op") != "slice" or x.get("fam") == "arrays.long":
            continue
        scmds.append({"cmd": "eval", "id": len(scmds), "src": arr_term(t, 1)})        # style 1 = the std.slice spelling
        smeta.append([tla_to_py(v) for v in x["den"]])
        if t["t"].get("op") == "chars":
            # a string is sliced like the array of its characters (code points), both spellings
            f = lambda v: "null" if v == 1000 else str(v)  # noqa: E731
            g = lambda v: "" if v == 1000 else str(v)  # noqa: E731
            S = common.jstr(common.from_cps(t["t"]["s"]))
            exp = "".join(tla_to_py(v) for v in x["den"])
            scmds.append({"cmd": "eval", "id": len(scmds), "src": f"std.slice({S}, {f(t['s'])}, {f(t['e'])}, {f(t['k'])})"})
            smeta.append(exp)
            scmds.append({"cmd": "eval", "id": len(scmds), "src": f"{S}[{g(t['s'])}:{g(t['e'])}" + (f":{g(t['k'])}]" if t["k"] != 1000 else "]")})
            smeta.append(exp)
    for cmd, r, exp in zip(scmds, run_cmds(scmds), smeta):
        chk.count(cmd["src"])
        if not (r["k"] == "val" and common.json_equal(json.loads(r["out"]), exp)):
            chk.disagree(f"c10:slice:{cmd['src']}", {"src": cmd["src"]}, exp, r, "std.slice differs from the slice denotation")
    chk.extra["slice_calls"] = len(scmds)
    chk.extra["undecided_calls"] = undecided
    for i in (10, len(cases) // 2):
        chk.sample({"call": sources(cases[i]["c"])[0], "model": cases[i]["res"]})
    chk.assumptions += ["argument shapes the documentation does not define (sorting non-orderable keys, set functions on "
                        "non-sets, any/all on non-booleans, inexact avg) are undecided: only crash-freedom is required",
                        "elements are evaluated values (laziness of these functions is covered by C03)"]


def finish(chk):
    return chk.finish(rule="calls over arrays of length 0..MaxLen over a 9-value alphabet with duplicates / mixed types / nested "
                           "arrays, index arguments -3..len+3, user functions from a pool of total, partial and type-changing "
                           "functions; distinct = rendered call", exhaustive=True)


def replay(case):
    src = case["case"]["src"]
    r = run_cmds([{"cmd": "eval", "id": 0, "src": src}])[0]
    print("source:", src)
    print("observed:", json.dumps(r)[:600])
    print("expected:", case["expected"])
    return 0
