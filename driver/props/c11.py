"""C11 - stdlib string, encoding, parsing and hashing functions match their definitions.

spec:  StdStrings.tla - string functions over code-point sequences (substr, split/splitLimit/splitLimitR,
       strReplace, findSubstr, starts/endsWith, strip*, trim, ascii*, stringChars, codepoint, char,
       equalsIgnoreCase, isEmpty, escapeString*), parsers (parseInt/Octal/Hex, parseJson = JsonText.Reader), codecs
       (UTF-8 encode/decode, base64 with RFC 4648 validation); MC_StdStrings.tla enumerates the calls and checks
       the codec inverse laws and split/join laws.
bind:  every call is evaluated through Jsonnet and compared; digests are trace-validated against python hashlib."""
import hashlib
import json

import common
from common import cps, from_cps, run_cmds, run_tlc_many, tla_to_py
from render import jstr

FAMS = ["unary", "binary", "codec"]


def S(x):
    return jstr(from_cps(x))


def source(c):
    f = c["f"]
    s, p, q, n, m = S(c["s"]), S(c["p"]), S(c["q"]), c["n"], c["m"]
    if f in ("length", "trim", "asciiUpper", "asciiLower", "stringChars", "codepoint", "isEmpty", "encodeUTF8", "base64",
             "escapeStringJson", "escapeStringPython", "escapeStringBash", "escapeStringDollars", "escapeStringXML",
             "parseInt", "parseOctal", "parseHex", "base64Decode", "base64DecodeBytes", "parseJson", "parseYaml"):
        return f"std.{f}({s})"
    if f in ("split", "startsWith", "endsWith", "stripChars", "lstripChars", "rstripChars", "equalsIgnoreCase"):
        return f"std.{f}({s}, {p})"
    if f == "findSubstr":
        return f"std.findSubstr({p}, {s})"
    if f in ("splitLimit", "splitLimitR"):
        return f"std.{f}({s}, {p}, {n})"
    if f == "strReplace":
        return f"std.strReplace({s}, {p}, {q})"
    if f == "substr":
        return f"std.substr({s}, {n}, {m})"
    if f == "char":
        return f"std.char({n})"
    if f == "decodeUTF8":
        return f"std.decodeUTF8({json.dumps(c['bs'])})"
    if f == "base64Bytes":
        return f"std.base64({json.dumps(c['bs'])})"
    raise ValueError(f)


def run(chk):
    thorough = chk.tier == "thorough"
    if thorough:
        for f in FAMS:
            s = open(f"{common.SPEC}/MC_StdStrings_{f}.cfg").read().replace("MaxLen = 3", "MaxLen = 4")
            open(f"{common.SPEC}/_thorough_MC_StdStrings_{f}.cfg", "w").write(s)
    rs = run_tlc_many([dict(module="MC_StdStrings", cfg=(f"_thorough_MC_StdStrings_{f}.cfg" if thorough else f"MC_StdStrings_{f}.cfg"),
                            workers=6, timeout=3000, xmx="10g", java_opts=("-Xss512m",)) for f in FAMS], parallel=3)
    cases = []
    for f, r in zip(FAMS, rs):
        chk.add_tlc(r, f"StdStrings[{f}]: Call(c) for every enumerated call; CodecLaws, SplitLaws")
        cases.extend(r.replay)
    cmds = [{"cmd": "eval", "id": i, "src": source(c["c"])} for i, c in enumerate(cases)]
    res = run_cmds(cmds)
    for c, cmd, r in zip(cases, cmds, res):
        m = c["res"]
        chk.count(cmd["src"])
        construct = f"c11:{c['c']['f']}:{cmd['src']}"
        if r["k"] == "crash":
            chk.disagree(construct, {"src": cmd["src"]}, m, r, "crash in a standard-library function")
            continue
        if m["k"] == "unspec":
            continue
        if m["k"] == "anyval":
            if r["k"] != "val":
                chk.disagree(construct, {"src": cmd["src"]}, "a value", r, "fails although the definition gives a value")
            continue
        if m["k"] == "val":
            exp = tla_to_py(m["v"])
            ok = r["k"] == "val" and common.json_equal(json.loads(r["out"]), exp)
            what = "result differs from the documented definition" if r["k"] == "val" else "fails although the definition gives a value"
        else:
            exp, ok, what = "error", r["k"] == "err", "returns a value although the definition fails"
        if not ok:
            chk.disagree(construct, {"src": cmd["src"]}, exp, r, what)
    chk.traces += len(cases)
    chk.sample({"call": cmds[len(cmds) // 2]["src"], "model": cases[len(cases) // 2]["res"]})

    # digests: oracle-in-trace
    strings = ["", "a", "abc", "é", "😀", "a" * 55, "a" * 56, "a" * 63, "a" * 64, "a" * 65, "\x00", "The quick brown fox", "\n",
               "ß" * 100, "a" * 1000]
    if thorough:
        strings += ["x" * n for n in range(110, 140)] + [chr(c) * 3 for c in (0x7F, 0x80, 0x7FF, 0x800, 0xFFFF, 0x10000)]
    algs = {"md5": hashlib.md5, "sha1": hashlib.sha1, "sha256": hashlib.sha256, "sha512": hashlib.sha512, "sha3": hashlib.sha3_512}
    hcmds, hmeta = [], []
    for s in strings:
        for alg in algs:
            hcmds.append({"cmd": "eval", "id": len(hcmds), "src": f"std.{alg}({jstr(s)})", "manifest": "string"})
            hmeta.append((alg, s))
    lines, lmeta = [], []
    for cmd, r, (alg, s) in zip(hcmds, run_cmds(hcmds), hmeta):
        chk.count(cmd["src"][:80])
        if r["k"] != "val":
            chk.disagree(f"c11:{alg}:{cmd['src'][:60]}", {"src": cmd["src"]}, "digest", r, "digest function failed")
            continue
        lines.append({"ev": "Hash", "alg": alg, "impl": cps(r["out"]), "oracle": cps(algs[alg](s.encode("utf-8")).hexdigest())})
        lmeta.append(cmd)
    for li in common.validate_lines(chk, "Trace_StdStrings", "Trace_StdStrings.cfg", lines, "hash", parallel=1):
        chk.disagree(f"c11:{lines[li]['alg']}:{lmeta[li]['src'][:60]}", {"src": lmeta[li]["src"]},
                     from_cps(lines[li]["oracle"]), from_cps(lines[li]["impl"]), "digest differs from the standard digest of the UTF-8 bytes")
    chk.assumptions += ["digests: python hashlib is the oracle (trace-validated)",
                        "decodeUTF8 of invalid bytes must yield a value (number of U+FFFD not decided); base64Decode of bytes "
                        ">= 0x80, non-canonical base64 padding bits, integers beyond 1e8 and parseJson of non-integers are undecided"]


def finish(chk):
    return chk.finish(rule="calls with strings of length 0..MaxLen(+1) over alphabets mixing ASCII, 2-byte and astral code points, "
                           "overlapping/repeating patterns, counts and offsets from -1 beyond the length, byte arrays with invalid "
                           "UTF-8, digit strings around validity boundaries; distinct = rendered call", exhaustive=True)


def replay(case):
    src = case["case"]["src"]
    r = run_cmds([{"cmd": "eval", "id": 0, "src": src}])[0]
    print("source:", src)
    print("observed:", json.dumps(r)[:600])
    print("expected:", case["expected"])
    return 0
