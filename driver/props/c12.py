"""C12 - std.format and the % operator implement printf-style formatting.

spec:  Format.tla - the format-string parser (key, flags, width/star, precision/star, length modifiers,
       conversion) and the rendering of d i u o x X c s %% with flags, width, precision, value consumption,
       `*` arguments, %(key) lookups and all error conditions; LayoutFloat for e E f F g G.
bind:  every enumerated (format, values) pair is evaluated with std.format and with the % operator and must
       give exactly the model's text or fail exactly when the model fails; floating conversions are recorded
       as a trace (flags, width, sign, CPython's magnitude text, implementation output) validated by
       Trace_Format.tla."""
import decimal
import itertools
import json
import math

import common
from common import cps, from_cps, run_cmds, run_tlc_many
from render import jstr

FAMS = ["int", "str", "star", "key", "misc"]


def val_src(v):
    if v["t"] == "int":
        return str(v["n"]) if v["n"] >= 0 else f"({v['n']})"
    if v["t"] == "str":
        return jstr(from_cps(v["s"]))
    return from_cps(v["s"])          # "other": its std.toString text is also its source (e.g. [1])


def vals_src(vals):
    if vals["obj"]:
        return "{" + ", ".join(f"{jstr(from_cps(f['k']))}: {val_src(f['v'])}" for f in vals["fields"]) + "}"
    return "[" + ", ".join(val_src(v) for v in vals["seq"]) + "]"


def is_tie(v, sig_or_places, kind):
    """exact rounding ties, and near ties: the implementation (like std.jsonnet) scales the value in double arithmetic before
    rounding, so a value within 1e-6 of a half of the last printed digit may go either way - not decided"""
    d = decimal.Decimal(abs(v))
    if d == 0:
        return False
    big = decimal.Context(prec=1200)
    if kind == "f":
        x = big.scaleb(d, sig_or_places)
    else:
        x = big.scaleb(d, max(sig_or_places, 1) - 1 - d.adjusted())
    frac = x - x.to_integral_value(rounding=decimal.ROUND_FLOOR, context=big)
    return abs(frac - decimal.Decimal("0.5")) < decimal.Decimal("0.000001")


def float_cases(thorough):
    flagsets = ["", "-", "0", "+", " ", "#", "-0", "+0", " 0", "#0", "+-", "# +0-"]
    widths = ["", "1", "8", "12"]
    precs = [None, 0, 1, 3, 6]
    convs = "eEfFgG"
    vals = [0.5, -0.5, 1.25, 3.75, 0.125, 1234.5, 1e-5, 1e10, 0.0, 100.0, -1e-7, 123456789.0, 1.0, -2.0, 0.1, 1e100,
            1e-100, 99999.5, 0.00012345]
    if not thorough:
        flagsets = flagsets[:8]
        vals = vals[:12]
    # around the fixed / scientific boundary of %g (exponent = precision)
    vals = vals + [1000000.0, 1234567.0, 999000.0, 100000.0, 1234.0, 1000.0, 999.0, 42.0, 10.0, 9.0, 12345678.0, -1000000.0]
    for fl, w, p, c, v in itertools.product(flagsets, widths, precs, convs, vals):
        pp = 6 if p is None else p
        kind = "f" if c in "fF" else "e"
        sig = pp if kind == "f" else (pp + 1 if c in "eE" else max(pp, 1))
        if is_tie(v, sig, kind):
            continue
        yield fl, w, p, c, v


def run(chk):
    thorough = chk.tier == "thorough"
    rs = run_tlc_many([dict(module="Format", cfg=f"MC_Format_{f}.cfg", workers=4, java_opts=("-Xss512m",)) for f in FAMS],
                      parallel=5)
    cases = []
    for f, r in zip(FAMS, rs):
        chk.add_tlc(r, f"Format[{f}]: Format(fmt, vals) for every enumerated pair")
        cases.extend(r.replay)
    cmds, meta = [], []
    for ci, c in enumerate(cases):
        F = jstr(from_cps(c["fmt"]))
        V = vals_src(c["vals"])
        variants = [("std.format", f"std.format({F}, {V})"), ("%", f"{F} % {V}")]
        if not c["vals"]["obj"] and len(c["vals"]["seq"]) == 1 and c["vals"]["seq"][0]["t"] != "other":
            variants.append(("% scalar", f"{F} % {val_src(c['vals']['seq'][0])}"))
        for name, src in variants:
            cmds.append({"cmd": "eval", "id": len(cmds), "src": src, "manifest": "string"})
            meta.append((ci, name))
    res = run_cmds(cmds)
    for cmd, r, (ci, name) in zip(cmds, res, meta):
        c = cases[ci]
        chk.count((c["fam"], from_cps(c["fmt"]), json.dumps(c["vals"]), name))
        m = c["res"]
        construct = f"c12:{c['fam']}:{name}:{from_cps(c['fmt'])!r}:{vals_src(c['vals'])}"
        if r["k"] == "crash":
            chk.disagree(construct, {"src": cmd["src"]}, m, r, "crash in std.format")
            continue
        if m["k"] == "unspec":
            continue
        if m["k"] == "text":
            ok = r["k"] == "val" and r["out"] == from_cps(m["s"])
            what = "formatted text differs from Format.tla" if r["k"] == "val" else "fails although the format is valid"
            exp = from_cps(m["s"])
        else:
            ok = r["k"] == "err"
            what = "produces text although the format / values are invalid"
            exp = "error"
        if not ok:
            chk.disagree(construct, {"src": cmd["src"]}, exp, r, what)
    chk.traces += len(cases)
    chk.sample({"format": from_cps(cases[100]["fmt"]), "values": vals_src(cases[100]["vals"]), "model": cases[100]["res"]})

    # floating conversions: oracle-in-trace
    fcases = list(float_cases(thorough))
    fcmds = []
    for i, (fl, w, p, c, v) in enumerate(fcases):
        code = "%" + fl + w + ("" if p is None else f".{p}") + c
        fcmds.append({"cmd": "eval", "id": i, "src": f"std.format({jstr('[' + code + ']')}, [{v!r}])".replace("[-", "[(-").replace("e-07]", "e-07)]") if False else
                      f"std.format({jstr('[' + code + ']')}, [{('(' + repr(v) + ')') if v < 0 or repr(v).startswith('-') else repr(v)}])",
                      "manifest": "string"})
    fres = run_cmds(fcmds)
    lines, lmeta = [], []
    for (fl, w, p, c, v), cmd, r in zip(fcases, fcmds, fres):
        chk.count(("float", fl, w, p, c, repr(v)))
        construct = f"c12:float:%{fl}{w}{'' if p is None else '.' + str(p)}{c}:{v!r}"
        if r["k"] != "val":
            chk.disagree(construct, {"src": cmd["src"]}, "text", r,
                         "crash in std.format" if r["k"] == "crash" else "valid floating conversion fails")
            continue
        if c in "gG":
            # %g: std.jsonnet counts decimals, not significant digits, for |x| < 1, and differs for `#` and precisions 0 / 1;
            # decided here: |x| >= 1 (or 0), no `#`, precision none / 3 / 6, no mantissa roll-over - there the fixed-vs-scientific
            # rule (scientific iff exponent >= precision) and the digits are CPython's
            pp = 6 if p is None else p
            rolled = ("%.*e" % (max(pp - 1, 0), abs(v))).startswith("10") or float("%.*e" % (max(pp - 1, 0), abs(v))) >= 10 ** (math.floor(math.log10(abs(v))) + 1) if v else False
            if not ((abs(v) >= 1 or v == 0) and "#" not in fl and p in (None, 3, 6) and not rolled):
                continue
        neg = math.copysign(1.0, v) < 0
        mag = ("%" + ("#" if "#" in fl else "") + ("" if p is None else f".{p}") + c) % abs(v)
        lines.append({"ev": "Float", "k": "val", "alt": "#" in fl, "zero": "0" in fl, "left": "-" in fl, "blank": " " in fl,
                      "plus": "+" in fl, "width": int(w) if w else -1, "neg": neg, "m": cps(mag), "out": cps(r["out"])})
        lmeta.append((construct, cmd, mag, r))
    rej = common.validate_lines(chk, "Trace_Format", "Trace_Format.cfg", lines, "format", parallel=4)
    for li in rej:
        construct, cmd, mag, r = lmeta[li]
        chk.disagree(construct, {"src": cmd["src"]}, {"magnitude_text_from_cpython": mag}, r,
                     "floating conversion output is not sign/zero-padding/alignment around the oracle's magnitude text")
    chk.sample({"float_case": fcmds[len(fcmds) // 2]["src"]})
    chk.assumptions += ["digits of e/E/f/F/g/G conversions come from CPython's printf (oracle-in-trace); rounding ties are excluded",
                        "forms on which Python 3 and the C-style std.jsonnet differ (#o, # with 0, %s with precision, flags "
                        "inside %%, negative star widths) are undecided: only crash-freedom is required"]


def finish(chk):
    return chk.finish(rule="flags x width x precision x conversion x values for the integer conversions, c/s conversions, star "
                           "arguments, %(key) lookups, malformed/truncated formats, each through std.format and %; floating "
                           "conversions through the oracle trace; distinct = (format, values, entry point)", exhaustive=True)


def replay(case):
    src = case["case"]["src"]
    r = run_cmds([{"cmd": "eval", "id": 0, "src": src, "manifest": "string"}])[0]
    print("source:", src)
    print("observed:", json.dumps(r)[:600])
    print("expected:", case["expected"])
    return 0
