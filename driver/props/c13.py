"""C13 - standard-library object and type functions match their definitions.

spec:  StdObjects.tla (type/is*, length, equals/primitiveEquals/assertEqual, xor/xnor, mergePatch per RFC 7396 as
       specialised by std.jsonnet, prune; MergeLaws, PruneLaws) and MC_StdObjectsChain.tla (objectFields*/
       objectValues*/objectKeysValues*/objectHas*/get/length/mapWithKey/objectRemoveKey on the inheritance chains
       of Objects.tla).
bind:  every enumerated call / chain is rendered as Jsonnet and compared; a second rendering replaces every
       constant field body by `error`, and the functions whose definitions do not need field values must be
       unaffected."""
import copy
import json
import random

import common
from common import from_cps, run_cmds, run_tlc_many, stable_id, tla_to_py
from render import lit, obj_chain

FAMS_B = ["types", "equals", "merge"]
FAMS_A = ["vis", "plus", "omit"]
NAMES = ["a", "b"]


def src_b(c):
    f, x, y = c["f"], c["x"], c["y"]
    if f == "type":
        x = {k: v for k, v in x.items() if k != "tn"}
        return [f"std.type({lit(x)})"] + ([f"std.is{x_name(x)}({lit(x)})"])
    if f in ("length", "prune"):
        return [f"std.{f}({lit(x)})"]
    return [f"std.{f}({lit(x)}, {lit(y)})"]


def x_name(x):
    return {"null": "Null", "bool": "Boolean", "num": "Number", "str": "String", "arr": "Array", "obj": "Object",
            "func": "Function"}[x["t"]]


PROBES = [
    ("fields", "std.objectFields(o)"), ("fieldsAll", "std.objectFieldsAll(o)"), ("ex0", "std.objectFieldsEx(o, false)"),
    ("ex1", "std.objectFieldsEx(o, true)"), ("has", "[std.objectHas(o, f) for f in ['a', 'b']]"),
    ("hasAll", "[std.objectHasAll(o, f) for f in ['a', 'b']]"), ("hasEx0", "[std.objectHasEx(o, f, false) for f in ['a', 'b']]"),
    ("hasEx1", "[std.objectHasEx(o, f, true) for f in ['a', 'b']]"), ("length", "std.length(o)"),
    ("nvals", "std.length(std.objectValues(o))"), ("nvalsAll", "std.length(std.objectValuesAll(o))"),
    ("mwk", "std.objectFields(std.mapWithKey(function(k, v) 0, o))"), ("kv", "[x.key for x in std.objectKeysValues(o)]"),
    ("kvAll", "[x.key for x in std.objectKeysValuesAll(o)]"), ("missing", "std.get(o, 'zz', 77)"), ("missing2", "std.get(o, 'zz')"),
]


def bombed(chain):
    ch = copy.deepcopy(chain)
    for layer in ch:
        for n in NAMES:
            m = layer["ms"][n]
            if m["p"] and m["b"]["k"] == "const":
                m["b"] = {"k": "bomb", "g": "", "n": 0}
    return ch


def want(g):
    if g["k"] == "num":
        return ("val", g["n"])
    return ("err",)


def run(chk):
    thorough = chk.tier == "thorough"
    rng = random.Random(chk.seed)
    jobs = [dict(module="MC_StdObjects", cfg=f"MC_StdObjects_{f}.cfg", workers=4, java_opts=("-Xss512m",)) for f in FAMS_B]
    jobs += [dict(module="MC_StdObjectsChain", cfg=f"MC_StdObjectsChain_{f}.cfg", workers=6, timeout=3000, xmx="8g",
                  java_opts=("-Xss512m",)) for f in FAMS_A]
    rs = run_tlc_many(jobs, parallel=3)
    cases_b, cases_a = [], []
    for j, r in zip(jobs, rs):
        chk.add_tlc(r, j["cfg"])
        if j["module"] == "MC_StdObjects":
            cases_b.extend(r.replay)
        else:
            rep = r.replay
            cap = 100000 if thorough else 900
            if len(rep) > cap:
                rng.shuffle(rep)
                rep = rep[:cap]
            cases_a.extend(rep)

    # ---------------- part B
    cmds, meta = [], []
    for ci, c in enumerate(cases_b):
        for k, src in enumerate(src_b(c["c"])):
            cmds.append({"cmd": "eval", "id": len(cmds), "src": src})
            meta.append((ci, k))
    for cmd, r, (ci, k) in zip(cmds, run_cmds(cmds), meta):
        c = cases_b[ci]
        m = c["res"]
        chk.count(cmd["src"])
        construct = f"c13:{c['c']['f']}:{cmd['src']}"
        if r["k"] == "crash":
            chk.disagree(construct, {"src": cmd["src"]}, m, r, "crash in a standard-library function")
            continue
        if c["c"]["f"] == "type" and k == 1:
            if not (r["k"] == "val" and r["out"] == "true"):
                chk.disagree(construct, {"src": cmd["src"]}, True, r, "std.is* predicate disagrees with std.type")
            continue
        if m["k"] == "unspec":
            continue
        if c["c"]["f"] == "type":
            if not (r["k"] == "val" and json.loads(r["out"]) == m["v"]["s"]):
                chk.disagree(construct, {"src": cmd["src"]}, m["v"]["s"], r, "std.type differs")
            continue
        if m["k"] == "val":
            exp = tla_to_py(m["v"])
            ok = r["k"] == "val" and common.json_equal(json.loads(r["out"]), exp)
        else:
            exp, ok = "error", r["k"] == "err"
        if not ok:
            chk.disagree(construct, {"src": cmd["src"]}, exp, r, "result differs from the documented definition")

    # std.length of a function = number of parameters, with or without defaults (documented)
    extra = [("std.length(function(a, b=1) 0)", 2), ("std.length(function(a=1) 0)", 1), ("std.length(function(a, b, c=a) 0)", 3),
             ("local f(x, y=2) = 0; std.length(f)", 2), ("std.length(std.length)", 1), ("std.length(function() 0)", 0)]
    for (src, exp), r in zip(extra, run_cmds([{"cmd": "eval", "id": i, "src": e[0]} for i, e in enumerate(extra)])):
        chk.count(src)
        if not (r["k"] == "val" and json.loads(r["out"]) == exp):
            chk.disagree(f"c13:length.func:{src}", {"src": src}, exp, r, "std.length(function) is not the number of parameters")

    # ---------------- part A
    cmds, meta = [], []

    def add(ci, kind, src, arg=None):
        cmds.append({"cmd": "eval", "id": len(cmds), "src": src})
        meta.append((ci, kind, arg))

    for ci, c in enumerate(cases_a):
        O = obj_chain(c["chain"], 0)
        pre = f"local o = {O}; "
        for pname, psrc in PROBES:
            add(ci, "p." + pname, pre + psrc)
        add(ci, "values", pre + "std.objectValues(o)")
        add(ci, "valuesAll", pre + "std.objectValuesAll(o)")
        add(ci, "kvs", pre + "[[x.key, x.value] for x in std.objectKeysValues(o)]")
        add(ci, "mapWithKey", pre + "std.objectValues(std.mapWithKey(function(k, v) [k, v], o))")
        for f in NAMES:
            add(ci, "get.inc", pre + f"std.get(o, '{f}', 77, true)", f)
            add(ci, "get.vis", pre + f"std.get(o, '{f}', 77, false)", f)
            add(ci, "get.default_lazy", pre + f"std.get(o, '{f}', error 'default forced', true)", f)
            add(ci, "removed", f"local o = std.objectRemoveKey({O}, '{f}'); "
                "{fields: std.objectFields(o), fieldsAll: std.objectFieldsAll(o)}", f)
            add(ci, "removed.other", f"local o = std.objectRemoveKey({O}, '{f}'); o.{'b' if f == 'a' else 'a'}", f)
        # laziness: the same probes on a chain whose constant fields all fail
        Bm = obj_chain(bombed(c["chain"]), 0)
        for pname, psrc in PROBES:
            add(ci, "bomb." + pname, f"local o = {Bm}; " + psrc)
    res = run_cmds(cmds)
    for cmd, r, (ci, kind, arg) in zip(cmds, res, meta):
        c = cases_a[ci]
        o = c["obs"]
        key = stable_id(c["chain"])
        chk.count((key, kind, arg))
        construct = f"c13:{c['fam']}:{kind}:{arg}:{key}"
        desc = {"src": cmd["src"]}

        def bad(exp, what):
            chk.disagree(construct, desc, exp, r, what)

        if r["k"] == "crash":
            bad("value or error", "crash")
            continue
        if kind.startswith("p.") or kind.startswith("bomb."):
            exp = {"fields": o["fields"], "fieldsAll": o["fieldsAll"], "ex0": o["fields"], "ex1": o["fieldsAll"],
                   "has": [o["has"][f] for f in NAMES], "hasAll": [o["hasAll"][f] for f in NAMES],
                   "hasEx0": [o["has"][f] for f in NAMES], "hasEx1": [o["hasAll"][f] for f in NAMES], "length": o["length"],
                   "nvals": len(o["fields"]), "nvalsAll": len(o["fieldsAll"]), "mwk": o["fields"], "kv": o["fields"],
                   "kvAll": o["fieldsAll"], "missing": 77, "missing2": None}
            exp = exp[kind.split(".", 1)[1]]
            if not (r["k"] == "val" and common.json_equal(json.loads(r["out"]), exp)):
                bad(exp, "field-name function differs from the object model" if kind.startswith("p.") else
                    "a function that does not need field values evaluated them (or differs) on an object whose fields fail")
        elif kind in ("values", "valuesAll", "kvs", "mapWithKey"):
            names = o["fieldsAll"] if kind == "valuesAll" else o["fields"]
            vals = o["valuesAll"] if kind == "valuesAll" else o["values"]
            if all(v["k"] == "num" for v in vals):
                exp = [v["n"] for v in vals] if kind in ("values", "valuesAll") else [[n, v["n"]] for n, v in zip(names, vals)]
                if not (r["k"] == "val" and common.json_equal(json.loads(r["out"]), exp)):
                    bad(exp, f"{kind}: values / order differ from the object model")
            elif r["k"] != "err":
                bad("error", f"{kind}: a failing field value was not reported")
        elif kind in ("get.inc", "get.vis", "get.default_lazy"):
            g = o["get"][arg]["vis" if kind == "get.vis" else "inc"]
            if kind == "get.default_lazy" and not o["hasAll"][arg]:
                if r["k"] != "err":
                    bad("error (default is needed)", "std.get of a missing field must use the default")
                continue
            w = want(g)
            ok = (r["k"] == "val" and json.loads(r["out"]) == w[1]) if w[0] == "val" else r["k"] == "err"
            if not ok:
                bad(g, f"std.get({arg}) differs from its definition")
        elif kind == "removed":
            exp = {"fields": o["removed"][arg]["fields"], "fieldsAll": o["removed"][arg]["fieldsAll"]}
            if not (r["k"] == "val" and common.json_equal(json.loads(r["out"]), exp)):
                bad(exp, "std.objectRemoveKey: remaining field names differ")
        elif kind == "removed.other":
            w = want(o["removed"][arg]["other"])
            ok = (r["k"] == "val" and json.loads(r["out"]) == w[1]) if w[0] == "val" else r["k"] == "err"
            if not ok:
                bad(o["removed"][arg]["other"], "std.objectRemoveKey: value of the other field differs")
    chk.traces += len(cases_a) + len(cases_b)
    chk.sample({"call": src_b(cases_b[len(cases_b) // 2]["c"])[0], "model": cases_b[len(cases_b) // 2]["res"]})
    chk.sample({"chain": obj_chain(cases_a[3]["chain"], 0), "model": cases_a[3]["obs"]})
    chk.assumptions += ["values containing functions are undecided for equals/mergePatch/prune",
                        "chains are those of Objects.tla (values are numbers); quick tier replays a seeded sample of the chains"]


def finish(chk):
    return chk.finish(rule="type/length/equality/xor/mergePatch/prune over a pool of JSON-like values (hidden fields, nulls, nested "
                           "empties) and the object-inspection functions over inheritance chains (with a failing-fields variant); "
                           "distinct = rendered call or (chain, probe)", exhaustive=(chk.tier == "thorough"))


def replay(case):
    src = case["case"]["src"]
    r = run_cmds([{"cmd": "eval", "id": 0, "src": src}])[0]
    print("source:", src)
    print("observed:", json.dumps(r)[:600])
    print("expected:", case["expected"])
    return 0
