"""C14 - YAML, TOML, Python, XML and INI manifestation denote the same data.

spec:  Formats.tla (string atoms with their classes, value shapes, Domain(format, value) in {in, out, open}).
bind:  every TLC-enumerated value is rendered to Jsonnet, written by std.manifestYamlDoc / YamlStream (all option
       combinations), std.manifestToml / TomlEx, std.manifestPython / PythonVars, std.manifestXmlJsonml, std.manifestIni
       and the command line's output formats (-f yaml / toml / xml-jsonml / ini, -y) and read back by an independent
       parser (PyYAML, tomllib, ast, xml.etree, configparser): in the domain the reader must return the same data, outside
       it the writer must fail, and nothing may crash.  The atom table of the model is checked against the real strings."""
import ast
import configparser
import io
import json
import keyword
import random
import re
import tomllib
import xml.etree.ElementTree as ET

import yaml

import common
import render
from common import run_cmds, run_tlc

ATOMS = [None, "a", "", " ", '"', "'", "\\", "#", ":", "-", "=", "[", "]", "{", ",", "&", "<", ">", "\n", "\t", "\x01", "\x7f", "é", "\U0001F600",
         "true", "null", "yes", "no", "on", "~", "1", "1.5", "-1", "0x1f", "0o7", "1e3", "1_000", "2001-01-01", "12:30:45", ".inf", ".nan",
         "- a", "a: b", "a #b", " a", "a ", "*a", "&a", "!a", "%a", "@a", "`a", "|", "?", "? a", "a.b", "a b", "a\nb", "a\nb\n", "a\n\nb",
         " a\nb", "0.1e-2", "+1", "False", "y", "<<", "]]", "a\rb", "_k1"]


def classes_of(s):
    """the classes Formats.tla attributes to an atom, recomputed from the characters"""
    c = set()
    if "\n" not in s:
        c.add("single")
    else:
        body = s[:-1] if s.endswith("\n") else s
        lines = body.split("\n")
        if all(l and l == l.strip() for l in lines) and not body.endswith("\n"):
            c.add("block")
    if re.fullmatch(r"[A-Za-z_][A-Za-z0-9_]*", s):
        c.add("ident")
    if any((ord(ch) < 32 and ch not in "\t\n\r") or ord(ch) == 0x7f for ch in s):
        c.add("ctrl")
    if "single" in c and "ctrl" not in c and s and s == s.strip() and not s.startswith(("#", ";")) and " #" not in s and " ;" not in s and "\r" not in s and "\t" not in s:
        c.add("inival")
    if any(ch in s for ch in "\t\n\r"):
        c.add("xmlattr")
    if "\r" in s:
        c.add("cr")
    if keyword.iskeyword(s):
        c.add("pykw")
    return c


LOOKCH = "017xboe.-_+:"


def value_of(s):
    A = ATOMS
    sh = s["sh"]
    if sh == "look":
        t = "".join(LOOKCH[c - 1] for c in s["cs"])
        return {t: t, "l": [t]}
    if sh == "str":
        return A[s["a"]]
    if sh == "arr":
        return [A[s["a"]], A[s["b"]]]
    if sh == "obj":
        return {A[s["k"]]: A[s["v"]]}
    if sh == "nest":
        k, v = A[s["k"]], A[s["v"]]
        return {"o": {k: [v, {k: v}]}, "l": [[v], []], "m": [{k: v}, v, [{k: v}, 1]]}     # arrays of mixed element kinds, either order
    if sh == "tables":
        k, v = A[s["k"]], A[s["v"]]
        # sub-tables, arrays of tables, and empty tables / arrays in every position
        d = {"t": {k: v, "s": {k: v}, "e": {}}, "aot": [{k: v}, {k: 1}, {}], "e": {}, "ea": [], "es": {"e": {}}}
        d[k] = v
        return d
    if sh == "jsonml":
        return ["root", {"at": A[s["t"]]}, A[s["v"]], ["c", A[s["v"]]]]
    if sh == "jsonmlattr":
        return ["root", {"at": A[s["t"]], "n": 1, "b": True, "l": [A[s["v"]], "y"], "o": {"k": A[s["v"]]}}, A[s["v"]]]
    if sh == "ini":
        k, v = A[s["k"]], A[s["v"]]
        return {"main": {k: v}, "sections": {"sec": {k: v, "l": [v, "x"]}}}
    if sh == "mixed":
        return {"n": None, "t": True, "f": False, "i": 3, "x": -1.5, "big": 1e20, "ea": [], "eo": {}, "deep": [[1, [2]], {"a": [None]}]}
    if sh == "badjsonml":
        return [{"not": "a tag"}, 1]
    raise KeyError(sh)


def src_of(s):
    if s["sh"] == "func":
        return "{f: function(x) x}"
    return json.dumps(value_of(s), ensure_ascii=False)     # JSON is Jsonnet


WRITERS = []      # (format of the model, name, jsonnet expression template or None, harness manifest format or None)
for iao in (False, True):
    for qk in (False, True):
        WRITERS.append(("yaml", f"manifestYamlDoc(iao={iao},qk={qk})", f"std.manifestYamlDoc(V, indent_array_in_object={str(iao).lower()}, quote_keys={str(qk).lower()})", None))
        for cde in (False, True):
            WRITERS.append(("yamlstream", f"manifestYamlStream(iao={iao},cde={cde},qk={qk})",
                            f"std.manifestYamlStream([V, V], indent_array_in_object={str(iao).lower()}, c_document_end={str(cde).lower()}, quote_keys={str(qk).lower()})", None))
WRITERS += [("yaml", "-f yaml", None, "yaml2"), ("yamlstream", "-y", "[V, V]", "ystream_yaml"),
            ("toml", "manifestToml", "std.manifestToml(V)", None), ("toml", "manifestTomlEx('    ')", "std.manifestTomlEx(V, '    ')", None),
            ("toml", "manifestTomlEx('')", "std.manifestTomlEx(V, '')", None), ("toml", "-f toml", None, "toml2"),
            ("python", "manifestPython", "std.manifestPython(V)", None), ("pythonvars", "manifestPythonVars", "std.manifestPythonVars(V)", None),
            ("xml", "manifestXmlJsonml", "std.manifestXmlJsonml(V)", None), ("xml", "-f xml-jsonml", None, "xml"),
            ("ini", "manifestIni", "std.manifestIni(V)", None), ("ini", "-f ini", None, "ini")]


def norm_num(x):
    return x


def read_back(fmt, text, value):
    """(ok, data or reason): what an independent reader of the format makes of the text"""
    try:
        # a document is a sequence of lines: the final line break is what every consumer of the text adds
        if fmt == "yaml":
            return True, yaml.safe_load(text + "\n")
        if fmt == "yamlstream":
            return True, list(yaml.safe_load_all(text + "\n"))
        if fmt == "toml":
            return True, tomllib.loads(text)
        if fmt == "python":
            return True, ast.literal_eval(text)
        if fmt == "pythonvars":
            tree = ast.parse(text)
            out = {}
            for st in tree.body:
                if not (isinstance(st, ast.Assign) and len(st.targets) == 1 and isinstance(st.targets[0], ast.Name)):
                    return False, "not a sequence of assignments"
                out[st.targets[0].id] = ast.literal_eval(st.value)
            return True, out
        if fmt == "xml":
            root = ET.fromstring(text)

            def conv(e):
                out = [e.tag]
                if e.attrib:
                    out.append(dict(e.attrib))
                if e.text:
                    out.append(e.text)
                for ch in e:
                    out.append(conv(ch))
                    if ch.tail:
                        out.append(ch.tail)
                return out
            return True, conv(root)
        if fmt == "ini":
            cp = configparser.RawConfigParser(strict=False, interpolation=None, delimiters=("=",), comment_prefixes=("#", ";"), empty_lines_in_values=False)
            cp.optionxform = str
            # a section-less head is read through a synthetic section
            cp.read_string("[\x00main]\n" + text)
            out = {"main": dict(cp["\x00main"]), "sections": {s: dict(cp[s]) for s in cp.sections() if s != "\x00main"}}
            return True, out
    except Exception as e:          # the reader rejects the text
        return False, f"{type(e).__name__}: {e}"[:200]
    return False, "?"


def expected_data(fmt, value):
    if fmt == "yamlstream":
        return [value, value]
    if fmt == "xml":
        def conv(v):
            if isinstance(v, str):
                return v
            out = [v[0]]
            rest = v[1:]
            if rest and isinstance(rest[0], dict):
                if rest[0]:
                    out.append({k: (x if isinstance(x, str) else json.dumps(x)) for k, x in rest[0].items()})
                rest = rest[1:]
            for ch in rest:
                c = conv(ch)
                if isinstance(c, str):
                    if c == "":
                        continue
                    if len(out) > 1 and isinstance(out[-1], str) and not isinstance(out[-1], dict):
                        out[-1] += c
                    else:
                        out.append(c)
                else:
                    out.append(c)
            return out
        return conv(value)
    if fmt == "ini":
        def body(o):
            # repeated keys (arrays): readers keep the last one
            return {k: (str(v[-1]) if isinstance(v, list) else v if isinstance(v, str) else json.dumps(v)) for k, v in o.items()}
        return {"main": body(value.get("main", {})), "sections": {s: body(o) for s, o in value.get("sections", {}).items()}}
    return value


def same(a, b):
    if isinstance(a, bool) or isinstance(b, bool) or a is None or b is None:
        return type(a) == type(b) and a == b
    if isinstance(a, (int, float)) and isinstance(b, (int, float)):
        return float(a) == float(b)
    if isinstance(a, str) and isinstance(b, str):
        return a == b
    if isinstance(a, list) and isinstance(b, list):
        return len(a) == len(b) and all(same(x, y) for x, y in zip(a, b))
    if isinstance(a, dict) and isinstance(b, dict):
        return set(a) == set(b) and all(same(a[k], b[k]) for k in a)
    return False


def run(chk):
    thorough = chk.tier == "thorough"
    for i, a in enumerate(ATOMS):
        if i == 0:
            continue
    r = run_tlc("Formats", "MC_Formats_full.cfg" if thorough else "MC_Formats_quick.cfg", workers=8, xmx="6g")
    chk.add_tlc(r, "Formats: Domain of every value x format; Laws")
    # the model's atom classes against the real strings
    txt = open(common.SPEC + "/Formats.tla", encoding="utf-8").read()
    rows = re.findall(r"^\s*\{([^}]*)\},?\s*\\\* (\d+) ", txt, re.M)
    if len(rows) != len(ATOMS) - 1:
        raise common.ToolError(f"atom table of Formats.tla has {len(rows)} rows, the driver {len(ATOMS) - 1}")
    for body, num in rows:
        model = {x.strip().strip('"') for x in body.split(",") if x.strip()}
        real = classes_of(ATOMS[int(num)])
        if model != real:
            raise common.ToolError(f"atom {num} ({ATOMS[int(num)]!r}): Formats.tla says {sorted(model)}, the characters say {sorted(real)}")
    r2 = run_tlc("Formats", "MC_Formats_look_4.cfg" if thorough else "MC_Formats_look_3.cfg", workers=8, xmx="6g")
    chk.add_tlc(r2, "Formats: number / keyword look-alike strings")
    cases = r.replay + r2.replay
    chk.extra["values"] = len(cases)
    cmds, meta = [], []
    for ci, c in enumerate(cases):
        v = src_of(c["s"])
        for fmt, name, expr, hfmt in WRITERS:
            if c["dom"][fmt] == "skip":
                continue
            cmd = {"cmd": "eval", "id": len(cmds), "src": (expr or "V").replace("(V", "(" + v).replace("[V, V]", "[" + v + ", " + v + "]") if expr else v, "manifest": hfmt or "string"}
            cmds.append(cmd)
            meta.append((ci, fmt, name))
    res = run_cmds(cmds, timeout_per_case=10)
    for (ci, fmt, name), cmd, rr in zip(meta, cmds, res):
        c = cases[ci]
        s = c["s"]
        dom = c["dom"][fmt]
        chk.extra["judged_" + dom.replace("-", "_")] = chk.extra.get("judged_" + dom.replace("-", "_"), 0) + 1
        chk.count((json.dumps(s, sort_keys=True), name))
        shape = ("look:" + repr("".join(LOOKCH[x - 1] for x in s["cs"]))) if s["sh"] == "look" else \
            s["sh"] + ":" + ",".join(f"{k}={ATOMS[v]!r}" for k, v in sorted(s.items()) if k != "sh")
        key = f"c14:{fmt}:{name}:{shape}"
        desc = {"src": cmd["src"], "manifest": cmd["manifest"], "writer": name}
        if rr["k"] == "crash":
            chk.disagree(key, desc, dom, rr, "crash in a writer")
            continue
        if dom == "out":
            if rr["k"] != "err":
                chk.disagree(key, desc, "error (outside the format's domain)", rr, "a value outside the format's domain is written instead of being rejected")
            continue
        if dom == "open":
            continue
        if rr["k"] != "val":
            chk.disagree(key, desc, "text", rr, "the writer fails on a value of the format's domain")
            continue
        value = value_of(s)
        ok, data = read_back(fmt, rr["out"], value)
        if not ok:
            chk.disagree(key, desc, "well-formed text", {"k": "text", "text": rr["out"][:500], "reader": data}, "the output is not well-formed for an independent reader")
            continue
        exp = expected_data(fmt, value)
        if dom == "open-attr":
            # attribute values with tab / line break are left open; the text nodes must still match
            strip = lambda x: [strip(y) for y in x if not isinstance(y, dict)] if isinstance(x, list) else x
            data, exp = strip(data), strip(exp)
        if not same(data, exp):
            chk.disagree(key, desc, exp, {"k": "text", "text": rr["out"][:500], "read": data}, "an independent reader gets different data back")
    chk.sample({"value": src_of(cases[len(cases) // 2]["s"]), "writers": [w[1] for w in WRITERS][:8]})
    chk.assumptions += ["readers: PyYAML safe_load (YAML 1.1), tomllib, ast.literal_eval, xml.etree.ElementTree, configparser (RawConfigParser, '=' delimiter)",
                        "multi-line strings outside the block-scalar-safe class, control characters in XML, tab/line break in XML attributes, INI keys "
                        "and values outside the identifier / single-line class are left open (no crash only)"]


def finish(chk):
    return chk.finish(rule="values: 68 hostile string atoms in 7 shapes (pairs: covering sample in quick, all in thorough) + fixed mixed / function / "
                           "bad-JSONML values x 24 writers (std.manifest* with every option combination and the CLI formats)", exhaustive=False)


def replay(case):
    c = case["case"]
    r = run_cmds([{"cmd": "eval", "id": 0, "src": c["src"], "manifest": c["manifest"]}])[0]
    print("program:", c["src"])
    print("writer:", c["writer"])
    print("output:", r.get("out") if r["k"] == "val" else r)
    print("expected:", case["expected"])
    return 0
