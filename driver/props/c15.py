"""C15 - command line, Rust API, C API and dependency lister agree.

spec:  Cli.tla (Translate: what every probe field denotes for each flavour of external variable / top-level argument,
       search path, stack limit; Outcome; Render: exit status, stdout, files per output mode; the pipeline machine with
       EnteredWhileEvaluating; Deps = files reachable through import edges).
bind:  every TLC-enumerated configuration is replayed three ways - the built `jrsonnet` executable (argv, stdin, files),
       the library API through the harness's own plumbing, and libjsonnet.so through ctypes (separate process) - and
       each must show what the model's Outcome / Render says, with the text the library manifests; every enumerated
       import graph is materialised with imports in different syntactic positions and `jrsonnet-deps` must list
       exactly Deps, which must contain every file an evaluation loads (recording resolver)."""
import json
import os
import random
import shutil
import subprocess
from concurrent.futures import ThreadPoolExecutor

import common
from common import run_cmds, run_tlc_many

TAGS = {"absent": "absent", "S:hello=world": "hello=world", "S:1 + 1": "1 + 1", "V:two": {"a": 2}, "S:file text": "file text",
        "V:six": {"b": 6}, "V:sibling": {"s": "sib"}, "S:from env": "from env", "LIB:one": "one", "LIB:two": "two", "S:Tdefault": "Tdefault", "N:40": 40}
FILES = {"j1/lib.libsonnet": '{name: "one"}', "j2/lib.libsonnet": '{name: "two"}', "data.txt": "file text",
         "vars/code.jsonnet": "{b: 2 * 3}", "vars/imp.jsonnet": '{s: (import "sibling.libsonnet").s}',
         "vars/sibling.libsonnet": '{s: "sib"}', "vars/err.jsonnet": 'error "boom"'}
PAYLOAD = {("str", "plain"): "hello=world", ("str", "codelike"): "1 + 1", ("code", "ok"): "{a: 1 + 1}", ("code", "err"): 'error "boom"',
           ("code", "syntax"): "1 +", ("code", "imports"): '(import "lib.libsonnet").name', ("strfile", "exists"): "data.txt",
           ("strfile", "missing"): "nodata.txt", ("codefile", "ok"): "vars/code.jsonnet", ("codefile", "imports"): "vars/imp.jsonnet",
           ("codefile", "err"): "vars/err.jsonnet", ("codefile", "missing"): "vars/missing.jsonnet"}
FLAG = {"str": "str", "code": "code", "strfile": "str-file", "codefile": "code-file"}
HKEY = {"str": "str", "code": "code", "strfile": "str_file", "codefile": "code_file"}
LIBFMT = {"json": "cli3", "pad0": "cli0", "string": "string", "fstring": "tostring", "fyaml": "yaml2", "ftoml": "toml2", "ystream": "ystream_yaml",
          "outfile": "cli3", "S_bad": "string", "y_bad": "ystream_yaml"}


def program(c, body=None):
    e = 'std.extVar("e")' if c["ext"]["fl"] != "none" else '"absent"'
    lib = '(import "lib.libsonnet").name' if c["jp"] != "none" else '"absent"'
    obj = f"{{e: {e}, t: t, lib: {lib}, deep: deep(40)}}"
    if body is None:
        body = {"string": "std.manifestJsonMinified(o)", "ystream": "[o, o.t]", "multi": '{"a.json": o, "b.json": o.t}',
                "multiS": '{"a.txt": std.manifestJsonMinified(o), "b.txt": "x" + std.toString(o.t)}', "m_bad": "[o]"}.get(c["out"], "o")
    return f"local deep(n) = if n == 0 then 0 else 1 + deep(n - 1);\nfunction(t=\"Tdefault\") local o = {obj}; {body}"


def expected_value(outcome):
    return {"e": TAGS[outcome["e"]], "t": TAGS[outcome["t"]], "lib": TAGS[outcome["lib"]], "deep": TAGS[outcome["deep"]]}


def argv_of(c):
    a = []
    for which, v in (("ext", c["ext"]), ("tla", c["tla"])):
        if v["fl"] == "env":
            a += [f"--{which}-str", "e" if which == "ext" else "t"]        # no `=`: the value comes from the environment
        elif v["fl"] != "none":
            a += [f"--{which}-{FLAG[v['fl']]}", f"{'e' if which == 'ext' else 't'}={PAYLOAD[(v['fl'], v['pl'])]}"]
    if c["jp"] in ("one", "shadow"):
        a += ["-J", "j1"]
    if c["jp"] == "shadow":
        a += ["-J", "j2"]
    if c["stack"] == "small":
        a += ["-s", "20"]
    a += {"json": [], "pad0": ["--line-padding", "0"], "string": ["-S"], "fstring": ["-f", "string"], "fyaml": ["-f", "yaml"], "ftoml": ["-f", "toml"],
          "ystream": ["-y"], "multi": ["-m", "outdir", "-c"], "multiS": ["-m", "outdir", "-c", "-S"], "outfile": ["-o", "out/result.json", "-c"],
          "S_bad": ["-S"], "y_bad": ["-y"], "m_bad": ["-m", "outdir", "-c"]}[c["out"]]
    return a


def lib_cmd(c, src, fmt):
    cmd = {"cmd": "eval", "files": dict(FILES), "src": src, "manifest": fmt, "tla": {}}
    for which, v in (("ext", c["ext"]), ("tla", c["tla"])):
        if v["fl"] == "env":
            # not a library concept: the library is handed what the environment holds (nothing when unset - the run is a usage error)
            if v["pl"] == "set":
                cmd.setdefault(which, {})["e" if which == "ext" else "t"] = {"str": "from env"}
        elif v["fl"] != "none":
            cmd.setdefault(which, {})["e" if which == "ext" else "t"] = {HKEY[v["fl"]]: PAYLOAD[(v["fl"], v["pl"])]}
    # right-most -J wins: the harness hands FileImportResolver the directories in priority order
    cmd["jpath"] = {"none": [], "one": ["j1"], "shadow": ["j2", "j1"]}[c["jp"]]
    if c["stack"] == "small":
        cmd["max_stack"] = 20
    if c["inp"] == "file":
        cmd["via"] = "file"
        cmd["main"] = "main.jsonnet"
    return cmd


def make_tree(d, extra=None):
    shutil.rmtree(d, ignore_errors=True)
    for name, content in {**FILES, **(extra or {})}.items():
        p = os.path.join(d, name)
        os.makedirs(os.path.dirname(p), exist_ok=True)
        with open(p, "w", encoding="utf-8") as f:
            f.write(content)


def run_exe(exe, c, d):
    src = program(c)
    make_tree(d, {"main.jsonnet": src})
    args = [exe] + argv_of(c)
    stdin = None
    if c["inp"] == "file":
        args.append("main.jsonnet")
    elif c["inp"] == "exec":
        args += ["-e", src]
    else:
        args.append("-")
        stdin = src.encode()
    env = {k: v for k, v in os.environ.items() if k not in ("JSONNET_PATH", "JRSONNET_LEGACY_PARSER", "e", "t")}
    for which, name in (("ext", "e"), ("tla", "t")):
        if c[which]["fl"] == "env" and c[which]["pl"] == "set":
            env[name] = "from env"
    try:
        p = subprocess.run(args, cwd=d, input=stdin, stdout=subprocess.PIPE, stderr=subprocess.PIPE, timeout=60, env=env)
        rc, out, err = p.returncode, p.stdout.decode("utf-8", "replace"), p.stderr.decode("utf-8", "replace")
    except subprocess.TimeoutExpired:
        rc, out, err = -999, "", "timeout"
    files = {}
    for root, _, names in os.walk(d):
        for n in names:
            rel = os.path.relpath(os.path.join(root, n), d)
            if rel.startswith(("outdir", "out/")):
                files[rel] = open(os.path.join(root, n), encoding="utf-8", errors="replace").read()
    shutil.rmtree(d, ignore_errors=True)
    return {"rc": rc, "stdout": out, "stderr": err, "files": files, "argv": args[1:]}


IMPORT_SITES = [
    "{{f: {imp}}}", "[1, {imp}]", "local x = {imp}; 1", "function(a={imp}) a", "(function(a) a)({imp})", "if true then 1 else {imp}",
    "{{[std.toString({imp})]: 1}}", "assert true : {imp}; 1", "[1 for x in [{imp}]]", "{{local l = {imp}, f: 1}}", "{{assert true : {imp}, f: 1}}",
    "[1][{imp}:]", "{{f+: {imp}}}", "1 + {imp}", "-({imp})", "({imp}).f", "{{f: 1}} {{g: {imp}}}", "std.length(x={imp})", "error {imp}",
    "{{[k]: {imp} for k in ['a']}}", "local f(a) = {imp}; 1", "{{f(a): {imp}}}", "{imp} tailstrict" if False else "[{imp}][0]",
]


def deps_tree(case, rng):
    files = {}
    for n in (1, 2, 3):
        parts = []
        for e in sorted(case["edges"], key=lambda e: (e["from"], e["to"], e["kind"])):
            if e["from"] == n:
                imp = f"{e['kind']} 'f{e['to']}.jsonnet'"
                parts.append(rng.choice(IMPORT_SITES).format(imp=imp))
        files[f"f{n}.jsonnet"] = "[" + ", ".join(parts) + "]" if parts else "{leaf: %d}" % n
    return files


def path2(f):
    return ("d/" if f["dir"] == 1 else "") + f"g{f['name']}.jsonnet"


def deps2_tree(case, rng):
    """two directories: `g2.jsonnet` written in g1.jsonnet and in d/g1.jsonnet names two different files"""
    files = {}
    for d in (0, 1):
        for n in (1, 2, 3):
            parts = []
            for e in sorted(case["edges"], key=lambda e: (e["sub"], e["name"], e["kind"])):
                if e["from"] == {"dir": d, "name": n}:
                    imp = f"{e['kind']} '{'d/' if e['sub'] else ''}g{e['name']}.jsonnet'"
                    parts.append(rng.choice(IMPORT_SITES).format(imp=imp))
            files[path2({"dir": d, "name": n})] = "[" + ", ".join(parts) + "]" if parts else "{leaf: %d}" % (10 * d + n)
    return files


def run(chk):
    thorough = chk.tier == "thorough"
    rng = random.Random(chk.seed)
    rs = run_tlc_many([dict(module="Cli", cfg="MC_Cli_pipeline.cfg", workers=2), dict(module="Cli", cfg="MC_Cli_config.cfg", workers=6),
                       dict(module="Cli", cfg="MC_Cli_deps.cfg", workers=4), dict(module="Cli", cfg="MC_Cli_callbacks.cfg", workers=1),
                       dict(module="Cli", cfg="MC_Cli_deps2.cfg", workers=4)], parallel=5)
    chk.add_tlc(rs[0], "Cli pipeline: EnteredWhileEvaluating")
    chk.add_tlc(rs[1], "Cli configurations: Translate / Outcome / Render")
    chk.add_tlc(rs[2], "Cli import graphs: Deps")
    chk.add_tlc(rs[3], "Cli C API callbacks: NativeOutcome / ImportOutcome")
    chk.add_tlc(rs[4], "Cli import graphs over two directories: Deps2 (one import text, two files)")
    cases = rs[1].replay
    rng.shuffle(cases)
    # the plain cases first: every variable flavour with default everything else, then the sample
    base = [c for c in cases if c["c"]["jp"] == "none" and c["c"]["out"] == "json" and c["c"]["stack"] == "default" and c["c"]["inp"] == "file"]
    rest = [c for c in cases if c not in base][:(12000 if thorough else 1800)]
    cases = base + rest
    chk.extra["configurations"] = len(cases)
    bindir = common.build_repo_bins(cdylib=True)
    exe = os.path.join(bindir, "jrsonnet")
    so = os.path.join(bindir, "libjsonnet.so")
    work = os.path.join(chk.workdir, "cases")
    os.makedirs(work, exist_ok=True)

    # ---- library API (harness plumbing)
    lcmds, lmeta = [], []
    for i, case in enumerate(cases):
        c = case["c"]
        if c["out"] in ("multi", "multiS"):
            bodies = {"multi": [("a.json", "o", "cli3"), ("b.json", "o.t", "cli3")],
                      "multiS": [("a.txt", "std.manifestJsonMinified(o)", "string"), ("b.txt", '"x" + std.toString(o.t)', "string")]}[c["out"]]
            for name, body, fmt in bodies:
                lcmds.append(lib_cmd(c, program(c, body), fmt))
                lmeta.append((i, name))
        elif c["out"] == "m_bad":
            lcmds.append(lib_cmd(c, program(c), "cli3"))
            lmeta.append((i, None))
        else:
            lcmds.append(lib_cmd(c, program(c), LIBFMT[c["out"]]))
            lmeta.append((i, None))
        # the value itself, to compare with the model's denotation
        lcmds.append(lib_cmd(c, program(c, "o"), "min"))
        lmeta.append((i, "#value"))
    for k, cmd in enumerate(lcmds):
        cmd["id"] = k
    lres = run_cmds(lcmds, timeout_per_case=30)
    libout = {}
    for (i, name), r in zip(lmeta, lres):
        libout.setdefault(i, {})[name] = r

    # ---- executable
    with ThreadPoolExecutor(max_workers=14) as ex:
        eres = list(ex.map(lambda ic: run_exe(exe, ic[1]["c"], os.path.join(work, f"c{ic[0]}")), enumerate(cases)))

    for i, (case, er) in enumerate(zip(cases, eres)):
        c, outcome, render = case["c"], case["outcome"], case["render"]
        chk.count(("cfg", json.dumps(c, sort_keys=True)))
        key = f"c15:cli:ext={c['ext']['fl']}.{c['ext']['pl']}:tla={c['tla']['fl']}.{c['tla']['pl']}:jp={c['jp']}:inp={c['inp']}:out={c['out']}:stack={c['stack']}"
        desc = {"config": c, "argv": er["argv"], "program": program(c)}
        lv = libout[i]["#value"]
        main = libout[i].get(None)
        # (1) the library against the model
        lib_ok = lv["k"] == "val"
        if lv["k"] == "crash":
            chk.disagree(key.replace("c15:cli", "c15:lib"), desc, outcome, lv, "library crashed")
            continue
        env_unset = any(c[w]["fl"] == "env" and c[w]["pl"] == "unset" for w in ("ext", "tla"))
        if env_unset:
            pass                              # the library is never reached: the executable rejects its arguments
        elif outcome["k"] == "err":
            # the value may still exist when only the output mode does not fit; the run as a whole must fail
            whole = main if main is not None else lv
            if c["out"] in ("S_bad", "y_bad"):
                lib_fail = whole["k"] == "err"
            elif c["out"] == "m_bad":
                lib_fail = True               # -m needs an object: decided by the executable's own check
            else:
                lib_fail = not lib_ok
            if not lib_fail:
                chk.disagree(key.replace("c15:cli", "c15:lib"), desc, outcome, lv, "library API succeeds where the configuration denotes an error")
                continue
        else:
            if not lib_ok:
                chk.disagree(key.replace("c15:cli", "c15:lib"), desc, outcome, lv, "library API fails where the configuration denotes a value")
                continue
            if not common.json_equal(json.loads(lv["out"]), expected_value(outcome)):
                chk.disagree(key.replace("c15:cli", "c15:lib"), desc, expected_value(outcome), lv, "library API computes a different value for this configuration")
                continue
        # (2) the executable against Render(model) with the library's text
        if er["rc"] not in (0, 1, 2) or "panicked" in er["stderr"]:
            chk.disagree(key, desc, render, er, "executable crashed")
            continue
        if render["exit"] == "nonzero":
            if er["rc"] == 0 or not er["stderr"].strip():
                chk.disagree(key, desc, render, er, "executable exits 0 / prints no error although the configuration denotes an error")
            continue
        if er["rc"] != 0:
            chk.disagree(key, desc, render, er, "executable fails although the library computes a value")
            continue
        bad = None
        if render["stdout"] == "M+newline":
            exp = main["out"]
            if er["stdout"] != (exp + "\n" if exp != "" else ""):
                bad = "stdout is not the library's manifestation followed by a newline"
        elif render["stdout"] == "empty":
            if er["stdout"] != "":
                bad = "stdout not empty with -o"
        elif render["stdout"] == "paths":
            names = sorted(n for n in libout[i] if n and not n.startswith("#"))
            if [l for l in er["stdout"].split("\n") if l] != [os.path.join("outdir", n) for n in names]:
                bad = "-m does not list the written files"
        if not bad and render["files"] != "none":
            if c["out"] == "outfile":
                expf = {"out/result.json": main["out"] + "\n"}
            else:
                nl = "\n" if render["files"] == "M+newline each" else ""
                expf = {os.path.join("outdir", n): r["out"] + nl for n, r in libout[i].items() if n and not n.startswith("#")}
            if er["files"] != expf:
                bad = "written files differ from the library's manifestation"
                desc = dict(desc, expected_files=expf)
        if bad:
            chk.disagree(key, desc, render, er, bad)

    # ---- C API (separate process; str / code flavours, file and snippet input, json / string / multi / stream)
    ccases, ccmds = [], []
    for i, case in enumerate(cases):
        c = case["c"]
        if c["ext"]["fl"] in ("strfile", "codefile", "env") or c["tla"]["fl"] in ("strfile", "codefile", "env") or c["inp"] == "stdin":
            continue
        if c["out"] not in ("json", "fstring", "multi", "ystream", "m_bad", "y_bad"):
            continue
        d = os.path.join(work, f"capi{i}")
        src = program(c, "[o, o.t]" if c["out"] == "ystream" else None)
        make_tree(d, {"main.jsonnet": src})
        cmd = {"id": len(ccmds), "dir": d, "max_stack": 20 if c["stack"] == "small" else 512, "string": c["out"] == "fstring",
               "kind": {"multi": "multi", "m_bad": "multi", "ystream": "stream", "y_bad": "stream"}.get(c["out"], "plain"),
               "jpath": {"none": [], "one": ["j1"], "shadow": ["j1", "j2"]}[c["jp"]]}
        for which, v in (("ext", c["ext"]), ("tla", c["tla"])):
            if v["fl"] != "none":
                cmd[f"{which}_{'str' if v['fl'] == 'str' else 'code'}"] = {"e" if which == "ext" else "t": PAYLOAD[(v["fl"], v["pl"])]}
        if c["inp"] == "file":
            cmd["file"] = "main.jsonnet"
        else:
            cmd["src"] = src
            cmd["name"] = "snippet.jsonnet"
        ccases.append(i)
        ccmds.append(cmd)
    chk.extra["capi_cases"] = len(ccmds)
    cres = run_capi(so, ccmds)
    for i, cmd, r in zip(ccases, ccmds, cres):
        shutil.rmtree(cmd["dir"], ignore_errors=True)
        case = cases[i]
        c, outcome = case["c"], case["outcome"]
        chk.count(("capi", json.dumps(c, sort_keys=True)))
        key = f"c15:capi:ext={c['ext']['fl']}.{c['ext']['pl']}:tla={c['tla']['fl']}.{c['tla']['pl']}:jp={c['jp']}:inp={c['inp']}:out={c['out']}:stack={c['stack']}"
        desc = {"config": c, "calls": {k: v for k, v in cmd.items() if k not in ("dir", "id")}}
        if r["k"] != "capi":
            chk.disagree(key, desc, outcome, r, "libjsonnet aborted the process" if r["k"] == "crash" else "tool error")
            continue
        if outcome["k"] == "err":
            if r["err"] == 0:
                chk.disagree(key, desc, outcome, r, "libjsonnet reports success where the configuration denotes an error")
            continue
        if r["err"] != 0:
            chk.disagree(key, desc, outcome, r, "libjsonnet reports an error where the library computes a value")
            continue
        exp = expected_value(outcome)
        try:
            if c["out"] == "json":
                ok = common.json_equal(json.loads(r["text"]), exp)
            elif c["out"] == "fstring":
                ok = r["text"].strip() == libout[i][None]["out"].strip()
            elif c["out"] == "multi":
                lst = r["list"]
                ok = lst[0::2] == ["a.json", "b.json"] and common.json_equal(json.loads(lst[1]), exp) and common.json_equal(json.loads(lst[3]), exp["t"])
            else:
                lst = r["list"]
                ok = len(lst) == 2 and common.json_equal(json.loads(lst[0]), exp) and common.json_equal(json.loads(lst[1]), exp["t"])
        except Exception:
            ok = False
        if not ok:
            chk.disagree(key, desc, exp, r, "libjsonnet returns different text for this configuration")

    # ---- C API callbacks (native functions, import callback)
    cb = rs[3].replay
    bcmds = []
    root = os.path.join(work, "virt")
    os.makedirs(root, exist_ok=True)
    VIRT = {"leaf": ({"main.jsonnet": 'import "a.libsonnet"', "a.libsonnet": "{v: 1}"}, {"v": 1}),
            "chain": ({"main.jsonnet": 'import "a.libsonnet"', "a.libsonnet": '(import "b.libsonnet") {w: 2}', "b.libsonnet": "{v: 1}"}, {"v": 1, "w": 2}),
            "missing": ({"main.jsonnet": 'import "nope.libsonnet"'}, None),
            "relative": ({"main.jsonnet": 'import "d/a.libsonnet"', "d/a.libsonnet": '(import "b.libsonnet") {w: 2}', "d/b.libsonnet": "{v: 1}"}, {"v": 1, "w": 2}),
            "twice": ({"main.jsonnet": '[import "a.libsonnet", import "a.libsonnet", importstr "e.txt"]', "a.libsonnet": "{v: 1}", "e.txt": ""}, [{"v": 1}, {"v": 1}, ""])}
    for case in cb:
        c = case["c"]
        if c["cb"] == "native":
            params = [f"p{i}" for i in range(c["n"])]
            args = ", ".join(str(i + 1) for i in range(c["given"]))
            bcmds.append({"id": len(bcmds), "dir": root, "src": f'std.native("f")({args})', "natives": [{"name": "f", "params": params, "kind": c["f"]}]})
        else:
            for mode in ("file", "snippet"):
                cmd = {"id": len(bcmds), "dir": root, "virtual": VIRT[c["g"]][0], "_case": case}
                if mode == "file":
                    cmd["file"] = "main.jsonnet"
                else:
                    cmd["src"] = VIRT[c["g"]][0]["main.jsonnet"]
                    cmd["name"] = "snippet.jsonnet"
                bcmds.append(cmd)
    bcases = []
    for case in cb:
        bcases += [case] if case["c"]["cb"] == "native" else [case, case]
    bres = run_capi(so, [{k: v for k, v in c.items() if k != "_case"} for c in bcmds])
    chk.extra["callback_cases"] = len(bcmds)
    for case, cmd, r in zip(bcases, bcmds, bres):
        c = case["c"]
        chk.count(("callback", json.dumps(c, sort_keys=True), "file" in cmd))
        key = (f"c15:capi:native:{c['f']}:params={c['n']}:args={c['given']}" if c["cb"] == "native"
               else f"c15:capi:importcb:{c['g']}:{'file' if 'file' in cmd else 'snippet'}")
        desc = {k: v for k, v in cmd.items() if k not in ("_case", "dir")}
        if r["k"] != "capi":
            chk.disagree(key, desc, c["out"], r, "libjsonnet aborted the process" if r["k"] == "crash" else "tool error")
            continue
        if c["out"]["k"] == "err":
            if r["err"] == 0:
                chk.disagree(key, desc, c["out"], r, "libjsonnet reports success where the callback case denotes an error")
            continue
        if c["cb"] == "native":
            exp = sum(range(1, c["given"] + 1)) if c["f"] == "sum" else {"xs": list(range(1, c["given"] + 1)) + ["s", True, None]}
        else:
            exp = VIRT[c["g"]][1]
        try:
            ok = r["err"] == 0 and common.json_equal(json.loads(r["text"]), exp)
        except Exception:
            ok = False
        if not ok:
            chk.disagree(key, desc, exp, r, "libjsonnet returns a different result through the callback")

    # ---- jrsonnet-deps
    dexe = os.path.join(bindir, "jrsonnet-deps")
    graphs = rs[2].replay
    rng.shuffle(graphs)
    graphs = graphs[:(4000 if thorough else 600)]
    chk.extra["import_graphs"] = len(graphs)

    def run_deps(ig):
        i, g = ig
        d = os.path.join(work, f"g{i}")
        files = deps_tree(g, random.Random(i))
        shutil.rmtree(d, ignore_errors=True)
        os.makedirs(d)
        for n, t in files.items():
            open(os.path.join(d, n), "w").write(t)
        p = subprocess.run([dexe, "f1.jsonnet"], cwd=d, stdout=subprocess.PIPE, stderr=subprocess.PIPE, timeout=60)
        shutil.rmtree(d, ignore_errors=True)
        return files, p.returncode, p.stdout.decode(), p.stderr.decode()
    with ThreadPoolExecutor(max_workers=14) as ex:
        dres = list(ex.map(run_deps, enumerate(graphs)))
    ecmds = [{"cmd": "eval", "id": i, "files": files, "via": "file", "main": "f1.jsonnet", "record_imports": True} for i, (files, _, _, _) in enumerate(dres)]
    eres2 = run_cmds(ecmds, timeout_per_case=20)
    for g, (files, rc, out, err), ev in zip(graphs, dres, eres2):
        chk.count(("deps", json.dumps(sorted((e["from"], e["to"], e["kind"]) for e in g["edges"]))))
        sig = ",".join(f"{e['from']}{'i' if e['kind'] == 'import' else 's' if e['kind'] == 'importstr' else 'b'}{e['to']}" for e in sorted(g["edges"], key=lambda e: (e["from"], e["to"], e["kind"])))
        key = f"c15:deps:{sig}"
        desc = {"files": files}
        exp = {f"f{n}.jsonnet" for n in g["deps"]}
        if rc != 0:
            chk.disagree(key, desc, sorted(exp), {"k": "exit", "rc": rc, "stderr": err[-300:]}, "jrsonnet-deps fails on a tree whose files all exist and parse")
            continue
        got = {os.path.basename(l) for l in out.split("\n") if l.strip()}
        if got - {"f1.jsonnet"} != exp - {"f1.jsonnet"}:
            chk.disagree(key, desc, sorted(exp), {"k": "deps", "listed": sorted(got)}, "jrsonnet-deps does not list exactly the files reachable through imports")
            continue
        loaded = {os.path.basename(x.get("path", "")) for x in ev.get("resolver_log", []) if x.get("op") == "load"}
        loaded.discard("f1.jsonnet")
        if not loaded <= got:
            chk.disagree(key, desc, sorted(exp), {"k": "loaded", "listed": sorted(got), "loaded": sorted(loaded)}, "an evaluation loads a file that jrsonnet-deps does not list")
    # ---- jrsonnet-deps over two directories (every graph of up to four reached import sites)
    graphs2 = rs[4].replay
    chk.extra["import_graphs_two_directories"] = len(graphs2)

    def run_deps2(ig):
        i, g = ig
        d = os.path.join(work, f"h{i}")
        files = deps2_tree(g, random.Random(i))
        shutil.rmtree(d, ignore_errors=True)
        os.makedirs(os.path.join(d, "d"))
        for n, t in files.items():
            open(os.path.join(d, n), "w").write(t)
        p = subprocess.run([dexe, "g1.jsonnet"], cwd=d, stdout=subprocess.PIPE, stderr=subprocess.PIPE, timeout=60)
        shutil.rmtree(d, ignore_errors=True)
        got = {os.path.relpath(l.strip(), os.path.realpath(d)) if os.path.isabs(l.strip()) else os.path.normpath(l.strip()) for l in p.stdout.decode().split("\n") if l.strip()}
        return files, p.returncode, got, p.stderr.decode()
    with ThreadPoolExecutor(max_workers=14) as ex:
        dres2 = list(ex.map(run_deps2, enumerate(graphs2)))
    for g, (files, rc, got, err) in zip(graphs2, dres2):
        sig = ",".join(sorted(f"{path2(e['from'])[:-8]}{'i' if e['kind'] == 'import' else 's'}{'d/' if e['sub'] else ''}g{e['name']}" for e in g["edges"]))
        chk.count(("deps2", sig))
        key = f"c15:deps2:{sig}"
        exp = {path2(f) for f in g["deps"]}
        if rc != 0:
            chk.disagree(key, {"files": files}, sorted(exp), {"k": "exit", "rc": rc, "stderr": err[-300:]}, "jrsonnet-deps fails on a tree whose files all exist and parse")
        elif got - {"g1.jsonnet"} != exp - {"g1.jsonnet"}:
            chk.disagree(key, {"files": files}, sorted(exp), {"k": "deps", "listed": sorted(got)},
                         "jrsonnet-deps does not list exactly the files reachable through imports (two directories)")
    shutil.rmtree(work, ignore_errors=True)
    chk.sample({"config": cases[len(cases) // 2]["c"], "argv": argv_of(cases[len(cases) // 2]["c"])})
    chk.assumptions += ["right-most -J wins (jsonnet command line convention); JSONNET_PATH is left to C07",
                        "libjsonnet text is compared as JSON (its indentation is its own), error flag exactly"]


def run_capi(so, cmds):
    worker = os.path.join(os.path.dirname(os.path.dirname(__file__)), "capi_worker.py")
    results, pos = [], 0
    while pos < len(cmds):
        batch = cmds[pos:]
        inp = "\n".join(json.dumps(c) for c in batch) + "\n"
        p = subprocess.run(["python3", worker, so], input=inp.encode(), stdout=subprocess.PIPE, stderr=subprocess.PIPE, timeout=1800)
        got = []
        for l in p.stdout.decode("utf-8", "replace").split("\n"):
            if l.strip():
                try:
                    got.append(json.loads(l))
                except Exception:
                    break
        results.extend(got[:len(batch)])
        pos += len(got)
        if len(got) < len(batch):
            results.append({"k": "crash", "how": f"exit {p.returncode}", "msg": p.stderr.decode("utf-8", "replace")[-400:]})
            pos += 1
    return results


def finish(chk):
    return chk.finish(rule="configurations: all single ext x tla flavour/payload pairs with defaults + a seeded sample of the full product "
                           "(search path x input x 13 output modes x stack limit); import graphs: sample of all graphs over 3 files with <= 4 edges", exhaustive=False)


def replay(case):
    c = case["case"]
    print(json.dumps(c, indent=1)[:3000])
    print("expected:", case["expected"])
    print("observed:", json.dumps(case["observed"])[:1500])
    return 0
