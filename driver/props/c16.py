"""C16 - results are deterministic and independent of history.

spec:  Determinism.tla (memo : (program, configuration) -> output; Observe is enabled only for an output equal to
       the first one observed, whatever the context), Total.tla (histories of outcome classes on a thread).
bind:  every program x configuration is evaluated in many contexts - 5 fresh processes (address-space layout and
       therefore interned-string hashes differ), a fresh State on a thread that lived through a TLC-enumerated
       history, a long-lived State that evaluated the history and other programs before, and after pre-interning
       1 / 1000 / 50000 strings; every observation (digest of manifestation or error text + trace + std.trace
       output) is a line of a trace validated by Trace_Determinism.tla."""
import hashlib
import json
import random
import re

import common
import corpus
import render
from common import run_cmds, run_tlc_many

GEN_FAMS = ["objects", "calls", "index", "ops"]
STYLE_MIN = {"full": False, "sugar": True, "dot": True, "ident_fields": True}

NAMES = ["quux", "alpha", "zeta", "beta", "omega", "gamma", "k1", "k10", "k2", "K", "_u", "delta", "eta", "theta",
         "iota", "kappa", "lambda", "mu", "nu", "xi", "pi", "rho"]


def big_obj(order, val="i"):
    return "{" + ", ".join(f"{n}: {i if val == 'i' else repr(n)}" for i, n in enumerate(order)) + "}"


def hazards():
    r = random.Random(16)
    o1 = NAMES
    o2 = list(reversed(NAMES))
    o3 = NAMES[:]
    r.shuffle(o3)
    out = {}
    for tag, o in (("o1", o1), ("o2", o2), ("o3", o3)):
        b = big_obj(o)
        out[f"obj.manifest.{tag}"] = b
        out[f"obj.fields.{tag}"] = f"std.objectFields({b})"
        out[f"obj.values.{tag}"] = f"std.objectValues({b})"
        out[f"obj.kv.{tag}"] = f"std.objectKeysValues({b})"
        out[f"obj.tostring.{tag}"] = f"std.toString({b})"
        out[f"obj.mwk.{tag}"] = f"std.mapWithKey(function(k, v) k + v, {b})"
        out[f"obj.comp.{tag}"] = "{[k]: std.length(k) for k in " + json.dumps(o) + "}"
        out[f"obj.yaml.{tag}"] = f"std.manifestYamlDoc({b})"
        out[f"obj.toml.{tag}"] = f"std.manifestTomlEx({b}, '  ')"
        out[f"obj.python.{tag}"] = f"std.manifestPython({b})"
        out[f"obj.ini.{tag}"] = f"std.manifestIni({{main: {b}, sections: {{s: {b}}}}})"
        out[f"obj.prune.{tag}"] = f"std.prune({b} + {{e1: null, e2: [], e3: {{}}}})"
        out[f"obj.trace.{tag}"] = f"std.trace(std.toString({b}), 1)"
    out["obj.merge"] = f"{big_obj(o1[:12])} + {big_obj(o2[:14], 'n')} + {{alpha+: 1, zz:: 2, quux::: 3}}"
    out["obj.mergepatch"] = f"std.mergePatch({big_obj(o1)}, {big_obj(o3[:10], 'n')} + {{mu: null, nu: null}})"
    out["obj.super"] = f"({big_obj(o1)} + {{all: [super[k] for k in std.objectFields(super)]}}).all"
    out["obj.hidden"] = "std.objectFieldsAll({" + ", ".join(f"{n}{':' * (1 + i % 3)} {i}" for i, n in enumerate(o3)) + "})"
    out["obj.parsejson"] = "std.parseJson(" + common.jstr(json.dumps({n: i for i, n in enumerate(o3)})) + ")"
    out["obj.parseyaml"] = "std.parseYaml(" + common.jstr("\n".join(f"{n}: {i}" for i, n in enumerate(o3))) + ")"
    out["obj.removekey"] = f"std.objectRemoveKey({big_obj(o3)}, 'mu')"
    out["obj.equals"] = f"{big_obj(o1)} == {big_obj(o2)}"
    # did-you-mean with tied similarity
    out["dym.field"] = "{aab: 1, aac: 2, aad: 3, aae: 4, aaf: 5, aag: 6}.aaa"
    out["dym.field.rev"] = "{aag: 1, aaf: 2, aae: 3, aad: 4, aac: 5, aab: 6}.aaa"
    out["dym.local"] = "local aab = 1, aac = 2, aad = 3, aae = 4, aaf = 5, aag = 6; aaa"
    out["dym.local.nested"] = "local aab = 1; local aac = 2; local aad = 3; function(aae, aaf) aaa"
    out["dym.local.call"] = "local aab = 1; local aac = 2; (function(aad, aae, aaf) aaa)(1, 2, 3)"
    out["dym.std"] = "std.lenght([1])"
    out["dym.std2"] = "std.objectField({})"
    out["dym.self"] = "{foo1: 1, foo2: 2, foo3: 3, foo4: 4, r: self.foo}.r"
    out["dym.super"] = "{foo1: 1, foo2: 2, foo3: 3} + {r: super.foo}"
    out["dym.param"] = "(function(aab, aac, aad) 1)(aaa=1)"
    out["dym.objcomp"] = "local o = {['aa' + c]: 1 for c in ['b', 'c', 'd', 'e', 'f']}; o.aaa"
    # several places can fail
    out["err.fields"] = "{a: error 'A', b: error 'B', c: error 'C'}"
    out["err.fields.rev"] = "{c: error 'C', b: error 'B', a: error 'A'}"
    out["err.array"] = "[error 'A', error 'B']"
    out["err.asserts"] = "{assert false : 'A1', assert false : 'A2', a: 1}"
    out["err.asserts.layers"] = "{assert false : 'L1', a: 1} + {assert false : 'L2'} + {assert false : 'L3'}"
    out["err.binary"] = "(error 'L') + (error 'R')"
    out["err.args"] = "(function(a, b) a + b)(error 'A', error 'B')"
    out["err.all"] = "std.all([error 'A', error 'B'])"
    out["err.nested"] = "{a: {z: error 'Z', y: error 'Y'}, b: [error 'B']}"
    out["err.bigobj"] = "{" + ", ".join(f"{n}: error '{n}'" for n in o3) + "}"
    out["err.set"] = "std.set([1, 'a', null])"
    out["err.sort"] = "std.sort([{}, 1, 'x'])"
    out["err.missing.params"] = "(function(a, b, c, d) 1)()"
    out["err.unknown.named"] = "(function(a) 1)(zz=1, yy=2, xx=3)"
    out["err.trace.deep"] = "local f(x) = if x == 0 then error 'bottom' else f(x - 1) + 1; {a: f(5)}"
    # std.trace output and order
    out["trace.order"] = "std.trace('t1', 1) + std.trace('t2', 2) + std.trace('t3', 3)"
    out["trace.fields"] = "{b: std.trace('b', 2), a: std.trace('a', 1), c: [std.trace('c' + i, i) for i in [3, 1, 2]]}"
    out["trace.obj"] = f"std.trace({big_obj(o3)}, null)"
    # sets / sorting / ties
    out["set.strings"] = "std.set(" + json.dumps(o3 + o1[:5]) + ")"
    out["set.keyf.ties"] = "std.set([{k: 1, v: 'a'}, {k: 1, v: 'b'}, {k: 0, v: 'c'}, {k: 1, v: 'd'}], function(x) x.k)"
    out["sort.keyf.ties"] = "std.sort([{k: 1, v: 'a'}, {k: 0, v: 'b'}, {k: 1, v: 'c'}, {k: 0, v: 'd'}, {k: 1, v: 'e'}], function(x) x.k)"
    out["uniq.keyf"] = "std.uniq([{k: 1, v: 'a'}, {k: 1, v: 'b'}, {k: 0, v: 'c'}], function(x) x.k)"
    out["setops"] = "[std.setUnion(['a', 'c'], ['b', 'c']), std.setInter(['a', 'c'], ['b', 'c']), std.setDiff(['a', 'c'], ['c'])]"
    out["hash"] = "[std.md5('x'), std.sha1('x'), std.sha256('x'), std.sha512('x'), std.sha3('x')]"
    out["strings.many"] = "[std.toString(i) + 'k' for i in std.range(1, 300)]"
    out["strings.fields.many"] = "{['f' + i]: i for i in std.range(1, 300)}"
    out["ext.all"] = "[std.extVar('a'), std.extVar('b'), std.extVar('c')]"
    out["tla.sum"] = "function(a, b='B', c='C') [a, b, c]"
    out["tla.two"] = "function(a, b) [a, b]"
    out["tla.one"] = "function(a) a"
    out["tla.notfunc"] = "{a: 1}"
    # imports of files that fail, through different importers (the per-state file cache must not remember a failure as anything else)
    out["imp.err.direct"] = "import 'err.libsonnet'"
    out["imp.err.field"] = "{x: import 'err.libsonnet'}.x"
    out["imp.err.local"] = "local e = import 'err.libsonnet'; [1, e][1]"
    out["imp.err.lazy"] = "local e = import 'err.libsonnet'; {a: 1, b:: e}"
    out["imp.assert.direct"] = "import 'chk.libsonnet'"
    out["imp.assert.field"] = "(import 'chk.libsonnet').replicas"
    out["imp.ok.then"] = "[import 'ok.libsonnet', importstr 'ok.libsonnet']"
    out["imp.deep"] = "local f(n) = if n == 0 then (import 'ok.libsonnet').v else 1 + f(n - 1); f(40)"
    out["imp.mix"] = "local a = import 'ok.libsonnet'; {v: a.v, e: (import 'err.libsonnet')}"
    return out


FILES = {"err.libsonnet": "error 'E'", "chk.libsonnet": "{assert self.replicas > 0 : 'replicas must be positive', replicas: 0}",
         "ok.libsonnet": "{v: 7}"}


CONFIGS = {
    "min": {}, "stack": {}, "default": {"manifest": "default"}, "yaml": {"manifest": "yaml2"}, "string": {"manifest": "tostring"},
    "ext.ok": {"ext": {"a": {"str": "A"}, "b": {"code": "1 + 1"}, "c": {"code": "{x: 1}"}}},
    "ext.err": {"ext": {"a": {"code": "error 'EA'"}, "b": {"code": "error 'EB'"}, "c": {"code": "1 +"}}},
    "ext.missing": {"ext": {"a": {"str": "A"}}},
    "tla.ok": {"tla": {"a": {"str": "A"}, "b": {"code": "[1]"}}},
    "tla.err": {"tla": {"a": {"code": "error 'TA'"}, "b": {"code": "error 'TB'"}}},
    "tla.files.missing": {"tla": {"a": {"code_file": "m1.jsonnet"}, "b": {"code_file": "m2.jsonnet"}, "c": {"str_file": "m3.txt"}}},
    "tla.unknown": {"tla": {"x1": {"str": "1"}, "y2": {"str": "2"}, "z3": {"str": "3"}, "w4": {"str": "4"}}},
    "tla.unknown2": {"tla": {"a": {"str": "1"}, "y2": {"str": "2"}, "z3": {"str": "3"}}},
    "tla.syntax": {"tla": {"a": {"code": "1 +"}, "b": {"code": "2 +"}, "c": {"code": "3 +"}}},
}


def configs_for(name):
    if name.startswith("ext."):
        return ["ext.ok", "ext.err", "ext.missing"]
    if name.startswith("tla."):
        return [c for c in CONFIGS if c.startswith("tla.")] + ["min"]
    if name == "imp.deep":
        return ["min", "stack"]
    if name.startswith(("obj.manifest", "obj.merge", "err.fields", "err.nested", "trace.fields")):
        return ["min", "default", "yaml", "string"]
    return ["min"]


HIST_PROG = {
    "val": ("{a: 1, b: [self.a, 'x']}", None), "err": ("error 'x'", None), "type": ("1 + {}", None),
    "stack": ("local f(n) = 1 + f(n + 1); f(0)", 30), "infrec": ("local a = a; a", None),
    "assert_manifest": ("{assert self.a == 2 : 'no', a: 1, b: self.a}", None), "syntax": ("1 +", None),
    "import": ("import 'does/not/exist.jsonnet'", None),
}
DIR_RE = re.compile(r"c\d+_\d+")


def digest(r):
    keep = {k: r.get(k) for k in ("k", "out", "class", "msg", "trace", "traces", "how")}
    t = DIR_RE.sub("<dir>", json.dumps(keep, sort_keys=True, ensure_ascii=True))
    return hashlib.sha256(t.encode()).hexdigest()[:24], t


def run(chk):
    thorough = chk.tier == "thorough"
    rng = random.Random(chk.seed)
    rs = run_tlc_many([dict(module="Determinism", cfg="MC_Determinism.cfg", workers=2),
                       dict(module="Total", cfg="MC_Total.cfg", workers=2)], parallel=2)
    chk.add_tlc(rs[0], "Determinism: Functional, TypeOK")
    chk.add_tlc(rs[1], "Total: histories")
    gens = run_tlc_many([dict(module="MC_Core", cfg=f"MC_Core_{f}.cfg", workers=4, timeout=3000, xmx="6g", java_opts=("-Xss512m",))
                         for f in GEN_FAMS], parallel=4)
    generated = []
    for f, r in zip(GEN_FAMS, gens):
        chk.add_tlc(r, f"MC_Core_{f}.cfg: programs of the core semantics (sources for observation)")
        generated += [c for c in r.replay if c["out"]["k"] != "oom"]
    histories = [h["hist"] for h in rs[1].replay]
    rng.shuffle(histories)
    histories = histories[:(40 if thorough else 8)]

    progs = dict(hazards())
    for i, s in enumerate(corpus.CYCLIC + corpus.ERRORING):
        progs[f"corpus.{i}"] = s
    repo = [(n, s) for n, s in corpus.repo_programs() if len(s) < 20000]
    if not thorough:
        rng.shuffle(repo)
        repo = repo[:150]
    for n, s in repo:
        progs[n] = s
    rng.shuffle(generated)
    for c in generated[:(6000 if thorough else 500)]:
        src = render.ast_src(c["p"], STYLE_MIN)
        progs["gen." + common.stable_id(c["p"])] = src
    items = []                      # (pname, cname, cmd)
    for pn, src in sorted(progs.items()):
        for cn in configs_for(pn):
            cmd = {"cmd": "eval", "src": src, "want_trace": True}
            if pn.startswith("imp."):
                cmd["files"] = FILES
                if pn == "imp.deep" and cn == "stack":
                    cmd["max_stack"] = 30
            cmd.update(CONFIGS[cn])
            items.append((pn, cn, cmd))
    chk.extra["programs"] = len(progs)
    chk.extra["program_configs"] = len(items)

    lines, lmeta = [], []

    def observe(pn, cn, ctx, r):
        d, text = digest(r)
        lines.append({"ev": "Observe", "p": pn, "c": cn, "ctx": ctx, "out": d})
        lmeta.append((pn, cn, ctx, text))
        chk.count((pn, cn))

    def numbered(cmds):
        out = []
        for i, c in enumerate(cmds):
            c = dict(c)
            c["id"] = i
            out.append(c)
        return out

    # ---- context A: fresh processes
    reps = 8 if thorough else 5
    cmdsA = numbered([it[2] for it in items] * reps)
    resA = run_cmds(cmdsA, chunk=1, timeout_per_case=60)
    for k, r in enumerate(resA):
        pn, cn, _ = items[k % len(items)]
        observe(pn, cn, f"fresh-process#{k // len(items)}", r)

    # ---- contexts B, C, D: one worker process each; many in parallel
    def hist_cmds(h):
        out = []
        for c in h:
            src, ms = HIST_PROG[c]
            cmd = {"cmd": "eval", "src": src}
            if ms:
                cmd["max_stack"] = ms
            out.append(cmd)
        return out

    jobs = []                       # (ctx, cmds, index map: result position -> item index or None)
    for hi, h in enumerate(histories):
        order = list(range(len(items)))
        random.Random(hi).shuffle(order)
        pre = hist_cmds(h)
        jobs.append((f"fresh-state-used-thread:{'/'.join(h)}", pre + [items[i][2] for i in order], [None] * len(pre) + order, False))
        # long-lived State: the history and then the programs are steps of one State
        # (steps with different ext settings share the State; tla is per step)
        jobs.append((f"long-lived-state:{'/'.join(h)}", pre + [items[i][2] for i in order], [None] * len(pre) + order, True))
    for n in (1, 1000, 50000):
        order = list(range(len(items)))
        random.Random(n).shuffle(order)
        jobs.append((f"pre-interned:{n}", [{"cmd": "preintern", "n": n}] + [items[i][2] for i in order], [None] + order, False))

    def run_job(job):
        ctx, cmds, idx, steps = job
        if steps:
            stepc = [{k: v for k, v in c.items() if k != "cmd"} for c in cmds]
            # a max_stack override inside steps stays local to its step (limit guard is dropped at step end)
            r = run_cmds([{"cmd": "eval", "id": 0, "files": FILES, "steps": stepc}], parallel=1, timeout_per_case=600)[0]
            res = r.get("results") if r.get("k") == "seq" else [r] * len(cmds)
        else:
            res = run_cmds(numbered(cmds), parallel=1, chunk=len(cmds), timeout_per_case=60)
        return res

    from concurrent.futures import ThreadPoolExecutor
    common.build_harness()
    with ThreadPoolExecutor(max_workers=14) as ex:
        results = list(ex.map(run_job, jobs))
    for (ctx, cmds, idx, steps), res in zip(jobs, results):
        for pos, r in zip(idx, res):
            if pos is None:
                continue
            pn, cn, _ = items[pos]
            observe(pn, cn, ctx, r)
    chk.extra["contexts"] = reps + len(jobs)

    # ---- the composed system: TLC-enumerated schedules of evaluations on one State, recorded and validated against System.tla
    system_traces(chk, thorough, rng)

    # ---- impl -> spec: all observations of one program stay in one TLC run
    groups = {}
    for i, l in enumerate(lines):
        groups.setdefault(l["p"], []).append(i)
    rej = common.validate_groups(chk, "Trace_Determinism", "Trace_Determinism.cfg", lines, list(groups.values()), "det", parallel=8)
    first = {}
    for i, (pn, cn, ctx, text) in enumerate(lmeta):
        first.setdefault((pn, cn), (ctx, text))
    seen = set()
    for i in rej:
        pn, cn, ctx, text = lmeta[i]
        if (pn, cn) in seen:
            continue
        seen.add((pn, cn))
        fctx, ftext = first[(pn, cn)]
        cfg = CONFIGS[cn]
        chk.disagree(f"c16:{pn}:{cn}", {"src": progs[pn], "config": cfg, "first_context": fctx, "context": ctx},
                     ftext[:600], {"k": "differs", "observed": text[:600]},
                     f"output differs between contexts ({fctx} vs {ctx})")
    chk.sample({"program": "dym.local", "src": progs["dym.local"], "contexts": [j[0] for j in jobs[:4]]})
    chk.assumptions += ["outputs are compared after replacing the per-evaluation scratch directory name",
                        "native-stack exhaustion and resource limits are outside the compared behaviour"]


SYS_FILES = {"a.libsonnet": "{a: import 'b.libsonnet'}", "b.libsonnet": "{b: 1}", "d.txt": "text", "bad.libsonnet": {"dir": True},
             "err.libsonnet": "error 'E'"}
SYS_PROGS = {"p1": ("import 'a.libsonnet'", None), "p2": ("[import 'a.libsonnet', import 'b.libsonnet', importstr 'd.txt']", None),
             "p3": ("import 'bad.libsonnet'", None), "p4": ("import 'missing.libsonnet'", None), "p5": ("import 'err.libsonnet'", None),
             "p6": ("local f(n) = 1 + f(n + 1); f(0)", 30), "p7": ("{assert self.a == 2 : 'no', a: 1, b: self.a}", None),
             "p8": ("local a = [error 'x']; {v: std.length(a)}", None)}
SYS_NAME = {"a.libsonnet": "a", "b.libsonnet": "b", "d.txt": "d", "bad.libsonnet": "bad", "err.libsonnet": "err", "missing.libsonnet": "missing"}


def system_traces(chk, thorough, rng):
    rs = run_tlc_many([dict(module="MC_System", cfg="MC_System.cfg", workers=4), dict(module="Gen_System", cfg="Gen_System.cfg", workers=4)], parallel=2)
    chk.add_tlc(rs[0], "System: IdleClean, ReadOnce, EnteredWhileRunning, Functional, Reclaimed, CacheMonotone")
    chk.add_tlc(rs[1], "System: schedules of evaluations on one state")
    scheds = sorted({tuple(c["hist"]) for c in rs[1].replay})
    if not thorough:
        rng.shuffle(scheds)
        scheds = scheds[:150]
    cmds = []
    for i, sch in enumerate(scheds):
        steps = []
        for p in sch:
            st = {"src": SYS_PROGS[p][0], "want_events": True}
            if SYS_PROGS[p][1]:
                st["max_stack"] = SYS_PROGS[p][1]
            steps.append(st)
        cmds.append({"cmd": "eval", "id": i, "files": SYS_FILES, "want_events": True, "want_gc": True, "steps": steps})
    res = run_cmds(cmds, timeout_per_case=60)
    lines, where = [], []
    for sch, r in zip(scheds, res):
        chk.count(("system", sch))
        def add(e):
            lines.append(e)
            where.append(sch)
        add({"ev": "NewState"})
        add({"ev": "Enter"})
        if r["k"] != "seq":
            add({"ev": "Begin", "p": sch[0]})
            add({"ev": "End", "out": "crash", "depth": 0, "asserting": 0})
            # the worker died: the thread's state is gone with it; start the next schedule from a clean model state
            add({"ev": "Leave", "entered": False})
            add({"ev": "DropState"})
            add({"ev": "Collect", "before": 0, "after": 0})
            continue
        for p, s in zip(sch, r["results"]):
            add({"ev": "Begin", "p": p})
            for e in s.get("events", []):
                if e.get("site") == "imp" and e.get("what") in ("load", "hit"):
                    add({"ev": "Load" if e["what"] == "load" else "Hit", "f": SYS_NAME.get((e.get("key") or "").split("/")[-1], "?")})
            add({"ev": "End", "out": s["k"] if s["k"] in ("val", "err") else "crash", "depth": s.get("depth", 0), "asserting": s.get("asserting", 0)})
        add({"ev": "Leave", "entered": bool(r.get("entered_after", False))})
        add({"ev": "DropState"})
        gc = r.get("gc") or {"before": 0, "after": 0}
        add({"ev": "Collect", "before": gc["before"], "after": gc["after"]})
    # one state lifetime after the other in a few long traces (the memo of System spans them all)
    n = len(lines)
    chunk = max(1, (n + 5) // 6)
    groups, cur = [], []
    for i, e in enumerate(lines):
        cur.append(i)
        if e["ev"] == "Collect" and len(cur) >= chunk:
            groups.append(cur)
            cur = []
    if cur:
        groups.append(cur)
    seen = set()
    for li in common.validate_groups(chk, "Trace_System", "Trace_System.cfg", lines, groups, "system", parallel=6):
        sch = where[li]
        key = f"c16:system:{'/'.join(sch)}:{lines[li]['ev']}"
        if key in seen:
            continue
        seen.add(key)
        chk.disagree(key, {"schedule": list(sch), "files": {k: v for k, v in SYS_FILES.items() if isinstance(v, str)}, "programs": {p: SYS_PROGS[p][0] for p in sch}},
                     "a step of System.tla", {"k": "event", "event": lines[li]}, f"the recorded {lines[li]['ev']} event is not a step of the composed system specification")
    chk.extra["system_schedules"] = len(scheds)


def finish(chk):
    return chk.finish(rule="every program x configuration (hazard programs for hash-order, did-you-mean ties, multiple failure sites, "
                           "std.trace, ext/tla arguments; cyclic/erroring corpora; repository test programs) observed in 5+ fresh "
                           "processes, after TLC-enumerated histories on a used thread, inside a long-lived State, and after pre-interning; "
                           "distinct = (program, configuration)", exhaustive=False)


def replay(case):
    c = case["case"]
    if "schedule" in c:
        steps = [{"src": SYS_PROGS[p][0], "want_events": True, **({"max_stack": SYS_PROGS[p][1]} if SYS_PROGS[p][1] else {})} for p in c["schedule"]]
        r = run_cmds([{"cmd": "eval", "id": 0, "files": SYS_FILES, "want_events": True, "want_gc": True, "steps": steps}])[0]
        for p, s2 in zip(c["schedule"], r.get("results", [])):
            print(p, SYS_PROGS[p][0], "=>", s2["k"], [(e["what"], (e.get("key") or "").split("/")[-1]) for e in s2.get("events", []) if e.get("site") == "imp"], "depth", s2.get("depth"), "asserting", s2.get("asserting"))
        print("gc", r.get("gc"), "entered_after", r.get("entered_after"))
        print("rejected event:", case["observed"])
        return 0
    cmd = {"cmd": "eval", "id": 0, "src": c["src"], "want_trace": True}
    cmd.update(c.get("config") or {})
    outs = set()
    for _ in range(12):
        r = run_cmds([cmd], chunk=1)[0]
        outs.add(digest(r)[1])
    print("source:", c["src"][:400])
    print(f"{len(outs)} distinct output(s) over 12 fresh processes:")
    for o in sorted(outs):
        print("  ", o[:400])
    return 0
