"""C17 - source text is never lost and reported positions are accurate.

spec:  Lexing.tla (cursor machine: tokens tile the text; the syntax tree spells the input), Position.tla (texts as
       sequences of characters with UTF-8 widths; LineCol of every character boundary; layouts of a program with an
       offending construct planted at a position computed from the layout).
bind:  (a) every C06 token sequence / literal (several joiners), random and mutated texts -> Lexer ranges and rowan
       tree text, recorded as Lex events validated by Trace_Lexing; (b) every text x boundary of Position "locate"
       replayed on Source::map_source_locations; (c) every layout of Position "planted" rendered and evaluated: line
       always, column when the prefix on the line is ASCII; (d) spans of the IR of generated programs: inside the text,
       on character boundaries, on token boundaries, labelled content, and invariant under re-spacing with
       non-ASCII comments and CRLF."""
import json
import random
import re

import common
import corpus
import render
from common import run_cmds, run_tlc_many
from props import c06

CH = {"a": "a", "e2": "é", "e3": "€", "e4": "\U0001F600", "nl": "\n", "cr": "\r"}
JOINERS = [" ", "", "\n", "\t", "/*c*/", " # é\n", "\r\n", " /* \U0001F600\n */ "]

# ---------------------------------------------------------------- planted layouts (rendering of Position.tla's abstract layout)
LINE = {"blank": [""], "cmt": ["// note"], "cmt8": ["# é€\U0001F600 note"], "str8": ["local u8 = 'é€\U0001F600';"],
        "blk2": ["/* one", "   two */"], "blk8": ["/* ééé", " € */"]}
PREFIX = {"none": "", "sp2": "  ", "tab": "\t", "arr": "[1, ", "blk": "/* c */ ", "str8": "'é' + ", "blk8": "/* éé */"}
SUFFIX = {"none": "", "sp2": "", "tab": "", "arr": "]", "blk": "", "str8": "", "blk8": ""}
CONSTRUCT = {"error": "error 'boom'", "assert": "assert false : 'm'; 1", "nofield": "{}.foo", "undefvar": "undefinedvar",
             "call": "local f(x) = x; f(1, 2)", "mlcall": "local f(x) = x; f(1,{eol}      2)", "builtin": "std.length(1)", "syntax": "1 + )", "trace": "std.trace('m', 1)"}
AFTER = {"none": [], "cmt8": ["# é after"], "blank": [""]}
POS_RE = re.compile(r"<snippet>:(\d+):(\d+)")


def render_planted(c):
    lines = []
    for kd in c["b"]:
        lines += LINE[kd]
    eol = "\r\n" if c["eol"] == "crlf" else "\n"
    own = PREFIX[c["p"]] + CONSTRUCT[c["c"]].replace("{eol}", eol) + SUFFIX[c["p"]]
    lines.append(own)
    lines += AFTER[c["a"]]
    src = eol.join(lines)
    # independent recomputation of the planted position from the rendered text
    before = lines[:len(lines) - 1 - len(AFTER[c["a"]])]
    line = len(before) + 1
    col = 1 + len(PREFIX[c["p"]]) + c["delta"]
    return src, line, col


# ---------------------------------------------------------------- tokens of the rendered subset (for re-spacing)
TOK_RE = re.compile(r'''
    (?P<ws>[ \t\r\n]+) | (?P<c1>//[^\n]*|\#[^\n]*) | (?P<c2>/\*.*?\*/) |
    (?P<str>@"(?:[^"]|"")*"|@'(?:[^']|'')*'|"(?:[^"\\]|\\.)*"|'(?:[^'\\]|\\.)*') |
    (?P<num>\d+(?:\.\d+)?(?:[eE][+-]?\d+)?) | (?P<id>[A-Za-z_][A-Za-z0-9_]*) |
    (?P<op>[-+*/%<>!~&|^=:]+|[;,.(){}\[\]$])
''', re.X | re.S)


def tokens_of(src):
    """non-trivia tokens of a program in the subset without text blocks, or None"""
    if "|||" in src:
        return None
    out, i = [], 0
    while i < len(src):
        m = TOK_RE.match(src, i)
        if not m or m.end() == i:
            return None
        if m.lastgroup not in ("ws", "c1", "c2"):
            out.append(m.group())
        i = m.end()
    return out


def layout(tokens, seps):
    """text and (byte start, byte end) of every token"""
    parts, pos, b = [], [], 0
    for i, t in enumerate(tokens):
        if i:
            s = seps[i % len(seps)] if isinstance(seps, list) else seps
            parts.append(s)
            b += len(s.encode())
        n = len(t.encode())
        pos.append((b, b + n))
        parts.append(t)
        b += n
    return "".join(parts), pos


def spans_of(ast):
    """[(path-kind, start, end, node)] for every span in a serialised AST (in traversal order)"""
    out = []

    def walk(x, ctx):
        if isinstance(x, dict):
            if "sp" in x:
                kind = x.get("t") or ("field" if "name" in x and "vis" in x else "part" if set(x) <= {"v", "sp"} else "wrapped" if "e" in x else ctx)
                out.append((kind, x["sp"][0], x["sp"][1], x))
            for k in sorted(x):
                if k in ("sp", "c", "m") and ("cw" in x):
                    continue                      # the assert's unwrapped copies duplicate cw/mw
                if k in ("start", "end", "step") and "partsw" in x:
                    continue
                walk(x[k], k)
        elif isinstance(x, list):
            for y in x:
                walk(y, ctx)
    walk(ast, "root")
    return out


def erase(x):
    if isinstance(x, dict):
        return {k: erase(v) for k, v in x.items() if k not in ("sp", "cw", "mw", "partsw")}
    if isinstance(x, list):
        return [erase(v) for v in x]
    return x


SPAN_PROGRAMS = [
    "local a = [1, 2, 3][0:2:1]; assert a == [1, 2] : \"msg\"; {x: a, [\"y\"]: 2, z(q): q, 'w'+: 3}.x",
    "std.length(x=[1]) + (if true then 1 else 2) + [i for i in [1, 2] if i > 0][0]",
    "{[k]: 1 for k in ['a', 'b'] if k != 'c'}", "import 'a.libsonnet'", "importstr \"b.txt\"", "importbin 'c.bin'",
    "local f(a, b=2) = a + b; f(1, b=3) tailstrict", "error 'x' + 'y'", "{assert self.a == 1 : 'm', a: 1, local b = 2, c:: b, d::: 3}",
    "function(x, y=1) x[y]", "local o = {a: {b: [1]}}; o.a.b[0] + o['a'][\"b\"][0]", "{a: 1} + {a+: 2} {b: super.a}",
    "[1, 2, 3][1:]", "'abc'[::2]", "if 1 < 2 then 'a'", "local a = 1, b = 2; a + b", "$.a", "{a: self.b, b: $.a}",
    "-1 + !true + ~2", "a.b.c(d)(e)[f]", "1 in {a: 1}", "'a' in super", "{ local x = 1, y: x }", "x { y: 1 }",
]

# ---------------------------------------------------------------- run

def run(chk):
    thorough = chk.tier == "thorough"
    rng = random.Random(chk.seed)
    n = 5 if thorough else 4
    jobs = [dict(module="Lexing", cfg="MC_Lexing.cfg", workers=2),
            dict(module="Position", cfg=f"MC_Position_locate_{6 if thorough else 5}.cfg", workers=6, xmx="8g"),
            dict(module="Position", cfg="MC_Position_planted.cfg", workers=4)]
    jobs += [dict(module="MC_Grammar", cfg=f"MC_Grammar_{f}_{n}.cfg", workers=5, timeout=3000, xmx="8g", java_opts=("-Xss512m",))
             for f in c06.FAMS]
    jobs += [dict(module="Lexical", cfg=f"MC_Lexical_{f}.cfg", workers=4, timeout=3000, java_opts=("-Xss512m",)) for f in c06.LEX]
    jobs += [dict(module="MC_Core", cfg=f"MC_Core_{f}.cfg", workers=4, timeout=3000, xmx="6g", java_opts=("-Xss512m",))
             for f in ("grammar", "prec", "calls")]
    rs = run_tlc_many(jobs, parallel=4)
    for j, r in zip(jobs, rs):
        chk.add_tlc(r, j["cfg"])
    locate_cases, planted_cases = rs[1].replay, rs[2].replay
    gram = [c for r in rs[3:3 + len(c06.FAMS)] for c in r.replay]
    lexi = [c for r in rs[3 + len(c06.FAMS):3 + len(c06.FAMS) + len(c06.LEX)] for c in r.replay]
    core = [c for r in rs[-3:] for c in r.replay if c["out"]["k"] != "oom"]

    # ---- (a) tiling and losslessness
    texts = []
    if not thorough:
        rng.shuffle(gram)
        gram = gram[:120000]
    for i, c in enumerate(gram):
        texts.append(JOINERS[i % len(JOINERS)].join(c["ts"]) if i % 3 else " ".join(c["ts"]))
    for c in lexi:
        for _, src, _ in c06.lex_sources(c):
            texts.append(src)
    alphabet = [chr(c) for c in range(32, 127)] + ["\n", "\t", "\r", "é", "€", "\U0001F600", "\x00", "\x7f", "|||", "'", '"', "/*", "*/", "//", "@'", "\\"]
    for _ in range(20000 if thorough else 5000):
        texts.append("".join(rng.choice(alphabet) for _ in range(rng.randint(0, 30))))
    valid = corpus.CYCLIC + corpus.ERRORING + [src for _, src in corpus.repo_programs()]
    texts += valid
    for _ in range(20000 if thorough else 4000):
        s = rng.choice(valid)
        i = rng.randrange(len(s))
        kind = rng.random()
        texts.append(s[:i] + ("" if kind < 0.3 else rng.choice(alphabet)) + (s[i + 1:] if kind < 0.7 else s[i:]))
    texts = sorted(set(texts))
    cmds = [{"cmd": "lex", "id": i, "src": t, "tree": True} for i, t in enumerate(texts)]
    lines, lmeta = [], []
    for cmd, r in zip(cmds, run_cmds(cmds, timeout_per_case=5)):
        chk.count(("text", cmd["src"]))
        if r["k"] != "lexed":
            chk.disagree(f"c17:lex:crash:{cmd['src'][:80]!r}", {"src": cmd["src"]}, "tokens and a tree", r, "lexer or syntax-tree parser crashed")
            continue
        lines.append({"ev": "Lex", "len": r["len"], "toks": [[t["s"], t["e"]] for t in r["toks"]],
                      "lossless": bool(r["tree"]["lossless"]), "tree_len": r["tree"]["text_len"]})
        lmeta.append((cmd["src"], r))
    chk.extra["texts"] = len(texts)
    for li in common.validate_lines(chk, "Trace_Lexing", "Trace_Lexing.cfg", lines, "lex", parallel=8):
        src, r = lmeta[li]
        tiles = lines[li]["toks"]
        what = "the syntax tree does not reproduce the input" if not (lines[li]["lossless"] and lines[li]["tree_len"] == lines[li]["len"]) \
            else "lexer tokens do not tile the input"
        chk.disagree(f"c17:lex:{src[:80]!r}", {"src": src}, "tokens tile the text; tree text = input",
                     {"k": "lexed", "len": r["len"], "toks": tiles[:40], "tree": r["tree"]}, what)

    # ---- (b) offset -> line/column
    cmds = []
    for i, c in enumerate(locate_cases):
        cmds.append({"cmd": "locate", "id": i, "src": "".join(CH[x] for x in c["t"]), "offsets": [l["off"] for l in c["locs"]]})
    for c, cmd, r in zip(locate_cases, cmds, run_cmds(cmds, timeout_per_case=5)):
        chk.count(("locate", cmd["src"]))
        key = "c17:locate:" + "".join(c["t"])
        if r["k"] != "located":
            chk.disagree(key, {"src": cmd["src"], "offsets": cmd["offsets"]}, c["locs"], r, "crash mapping offsets")
            continue
        for exp, got in zip(c["locs"], r["locs"]):
            bad_line = got["line"] != exp["line"]
            bad_col = exp["exact"] and got["col"] - 1 != exp["col"]
            if bad_line or bad_col:
                chk.disagree(key, {"src": cmd["src"], "offsets": cmd["offsets"]}, c["locs"], r,
                             ("wrong line" if bad_line else "wrong column") + " for a byte offset on a character boundary")
                break

    # ---- (c) planted constructs
    cmds, meta = [], []
    for c in planted_cases:
        src, line, col = render_planted(c)
        if len(PREFIX[c["p"]]) != c["plen"] or line != c["exp"]["line"] or col != c["exp"]["col"]:
            raise common.ToolError(f"renderer and Position.tla disagree about layout {c}")
        for parser in ("default", "peg"):
            if parser == "peg" and not thorough and (len(cmds) % 3):
                continue
            cmd = {"cmd": "eval", "id": len(cmds), "src": src, "want_trace": True}
            cmds.append(cmd)
            meta.append((c, parser))
    # the legacy parser is selected the way users select it: JRSONNET_LEGACY_PARSER in the environment
    ipeg = [i for i, m in enumerate(meta) if m[1] == "peg"]
    idef = [i for i, m in enumerate(meta) if m[1] != "peg"]
    res = [None] * len(cmds)
    for idx, env in ((idef, None), (ipeg, {"JRSONNET_LEGACY_PARSER": "1"})):
        for i, r in zip(idx, run_cmds([cmds[i] for i in idx], timeout_per_case=10, env_extra=env)):
            res[i] = r
    for (c, parser), cmd, r in zip(meta, cmds, res):
        chk.count(("planted", cmd["src"], parser))
        key = f"c17:planted:{parser}:{c['c']}:before={'+'.join(c['b']) or '-'}:prefix={c['p']}:after={c['a']}:{c['eol']}"
        exp = c["exp"]
        if r["k"] == "crash":
            chk.disagree(key, {"src": cmd["src"], "parser": parser}, exp, r, "crash")
            continue
        if c["c"] == "trace":
            got = [(t.get("line"), None) for t in r.get("traces", [])][:1]
        else:
            m = POS_RE.search(r.get("trace") or "")
            got = [(int(m.group(1)), int(m.group(2)))] if m else []
        if not got:
            chk.disagree(key, {"src": cmd["src"], "parser": parser}, exp, r, "no position reported for the offending construct")
            continue
        line, col = got[0]
        if line != exp["line"]:
            chk.disagree(key, {"src": cmd["src"], "parser": parser}, exp, {"k": "pos", "line": line, "col": col, "trace": r.get("trace")},
                         "wrong line reported for the offending construct")
        elif col is not None and exp["exact"] and col != exp["col"]:
            chk.disagree(key, {"src": cmd["src"], "parser": parser}, exp, {"k": "pos", "line": line, "col": col, "trace": r.get("trace")},
                         "wrong column reported although the text before the construct on its line is ASCII")

    # ---- (d) spans of the IR
    progs = list(SPAN_PROGRAMS)
    rng.shuffle(core)
    for c in core[:(4000 if thorough else 800)]:
        progs.append(render.ast_src(c["p"], {"full": False, "sugar": True, "dot": True, "ident_fields": True}))
    progs += [s for s in valid if len(s) < 6000]
    toks = [(p, tokens_of(p)) for p in sorted(set(progs))]
    toks = [(p, t) for p, t in toks if t]
    cmds, meta = [], []
    for p, t in toks:
        plain, ppos = layout(t, " ")
        seps = [rng.choice(JOINERS[:1] + JOINERS[2:]) for _ in range(7)]
        deco, dpos = layout(t, seps)
        for text, pos, variant in ((plain, ppos, "plain"), (deco, dpos, "decorated")):
            cmds.append({"cmd": "parse", "id": len(cmds), "src": text, "spans": True})
            meta.append((p, variant, text, pos))
    res = run_cmds(cmds, timeout_per_case=10)
    chk.extra["span_programs"] = len(toks)
    nspans = 0
    for k in range(0, len(cmds), 2):
        (p, _, plain, ppos), (_, _, deco, dpos) = meta[k], meta[k + 1]
        rp, rd = res[k], res[k + 1]
        if rp["k"] != "parsed" or rd["k"] != "parsed":
            chk.disagree(f"c17:spans:crash:{p[:80]!r}", {"src": deco}, "parse", rd if rd["k"] != "parsed" else rp, "crash in a parser")
            continue
        for parser in ("ir", "peg"):
            a, d = rp[parser], rd[parser]
            if a.get("k") != "ok":
                continue                          # not a valid program for this parser (spans are claimed for valid input)
            chk.count(("spans", parser, p))
            key = f"c17:spans:{parser}:{p[:80]!r}"
            if d.get("k") != "ok" or erase(d["ast"]) != erase(a["ast"]):
                continue                          # re-spacing changed the program: not C17's business (C06 compares parsers)
            sa, sd = spans_of(a["ast"]), spans_of(d["ast"])
            bad = None
            for text, pos, spans in ((plain, ppos, sa), (deco, dpos, sd)):
                raw = text.encode()
                starts = {s: i for i, (s, e) in enumerate(pos)}
                ends = {e: i for i, (s, e) in enumerate(pos)}
                for kind, s, e, node in spans:
                    nspans += 1
                    if not (0 <= s <= e <= len(raw)):
                        bad = f"span {s}-{e} of a {kind} lies outside the text"
                        break
                    try:
                        raw[:s].decode()
                        sl = raw[s:e].decode()
                    except UnicodeDecodeError:
                        bad = f"span {s}-{e} of a {kind} is not on character boundaries"
                        break
                    if s not in starts or e not in ends:
                        bad = f"span {s}-{e} of a {kind} ({sl[:30]!r}) does not start and end on token boundaries"
                        break
                    if kind == "var" and sl != node["v"]:
                        bad = f"span of variable {node['v']} covers {sl[:30]!r}"
                    elif kind == "apply" and not (sl.startswith("(") and sl.endswith(")")):
                        bad = f"span of call arguments covers {sl[:30]!r}"
                    elif kind == "error" and not sl.startswith("error"):
                        bad = f"span of an error statement covers {sl[:30]!r}"
                    elif kind == "import" and not sl.startswith("import"):
                        bad = f"span of an import covers {sl[:30]!r}"
                    elif kind == "field" and node["name"]["t"] == "fixed" and sl != node["name"]["v"] and not (sl[:1] in "\"'@" ):
                        bad = f"span of field {node['name']['v']} covers {sl[:30]!r}"
                    if bad:
                        break
                if bad:
                    break
            if not bad:
                # the same constructs must be labelled with the same tokens whatever the spacing
                ia = [(k_, ppos.index((s, e)) if (s, e) in ppos else ({s0: i for i, (s0, _) in enumerate(ppos)}.get(s), {e0: i for i, (_, e0) in enumerate(ppos)}.get(e)))
                      for k_, s, e, _ in sa]
                idd = [(k_, dpos.index((s, e)) if (s, e) in dpos else ({s0: i for i, (s0, _) in enumerate(dpos)}.get(s), {e0: i for i, (_, e0) in enumerate(dpos)}.get(e)))
                       for k_, s, e, _ in sd]
                if ia != idd:
                    diff = next((x, y) for x, y in zip(ia, idd) if x != y) if len(ia) == len(idd) else ("count", len(ia), len(idd))
                    bad = f"spans label different tokens after re-spacing with comments / non-ASCII / CRLF: {diff}"
            if bad:
                chk.disagree(key, {"src": deco, "plain": plain, "parser": parser}, "spans inside the text, on character and token boundaries, same tokens as in the plain layout",
                             {"k": "spans", "what": bad}, bad)
    chk.extra["spans_checked"] = nspans
    chk.sample({"locate": {"text": locate_cases[len(locate_cases) // 2]["t"]}, "planted": planted_cases[len(planted_cases) // 2]})
    chk.assumptions += ["column convention: the column printed in traces (CodeLocation.column - 1) is the 1-based character column",
                        "span content rules are checked for variables, call arguments, error/import keywords and fixed field names; "
                        "other spans are required to be token-aligned and stable under re-spacing"]


def finish(chk):
    return chk.finish(rule="texts: C06 token sequences (8 joiners) + lexical literals + random + mutated programs; locate: all texts over 6 "
                           "character classes up to the bound x all boundaries; planted: all layouts (0-2 lines before x 7 prefixes x 8 constructs "
                           "x 3 afters x 2 line endings) x parsers; spans: generated + repository programs in two layouts x 2 parsers", exhaustive=False)


def replay(case):
    c = case["case"]
    if "offsets" in c:
        r = run_cmds([{"cmd": "locate", "id": 0, "src": c["src"], "offsets": c["offsets"]}])[0]
    elif "plain" in c:
        r = run_cmds([{"cmd": "parse", "id": 0, "src": c["src"], "spans": True}])[0]
        r = {p: r.get(p) for p in ("ir", "peg")}
    else:
        cmd = {"cmd": "eval", "id": 0, "src": c["src"], "want_trace": True}
        env = {"JRSONNET_LEGACY_PARSER": "1"} if c.get("parser") == "peg" else None
        r = run_cmds([cmd], env_extra=env)[0] if "parser" in c else run_cmds([{"cmd": "lex", "id": 0, "src": c["src"], "tree": True}])[0]
    print("source:", repr(c["src"])[:600])
    print("observed:", json.dumps(r)[:1500])
    print("expected:", json.dumps(case["expected"])[:600])
    return 0
