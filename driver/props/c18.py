"""C18 - garbage cycles are reclaimed and interned strings stay canonical.

spec:  Interner.tla (pool / reference-count protocol, invariants PoolExact, RefCounts, Canonical,
       Utf8Flag, ContentsStable), Gc.tla (evaluate / drop / collect protocol)
bind:  Interner: every transition TLC generates is printed as an operation sequence with the expected
       observation after each step and replayed on real IStr/IBytes values (hook: pool_len /
       pool_contains);  Gc: evaluations in fresh states are recorded as a trace and validated
       against Trace_Gc."""
import json

import common
import corpus
from common import run_cmds, run_tlc, stable_id


def norm_obs_model(o):
    live = sorted(((x["h"], x["kind"], tuple(x["c"])) for x in o["live"]))
    return {"pool": o["pool"], "live": live, "pooled": sorted(tuple(c) for c in o["pooled"])}


ALPHABET = [[], [97], [195, 169], [255]]


def norm_obs_impl(o):
    live = sorted(((x["h"], x["kind"], tuple(x["c"])) for x in o["live"]))
    pooled = sorted(tuple(c) for c, p in zip(ALPHABET, o["pooled"]) if p)
    return {"pool": o["pool"], "live": live, "pooled": pooled}


def run(chk):
    thorough = chk.tier == "thorough"
    consts = {"MaxOps": 8, "MaxHandles": 4} if thorough else {"MaxOps": 6, "MaxHandles": 3}
    for cfg in ("MC_Interner.cfg", "Gen_Interner.cfg"):
        p = f"{common.SPEC}/{cfg}"
        s = open(p).read().splitlines()
        s[0] = f"CONSTANTS MaxOps = {consts['MaxOps']}"
        s[1] = f"          MaxHandles = {consts['MaxHandles']}"
        open(f"{common.SPEC}/_{chk.tier}_{cfg}", "w").write("\n".join(s) + "\n")
    r = run_tlc("Interner", f"_{chk.tier}_MC_Interner.cfg", workers=8, timeout=1500)
    chk.add_tlc(r, f"Interner {consts}: PoolExact RefCounts NoOrphans Canonical Utf8Flag ContentsStable")
    g = run_tlc("Interner", f"_{chk.tier}_Gen_Interner.cfg", workers=8, timeout=1500)
    chk.add_tlc(g, "Interner transitions as replay cases")
    rg = run_tlc("Gc", "MC_Gc.cfg", workers=2)
    chk.add_tlc(rg, "Gc: Reclaimed, NothingHeldAfterDrop")

    # ---- interner replay: only maximal paths need to be executed (a path's prefixes are checked
    # step by step while executing it), but every transition is compared
    cases = g.replay
    paths = {}
    for c in cases:
        key = json.dumps([o["op"] for o in c["ops"]], sort_keys=True)
        paths[key] = c
    keys = sorted(paths)
    maximal = []
    prefixes = set()
    for k in sorted(keys, key=len, reverse=True):
        ops = json.loads(k)
        if k in prefixes:
            continue
        maximal.append(paths[k])
        for i in range(1, len(ops)):
            prefixes.add(json.dumps(ops[:i], sort_keys=True))
    cmds = []
    for i, c in enumerate(maximal):
        ops = []
        for o in c["ops"]:
            op = dict(o["op"])
            ops.append(op)
        cmds.append({"cmd": "interner", "id": i, "ops": ops, "alphabet": ALPHABET})
    res = run_cmds(cmds)
    for c, cmd, r in zip(maximal, cmds, res):
        opnames = [o["op"]["op"] for o in c["ops"]]
        chk.count(("interner", stable_id(cmd["ops"])), n=len(opnames))
        if r["k"] != "interner":
            chk.disagree("c18:interner:crash:" + "/".join(opnames), cmd, "observations", r, "crash in interner replay")
            continue
        for step, (o, ob) in enumerate(zip(c["ops"], r["obs"])):
            exp = norm_obs_model(o["obs"])
            got = norm_obs_impl(ob)
            bad = exp != got
            # equality of live handles must be content equality
            cont = {x["h"]: tuple(x["c"]) for x in ob["live"]}
            for a, b, e in ob["eq"]:
                if e != (cont[a] == cont[b]):
                    bad = True
            if o["op"]["op"] == "cast_str" and ob["note"] != o["op"]["res"]:
                bad = True
            if o["op"]["op"] == "handover" and ob["note"] != {"between": 0}:
                bad = True
            if bad:
                chk.disagree("c18:interner:" + "/".join(opnames[:step + 1]),
                             {"ops": cmd["ops"][:step + 1]}, exp, ob,
                             f"interner observation differs from Interner.tla after step {step + 1}")
                break
        if r["final_pool"] != 0:
            chk.disagree("c18:interner:final:" + "/".join(opnames), cmd, 0, r["final_pool"],
                         "pool not back to its initial size after all handles were dropped")
    chk.traces += len(maximal)
    chk.extra["interner_transitions"] = len(cases)
    chk.extra["interner_maximal_paths_replayed"] = len(maximal)
    chk.sample({"interner_ops": cmds[0]["ops"], "expected_last": maximal[0]["ops"][-1]["obs"]})

    # ---- collector: fresh state per program, twice (warm-up first so that per-thread singletons exist)
    progs = [("cyclic", p) for p in corpus.CYCLIC] + [("erroring", p) for p in corpus.ERRORING]
    progs += [(name, src) for name, src in corpus.repo_programs()]
    gcmds = [{"cmd": "eval", "id": "warm", "src": "local o = {a: self}; [std.length(o), {}, []]", "want_gc": True}]
    for i, (name, src) in enumerate(progs):
        for ms in ((None, 40) if name in ("cyclic", "erroring") else (None,)):
            c = {"cmd": "eval", "id": i, "src": src, "want_gc": True}
            if ms:
                c["max_stack"] = ms
            gcmds.append(c)
    # single worker chunks keep the warm-up in the same process: run in chunks that all start with warm-up
    chunks = [gcmds[1:][i::8] for i in range(8)]
    lines, lmeta = [], []
    for ch in chunks:
        if not ch:
            continue
        rs = run_cmds([gcmds[0]] + ch, parallel=1, chunk=len(ch) + 1)
        for c, r in zip(ch, rs[1:]):
            chk.count(("gc", stable_id(c["src"]), c.get("max_stack")))
            if r["k"] == "crash":
                continue  # crashes are C04's business; nothing can be said about the collector
            lines.append({"ev": "Eval", "class": corpus.classify(r), "before": r["gc"]["before"],
                          "after": r["gc"]["after"]})
            lmeta.append((c, r))
    rej = common.validate_lines(chk, "Trace_Gc", "Trace_Gc.cfg", lines, "gc", parallel=2)
    for li in rej:
        c, r = lmeta[li]
        chk.disagree("c18:gc:" + c["src"][:100], c, "tracked after collect = tracked before", r["gc"],
                     "interpreter objects still tracked after dropping result+state and collecting")
    chk.sample({"gc_program": progs[0][1], "observed": lines[0] if lines else None})
    chk.assumptions += ["memory safety of the interner's unsafe code is outside the model",
                        "collector corpus: hand-written cyclic/erroring programs (also under a 40-frame limit) and the "
                        "repository's suite/golden programs"]


def finish(chk):
    return chk.finish(rule="interner: every transition of Interner.tla within the bounds, replayed as operation "
                           "sequences (distinct = distinct maximal operation sequence); collector: distinct "
                           "(program, stack limit)", exhaustive=True)


def replay(case):
    c = case["case"]
    if "ops" in c:
        r = run_cmds([{"cmd": "interner", "id": 0, "ops": c["ops"], "alphabet": ALPHABET}])[0]
    else:
        r = run_cmds([c])[0]
    print(json.dumps(r, indent=1)[:3000])
    print("expected:", case["expected"])
    return 0
