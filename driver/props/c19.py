"""C19 - formatting preserves the program.

spec:  Formatter.tla (a formatter is a function text -> text | Declined constrained by Preserves / Diagnoses /
       Idempotent; MeaningKept, TestAccepts, NeverFormatsInvalid follow for every sequence of passes).
bind:  every generated valid program (TLC-enumerated Core ASTs in two renderings, grammar-accepted token sequences,
       a construct-complete hand list, repository programs), plain and decorated with numbered comments at token
       boundaries, x indent in {tabs, 2, 4}: jrsonnet_formatter::format is run, the evaluator parser's trees of input
       and output (after SugarNorm) and the lexer's comment sequences are digested into a Format event, and the
       trace is validated by Trace_Formatter (Prop = C19)."""
import collections
import hashlib
import json
import random
import re

import common
from common import run_cmds
from props import c17, fmtlib


def cause_of(src, r):
    """root-cause class of a structural failure, where one is recognisable (stable key for known findings)"""
    def multi_spec(x):
        if isinstance(x, dict):
            if x.get("t") == "objcomp" and len(x.get("specs", [])) >= 2:
                return True
            return any(multi_spec(v) for v in x.values())
        if isinstance(x, list):
            return any(multi_spec(v) for v in x)
        return False
    a = r.get("ast_in") or {}
    if a.get("k") == "ok" and multi_spec(a["ast"]):
        return "object comprehension specs"
    toks = c17.tokens_of(src) or []
    if any(re.fullmatch(r"\d+", toks[i]) and toks[i + 1] == "." and re.match(r"[A-Za-z_]", toks[i + 2]) for i in range(len(toks) - 2)) \
            and re.search(r"\d\.[A-Za-z_]", (r.get("texts") or [""])[0]):
        return "number followed by field access"
    return None


def event_of(r, prog=True, diag=True):
    if r["k"] not in ("formatted", "declined"):
        return {"ev": "Format", "prog": prog, "diag": diag, "valid": True, "outcome": "crash", "ast_in": "", "ast_out": "", "cm_in": "", "cm_out": "", "fixed": False}
    first_ok = len(r.get("texts", [])) >= 1
    ci = [fmtlib.norm_comment(c) for c in r.get("comments_in", [])]
    co = [fmtlib.norm_comment(c) for c in r.get("comments_out", [])]
    return {"ev": "Format", "prog": prog, "diag": diag, "valid": r["ast_in"]["k"] == "ok", "outcome": "formatted" if first_ok else "declined",
            "ast_in": fmtlib.ast_digest(r["ast_in"]), "ast_out": fmtlib.ast_digest(r.get("ast_out")) if first_ok else "",
            "cm_in": hashlib.sha256(json.dumps(ci).encode()).hexdigest()[:16], "cm_out": hashlib.sha256(json.dumps(co).encode()).hexdigest()[:16],
            "fixed": len(r.get("texts", [])) >= 2 and r["texts"][0] == r["texts"][1], "_ci": ci, "_co": co}


def classify(e, r):
    if e["ast_out"] == "reject":
        return "output is not accepted by the evaluator's parser"
    if e["ast_out"] != e["ast_in"]:
        return "output parses to a different program"
    ci, co = e["_ci"], e["_co"]
    if len(co) < len(ci):
        return "comment lost"
    if len(co) > len(ci):
        return "comment duplicated"
    if sorted(ci) == sorted(co):
        return "comments reordered"
    return "comment text changed"


def run(chk):
    thorough = chk.tier == "thorough"
    rng = random.Random(chk.seed)
    chk.add_tlc(common.run_tlc("Formatter", "MC_Formatter.cfg", workers=4), "Formatter: MeaningKept, TestAccepts, NeverFormatsInvalid")
    progs = fmtlib.valid_programs(chk, thorough, rng)
    progs = progs + fmtlib.with_comments(progs, thorough, rng)
    chk.extra["programs"] = len(progs)
    cmds, meta = [], []
    for tag, src in progs:
        for ind in fmtlib.INDENTS:
            if ind != 2 and not thorough and tag.startswith(("grammar", "core")) and rng.random() < 0.7:
                continue
            cmds.append({"cmd": "fmtx", "id": len(cmds), "src": src, "indent": ind, "passes": 2})
            meta.append((tag, src, ind))
    res = run_cmds(cmds, timeout_per_case=10)
    lines, evs = [], []
    for (tag, src, ind), r in zip(meta, res):
        chk.count((src, ind))
        e = event_of(r)
        evs.append(e)
        lines.append({k: v for k, v in e.items() if not k.startswith("_")})
    kept = collections.Counter()
    for e, r in zip(evs, res):
        if e["outcome"] == "formatted" and len(r.get("contexts_in", [])) == len(e["_ci"]):
            left = collections.Counter(e["_co"])
            for text, cx in zip(e["_ci"], r["contexts_in"]):
                if left[text] > 0:
                    left[text] -= 1
                    kept[f"{cx['parent']}:{cx['prev']}/{cx['next']}"] += 1
    chk.extra["comment_places_kept"] = dict(sorted(kept.items()))
    chk.extra["declined_valid"] = sum(1 for e in evs if e["valid"] and e["outcome"] == "declined")
    chk.extra["formatted_valid"] = sum(1 for e in evs if e["valid"] and e["outcome"] == "formatted")
    for li in common.validate_lines(chk, "Trace_Formatter", "Trace_Formatter_C19.cfg", lines, "fmt19", parallel=8):
        tag, src, ind = meta[li]
        e, r = evs[li], res[li]
        what = classify(e, r)
        if what == "comment lost" and len(r.get("contexts_in", [])) == len(e["_ci"]):
            # attribute every lost comment to its place in the syntax tree: the finding is "a comment at this
            # place is dropped", whatever the program around it
            left = collections.Counter(e["_co"])
            seen = set()
            for text, cx in zip(e["_ci"], r["contexts_in"]):
                if left[text] > 0:
                    left[text] -= 1
                    continue
                place = f"{cx['parent']}:{cx['prev']}/{cx['next']}"
                if place in seen:
                    continue
                seen.add(place)
                chk.disagree(f"c19:comment lost:{place}", {"src": src, "indent": ind, "comment": text}, "same program, same comments",
                             {"k": "formatted", "text": (r.get("texts") or [""])[0][:600], "lost": text, "place": cx}, f"comment lost ({place})")
            continue
        cause = cause_of(src, r)
        key = f"c19:{cause}:{what}" if cause else f"c19:{what}:{tag}:indent={ind}:{src[:100]!r}"
        chk.disagree(key, {"src": src, "indent": ind}, "same program, same comments",
                     {"k": "formatted", "text": (r.get("texts") or [""])[0][:600], "comments_in": e["_ci"][:12], "comments_out": e["_co"][:12]}, what)
    chk.sample({"program": progs[len(progs) // 2][1][:200], "indents": fmtlib.INDENTS})
    chk.assumptions += ["comment text is compared up to the marker (// # /* */), per-line leading/trailing blanks and the * gutter",
                        "programs the formatter declines are accepted by C19 (counted in declined_valid)"]


def finish(chk):
    return chk.finish(rule="valid programs (Core ASTs x 2 renderings, grammar-accepted token sequences, construct-complete hand list, repository "
                           "programs) plain and with numbered comments at token boundaries x indent {tabs,2,4}; distinct = (text, indent)", exhaustive=False)


def replay(case):
    c = case["case"]
    r = run_cmds([{"cmd": "fmtx", "id": 0, "src": c["src"], "indent": c["indent"], "passes": 2}])[0]
    print("input:\n" + c["src"])
    print("output:\n" + (r.get("texts") or ["<declined>"])[0])
    print("ast equal:", fmtlib.ast_digest(r["ast_in"]) == fmtlib.ast_digest(r.get("ast_out")))
    print("comments in :", [fmtlib.norm_comment(x) for x in r.get("comments_in", [])])
    print("comments out:", [fmtlib.norm_comment(x) for x in r.get("comments_out", [])])
    return 0
