"""C20 - formatting is idempotent and never crashes.

spec:  Formatter.tla (Diagnoses: invalid input gets Declined; Idempotent: the output of a pass is a fixed point of
       that pass; TestAccepts follows), Trace_Formatter (Prop = C20).
bind:  crash-freedom and diagnostics: every C06 token sequence and literal (several joiners), random and mutated
       texts through jrsonnet_formatter::format (diagnostic rendered as the command does); fixed point: every generated
       valid program, plain and with comments, x indent {tabs, 2, 4}, two passes; `jrsonnet-fmt` / `jrsonnet-fmt --test`
       executables on a sample (the command's output must be accepted by its own --test mode)."""
import collections
import json
import os
import random
import subprocess

import common
import corpus
from common import run_cmds, run_tlc_many
from props import c06, c17, c19, fmtlib


def bin_with_container(x):
    """does the program contain a binary operator one of whose operands is (or ends in) an object, array or call"""
    if isinstance(x, list):
        return any(bin_with_container(v) for v in x)
    if not isinstance(x, dict):
        return False
    if x.get("t") in ("bin", "objext"):
        for side in ("l", "r", "b"):
            o = x.get(side)
            if isinstance(o, dict) and o.get("t") in ("obj", "arr", "apply", "objext", "arrcomp", "members", "objcomp"):
                return True
    return any(bin_with_container(v) for v in x.values())


def run(chk):
    thorough = chk.tier == "thorough"
    rng = random.Random(chk.seed)
    chk.add_tlc(common.run_tlc("Formatter", "MC_Formatter.cfg", workers=4), "Formatter: MeaningKept, TestAccepts, NeverFormatsInvalid")
    progs = fmtlib.valid_programs(chk, thorough, rng, want_grammar=False)
    progs = progs + fmtlib.with_comments(progs, thorough, rng)

    # ---- arbitrary texts: all token sequences, literals, random, mutated
    n = 5 if thorough else 4
    jobs = [dict(module="MC_Grammar", cfg=f"MC_Grammar_{f}_{n}.cfg", workers=5, timeout=3000, xmx="8g", java_opts=("-Xss512m",)) for f in c06.FAMS]
    jobs += [dict(module="Lexical", cfg=f"MC_Lexical_{f}.cfg", workers=4, timeout=3000, java_opts=("-Xss512m",)) for f in c06.LEX]
    rs = run_tlc_many(jobs, parallel=4)
    texts = []
    for j, r in zip(jobs, rs):
        chk.add_tlc(r, j["cfg"] + ": texts for the formatter")
        if j["module"] == "MC_Grammar":
            cs = r.replay
            if not thorough:
                rng.shuffle(cs)
                cs = cs[:12000]
            for i, c in enumerate(cs):
                texts.append(("tokens", c17.JOINERS[i % len(c17.JOINERS)].join(c["ts"]) if i % 4 == 0 else " ".join(c["ts"])))
        else:
            cs = r.replay
            if not thorough:
                rng.shuffle(cs)
                cs = cs[:4000]
            for c in cs:
                for _, src, _ in c06.lex_sources(c):
                    texts.append(("literal", src))
    alphabet = [chr(c) for c in range(32, 127)] + ["\n", "\t", "\r", "é", "€", "\U0001F600", "\x00", "\x7f", "|||", "'", '"', "/*", "*/", "//", "@'", "\\", "|||\n", "local ", "function", "for ", "if "]
    for t in ["1 +\r", "(\r", "x\r", "[1,\r\n", "\r", "{a: 1\r", "1 +\r\n\r"]:
        texts.append(("endings", t))
    for _ in range(20000 if thorough else 4000):
        texts.append(("random", "".join(rng.choice(alphabet) for _ in range(rng.randint(0, 30)))))
    valid = corpus.CYCLIC + corpus.ERRORING + [src for _, src in corpus.repo_programs()] + fmtlib.HAND
    for _ in range(20000 if thorough else 5000):
        s = rng.choice(valid)
        i = rng.randrange(len(s))
        kind = rng.random()
        texts.append(("mutated", s[:i] + ("" if kind < 0.3 else rng.choice(alphabet)) + (s[i + 1:] if kind < 0.7 else s[i:])))
    seen = set()
    items = []
    for tag, src in progs + texts:
        if src not in seen:
            seen.add(src)
            items.append((tag, src))
    chk.extra["texts"] = len(items)
    cmds, meta = [], []
    for tag, src in items:
        is_prog = tag not in ("tokens", "literal", "random", "mutated", "endings")
        for ind in fmtlib.INDENTS:
            if ind != 2 and ((not is_prog) or (not thorough and tag.startswith(("grammar", "core")) and rng.random() < 0.6)):
                continue
            cmds.append({"cmd": "fmtx", "id": len(cmds), "src": src, "indent": ind, "passes": 3 if is_prog else 2})
            meta.append((tag, src, ind))
    res = run_cmds(cmds, timeout_per_case=10)
    lines, evs = [], []
    for (tag, src, ind), r in zip(meta, res):
        chk.count((src, ind))
        e = c19.event_of(r, prog=tag not in ("tokens", "literal", "random", "mutated", "endings"), diag=tag not in ("random", "mutated"))
        evs.append(e)
        lines.append({k: v for k, v in e.items() if not k.startswith("_")})
    chk.extra["invalid_declined"] = sum(1 for e in evs if not e["valid"] and e["outcome"] == "declined")
    chk.extra["valid_formatted"] = sum(1 for e in evs if e["valid"] and e["outcome"] == "formatted")
    chk.extra["valid_declined"] = sum(1 for e in evs if e["valid"] and e["outcome"] == "declined")
    for li in common.validate_lines(chk, "Trace_Formatter", "Trace_Formatter_C20.cfg", lines, "fmt20", parallel=8):
        tag, src, ind = meta[li]
        e, r = evs[li], res[li]
        if e["outcome"] == "crash":
            what = "crash: " + (r.get("msg") or r.get("how") or "")[:70]
            key = f"c20:crash:{(r.get('loc') or r.get('how') or '').split('/')[-1]}:{tag}:{src[:80]!r}"
        elif not e["valid"]:
            # keyed by the reason the evaluator's parser rejects the input: the finding is "the formatter's parser
            # does not diagnose this kind of error"
            what = "invalid input is formatted instead of being diagnosed"
            key = f"c20:no diagnostic:{r['ast_in'].get('msg', '')[:70]}:{src[:60]!r}"
        else:
            t = r.get("texts", [])
            what = "second pass declines the output of the first" if len(t) < 2 else "second pass changes the output of the first"
            cause = c19.cause_of(src, r)
            if not cause and len(t) == 3 and t[1] == t[2]:
                # converges on the second pass: was the first pass's layout broken by the line width?
                strip = lambda x: [y for y in (c17.tokens_of(x) or []) if y != ","]
                toks = c17.tokens_of(src) or []
                # the recorded finding: a container (object / array / call) that is an operand of a binary operator is broken by
                # the width limit on the first pass; plain long arrays / objects / calls are laid out in one pass
                # (or an enclosing container is forced open by a comment); plain long arrays / objects / calls are laid out in one pass
                if strip(t[0]) == strip(t[1]) and len(" ".join(toks)) > 100 \
                        and (bin_with_container(r["ast_in"].get("ast")) or r.get("comments_out")):
                    cause = "width-forced break"
            key = f"c20:not a fixed point:{cause}" if cause else f"c20:not a fixed point:{tag}:indent={ind}:{src[:80]!r}"
            c1 = [fmtlib.norm_comment(c) for c in r.get("comments_out", [])]
            c2 = [fmtlib.norm_comment(c) for c in r.get("comments_out2", [])]
            if len(t) >= 2 and c1 != c2 and len(r.get("contexts_out", [])) == len(c1):
                # the second pass lost a comment the first pass had moved: the same finding as C19's comment loss at
                # that place of the syntax tree
                left = collections.Counter(c2)
                places = set()
                for text, cx in zip(c1, r["contexts_out"]):
                    if left[text] > 0:
                        left[text] -= 1
                    else:
                        places.add(f"{cx['parent']}:{cx['prev']}/{cx['next']}")
                for place in sorted(places):
                    chk.disagree(f"c20:not a fixed point:comment lost:{place}", {"src": src, "indent": ind}, "fixed point",
                                 {"k": r.get("k"), "texts": [x[:400] for x in t]}, f"second pass drops a comment ({place})")
                if places:
                    continue
        chk.disagree(key, {"src": src, "indent": ind}, "diagnostic for invalid input; fixed point for valid input; no crash",
                     {"k": r.get("k"), "msg": r.get("msg"), "loc": r.get("loc"), "texts": [t[:400] for t in r.get("texts", [])]}, what)

    # ---- the executables: jrsonnet-fmt output must pass jrsonnet-fmt --test
    exe = os.path.join(common.build_repo_bins(packages=("jrsonnet-fmt",)), "jrsonnet-fmt")
    d = os.path.join(chk.workdir, "cli")
    os.makedirs(d, exist_ok=True)
    sample = [(t, s) for t, s in progs if t in ("hand", "repo", "core")]
    rng.shuffle(sample)
    sample = sample[:(400 if thorough else 60)]
    for i, (tag, src) in enumerate(sample):
        for flags in (["--indent", "2"], ["--indent", "4"], ["--hard-tabs"]):
            chk.count(("cli", src, tuple(flags)))
            p1 = os.path.join(d, f"in_{i}.jsonnet")
            open(p1, "w", encoding="utf-8").write(src)
            a = subprocess.run([exe] + flags + [p1], stdout=subprocess.PIPE, stderr=subprocess.PIPE, timeout=60)
            key = f"c20:cli:{' '.join(flags)}:{src[:80]!r}"
            if a.returncode not in (0, 1) or b"panicked" in a.stderr:
                chk.disagree(key, {"src": src, "flags": flags}, "exit 0 or 1", {"k": "exit", "rc": a.returncode, "stderr": a.stderr.decode("utf-8", "replace")[-400:]},
                             "jrsonnet-fmt crashed")
                continue
            if a.returncode != 0:
                continue
            p2 = os.path.join(d, f"out_{i}.jsonnet")
            open(p2, "wb").write(a.stdout)
            b = subprocess.run([exe] + flags + ["--test", p2], stdout=subprocess.PIPE, stderr=subprocess.PIPE, timeout=60)
            if b.returncode != 0:
                # only a finding of the executable when the library has a fixed point here (otherwise reported above)
                lib = run_cmds([{"cmd": "fmtx", "id": 0, "src": src, "indent": 0 if flags[0] == "--hard-tabs" else int(flags[1]), "passes": 2}])[0]
                fixed = len(lib.get("texts", [])) == 2 and lib["texts"][0] == lib["texts"][1]
                if fixed:
                    chk.disagree(key, {"src": src, "flags": flags}, "--test accepts the command's own output",
                                 {"k": "exit", "rc": b.returncode, "stderr": b.stderr.decode("utf-8", "replace")[-300:]},
                                 "jrsonnet-fmt --test rejects what jrsonnet-fmt produced")
    chk.sample({"text": items[len(items) // 2][1][:200], "indents": fmtlib.INDENTS})
    chk.assumptions += ["invalid = rejected by the evaluator's parser (jrsonnet_ir_parser)",
                        "diagnostics are rendered as cmds/jrsonnet-fmt renders them (SnippetBuilder::build + source_to_ansi)"]


def finish(chk):
    return chk.finish(rule="texts: C06 token sequences and literals, random, mutated programs (indent 2) for crash-freedom and diagnostics; valid programs "
                           "plain and with comments x indent {tabs,2,4} x 2 passes for the fixed point; executables on a sample", exhaustive=False)


def replay(case):
    c = case["case"]
    r = run_cmds([{"cmd": "fmtx", "id": 0, "src": c["src"], "indent": c.get("indent", 2), "passes": 3}])[0]
    print("input:\n" + c["src"])
    print("result:", r.get("k"), r.get("msg"), r.get("loc"))
    for i, t in enumerate(r.get("texts", [])):
        print(f"pass {i + 1}:\n{t}")
    return 0
