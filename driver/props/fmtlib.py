"""Shared by C19 and C20: program corpus for the formatter, decoration with comments, Format events."""
import hashlib
import json
import random
import re

import common
import corpus
import render
from common import run_cmds, run_tlc_many
from props import c06, c17

INDENTS = [0, 2, 4]            # 0 = hard tabs
HAND = [
    "-1 + !true + ~2 - +3", "1 + 2 * 3 - 4 / 5 % 6", "1 < 2 && 3 <= 4 || 5 > 6 == (7 >= 8) != false", "1 & 2 | 3 ^ 4 << 5 >> 6",
    "'a' in {a: 1}", "local f(x) = x; f(1) tailstrict", "local f(a, b=2) = a + b; f(1, b=3)", "[1, 2, 3][0:2:1]", "[1, 2, 3][1:]", "'abc'[::2]", "[1, 2][:1]",
    "[x * 2 for x in [1, 2, 3] if x > 1]", "[x + y for x in [1, 2] for y in [3, 4]]", "{[k]: 1 for k in ['a', 'b']}", "{[k + 'x']: k for k in ['a'] if k != 'b'}",
    "\"double \\\"q\\\" \\n \\u00e9\"", "'single \\'q\\''", "@\"verbatim \"\"q\"\" \\n\"", "@'verbatim ''q'''",
    "|||\n  text block\n    indented\n\n  after blank\n|||", "|||\n\ttabbed block\n\t\tdeeper\n|||", "{a: |||\n  in field\n|||, b: 1}", "|||-\n  chomped\n|||",
    "local a = 1, b = 2, c = a + b; c", "local a = 1; local b = 2; a + b", "assert 1 == 1; 2", "assert 1 == 1 : 'message'; 2",
    "{assert self.a == 1, a: 1}", "{assert self.a == 1 : 'msg', a: 1}", "{local x = 1, a: x}", "{local f(y) = y, a: f(1)}", "{a: 1, local x = 2, b: x}",
    "{f(x): x, g(x, y=1):: x + y, h(x)::: x}", "{a: 1, b:: 2, c::: 3, d+: 4, e+:: 5, f+::: 6}", "{'quoted key': 1, \"dq key\": 2, [\"comp\" + \"uted\"]: 3}",
    "import 'a.libsonnet'", "importstr 'b.txt'", "importbin 'c.bin'", "(import 'a.libsonnet').x", "local l = import 'a.libsonnet'; l.f(1)",
    "if true then 1 else 2", "if true then 1", "if 1 < 2 then if 2 < 3 then 'a' else 'b' else 'c'", "function(x) x + 1", "function(x, y=2) x + y", "(function(x) x)(1)",
    "error 'boom'", "error 'a' + 'b'", "{a: {b: {c: [1, [2, [3]]]}}}", "{a: 1} + {b: 2}", "{a: 1} {b: 2}", "local o = {a: 1}; o {a+: 2}", "{a: self.b, b: $.c, c: 1}", "{a: 1} + {a: super.a + 1}",
    "o.a.b['c'][0](1)(2)", "std.length([1, 2])", "std.map(function(x) x * 2, [1, 2])", "null", "true", "false", "self", "$", "1.5e10", "0.1", "1e-3", "[]", "{}", "[[]]", "{a: []}",
    "local aVeryLongVariableNameNumberOne = 'some long string value here', anotherQuiteLongVariableName = 'another long string value'; aVeryLongVariableNameNumberOne + anotherQuiteLongVariableName",
    "{averyveryverylongfieldname1: 'valuevaluevaluevalue', averyveryverylongfieldname2: 'valuevaluevaluevalue', averyveryverylongfieldname3: 1}",
    "[1000000, 2000000, 3000000, 4000000, 5000000, 6000000, 7000000, 8000000, 9000000, 10000000, 11000000, 12000000, 13000000]",
    "f(aaaaaaaaaaaaaaaaaaaa, bbbbbbbbbbbbbbbbbbbbbbbb, cccccccccccccccccccccc, dddddddddddddddddddddd, eeeeeeeeeeeeeeeeeeee)",
    # wider than the line when written on one line: array, object, call, parameters - alone and as a field value
    "{ports: [8080, 8081, 8082, 8083, 8084, 8085, 8086, 8087, 8088, 8089, 8090, 8091, 8092, 8093, 8094, 8095, 8096, 8097]}",
    "{settings: {alpha_setting_name: 'value one', beta_setting_name: 'value two', gamma_setting_name: 'value three', delta: 4}}",
    "{call: someFunction(argumentNumberOne, argumentNumberTwo, argumentNumberThree, argumentNumberFour, argumentNumberFive)}",
    "{outer: {inner: {ports: [8080, 8081, 8082, 8083, 8084, 8085, 8086, 8087, 8088, 8089, 8090, 8091, 8092, 8093, 8094]}}}",
    "local f(parameterNumberOne, parameterNumberTwo=2, parameterNumberThree=3, parameterNumberFour=4, parameterNumberFive=5) = 1; f(1)",
    "[[1000001, 1000002, 1000003, 1000004, 1000005, 1000006, 1000007, 1000008, 1000009, 1000010, 1000011, 1000012, 1000013]]",
    "local x = {\n  a: 1,\n\n  b: 2,\n};\nx", "[\n  1,\n  2,\n]", "{\n  a: 1 }", "[1,\n 2]", "{ a: 1,\n b: 2 }", "f(\n 1, 2)", "local a = 1;\n\n\nlocal b = 2;\n\na + b",
    "/**/ 1", "/* */ 1", "/***/ 1", "/****/ 1", "/* a **/ 1", "/** a **/ 1", "[1, /**/ 2]", "1 /**/", "{ /**/ }", "[ /**/ ]", "f(/**/)", "//\n1", "#\n1", "/*/ */ 1",
    "f(/* c */)", "f(\n  // c\n)", "{[k]: 1 for k in x if k for j in y}", "\"multi\nline\n\ttab\"", "[@'a\nb', 1]", "1 # tab\there\n",
    "-(1)", "- -1", "!(!true)", "(1)", "((1 + 2)) * 3", "1 - (2 - 3)", "(1 + 2) + 3", "a[1]", "a['b']", "a.b", "a[b].c", "x { a: 1 }.a", "(x) { a: 1 }",
    "'é€😀'", "{é: 1}" if False else "{'é': 1}", "# leading comment\n1", "1 # trailing", "/* block */ 1", "1 /* block */", "// only\n// comments\n1",
    "{\n  // comment in object\n  a: 1,  // trailing a\n  /* block b */\n  b: 2,\n  # hash c\n}", "[\n  // in array\n  1,  // after 1\n  2,\n]",
    "local a = 1;  // after local\n// before body\na", "f(\n  // in args\n  1,\n)", "function(\n  // in params\n  x,\n) x", "{\n  a: 1,\n\n  // after blank\n  b: 2,\n}",
    "/*\n * gutter\n * comment\n */\n1", "/**\n * foo\n *\n * bar\n */\n1", "/*\n * a\n *\n * b\n */\n1", "{\n  /**\n   * foo\n   *\n   * bar\n   */\n  a: 1,\n}",
    "/* a\n\n   b */ 1", "/*\n  a\n\n    b\n*/ 1", "/* one\n   two */ 1", "/*\n\ta\n\t\tb\n*/ 1", "|||\n  a\n\n\n|||", "|||\n  a\n\n|||", "{a: |||\n  x\n\n\n|||}", "/**\n * doc comment\n */\n{a: 1}", "1 + // mid-expression\n2", "[x // in comp\n for x in [1]]", "if true // after cond\n then 1 else 2",
]
COMMENT_SEPS = [" /* c{n} */ ", " // c{n}\n", " # c{n}\n", "\n/* c{n}\n   more{n} */\n", " ", " /**/ ", " /* c{n} **/ "]
ONE_KINDS = [0, 1, 2, 3, 5, 6]


def sugar_norm(x):
    """identify `local f = function(..) b` with `local f(..) = b` and `f: function(..) b` with `f(..): b`"""
    if isinstance(x, list):
        return [sugar_norm(v) for v in x]
    if not isinstance(x, dict):
        return x
    x = {k: sugar_norm(v) for k, v in x.items()}
    if x.get("t") == "bindfn":
        return {"t": "bind", "n": x["n"], "v": {"t": "fn", "p": x["p"], "b": x["v"]}}
    if "vis" in x and "params" in x and isinstance(x["params"], list):
        x = dict(x)
        x["v"] = {"t": "fn", "p": x["params"], "b": x["v"]}
        x["params"] = {"t": "none"}
    return x


def ast_digest(res):
    if not res or res.get("k") != "ok":
        return "reject"
    return hashlib.sha256(json.dumps(sugar_norm(res["ast"]), sort_keys=True).encode()).hexdigest()[:20]


def norm_comment(c):
    """comment content up to what re-indentation may change: marker, per-line leading/trailing blanks, `*` gutter"""
    t = c["t"]
    if c["k"] == "MULTI_LINE_COMMENT":
        body = t[2:-2] if t.endswith("*/") and len(t) >= 4 else t[2:]
        if body.startswith("*"):
            body = body[1:]         # `/**` is the marker of a documentation comment, not text
        lines = [re.sub(r"^\s*\*?\s?", "", l).strip() for l in body.split("\n")]
    else:
        lines = [re.sub(r"^(//|#)\s?", "", t.strip()).strip()]
    while lines and not lines[0]:
        lines.pop(0)
    while lines and not lines[-1]:
        lines.pop()
    return "\n".join(lines)


def decorate(tokens, rng):
    """comments at token boundaries: numbered so that loss, duplication and reordering are visible"""
    parts = []
    n = 0
    empty_used = False
    for i, t in enumerate(tokens):
        if i:
            s = rng.choice(COMMENT_SEPS)
            if s == " /**/ ":
                if empty_used:          # comments are told apart by their text: at most one without text
                    s = " "
                empty_used = True
            if "{n}" in s:
                n += 1
            parts.append(s.replace("{n}", str(n)))
        parts.append(t)
    return "".join(parts)


def decorate_one(tokens, pos, kind):
    """a single comment of the given kind after token `pos`"""
    sep = COMMENT_SEPS[kind].replace("{n}", "1")
    return " ".join(tokens[:pos + 1]) + sep + " ".join(tokens[pos + 1:])


def valid_programs(chk, thorough, rng, want_grammar=True):
    """(tag, source) of programs accepted by the Jsonnet grammar"""
    n = 5 if thorough else 4
    jobs = [dict(module="MC_Core", cfg=f"MC_Core_{f}.cfg", workers=4, timeout=3000, xmx="6g", java_opts=("-Xss512m",))
            for f in ("grammar", "prec", "calls", "objects", "index")]
    if want_grammar:
        jobs += [dict(module="MC_Grammar", cfg=f"MC_Grammar_{f}_{n}.cfg", workers=5, timeout=3000, xmx="8g", java_opts=("-Xss512m",))
                 for f in c06.FAMS]
    rs = run_tlc_many(jobs, parallel=4)
    out = [("hand", s) for s in HAND]
    for j, r in zip(jobs, rs):
        chk.add_tlc(r, j["cfg"] + ": programs for the formatter")
        if j["module"] == "MC_Core":
            cs = [c for c in r.replay if c["out"]["k"] != "oom"]
            rng.shuffle(cs)
            for c in cs[:(3000 if thorough else 300)]:
                out.append(("core", render.ast_src(c["p"], {"full": False, "sugar": True, "dot": True, "ident_fields": True})))
            for c in cs[:(600 if thorough else 60)]:
                out.append(("core.full", render.ast_src(c["p"], {"full": True, "sugar": False, "dot": False, "ident_fields": False})))
        else:
            cs = [c for c in r.replay if c["res"]["ok"]]
            rng.shuffle(cs)
            for c in cs[:(20000 if thorough else 1500)]:
                out.append(("grammar", " ".join(c["ts"])))
    for name, src in corpus.repo_programs():
        out.append(("repo", src))
    seen, uniq = set(), []
    for t, s in out:
        if s not in seen:
            seen.add(s)
            uniq.append((t, s))
    return uniq


def with_comments(progs, thorough, rng):
    """decorated variants: every boundary x every comment kind for small programs, random decoration otherwise"""
    out = []
    for tag, src in progs:
        toks = c17.tokens_of(src)
        if not toks or len(toks) < 2:
            continue
        if tag == "hand" or (thorough and len(toks) <= 14):
            for pos in range(len(toks) - 1):
                for kind in ONE_KINDS:
                    out.append((tag + ".c1", decorate_one(toks, pos, kind)))
        if tag != "grammar" or rng.random() < 0.3:
            out.append((tag + ".cN", decorate(toks, rng)))
    return out
