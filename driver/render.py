"""Rendering of specification terms as Jsonnet source text."""
import json

from common import from_cps


def jstr(s):
    """Jsonnet double-quoted literal; non-ASCII raw, controls as \\u00XX (valid in Jsonnet)."""
    return json.dumps(s, ensure_ascii=False)


def ident_ok(s):
    return (s and (s[0].isalpha() or s[0] == "_") and all(c.isalnum() or c == "_" for c in s)
            and s.isascii() and s not in KEYWORDS)


KEYWORDS = {"assert", "else", "error", "false", "for", "function", "if", "import", "importstr",
            "importbin", "in", "local", "null", "tailstrict", "then", "self", "super", "true"}


def lit(v, style=0):
    """Tagged value -> Jsonnet expression. style 0: plain literal; style 1: the same value built
    through lazily evaluated views / inheritance chains (C05: 'lazily-built arrays and inherited
    objects')."""
    t = v["t"]
    if t == "null":
        return "null"
    if t == "bool":
        return "true" if v["b"] else "false"
    if t == "num":
        n = v["n"]
        return str(n) if n >= 0 else f"({n})"
    if t == "str":
        s = from_cps(v["s"])
        if style == 1 and len(s) >= 2:
            return f"({jstr(s[:1])} + {jstr(s[1:])})"
        return jstr(s)
    if t == "func":
        ps = ", ".join(f"p{i}" for i in range(v["n"]))
        return f"(function({ps}) 0)"
    if t == "arr":
        xs = [lit(x, style) for x in v["a"]]
        if style == 1:
            if len(xs) == 0:
                return "std.filter(function(x) false, [1])"
            if len(xs) == 1:
                return f"std.map(function(x) x, [{xs[0]}])"
            return f"([null, {xs[0]}][1:] + [{', '.join(xs[1:])}])"
        return "[" + ", ".join(xs) + "]"
    if t == "obj":
        fs = v["o"]

        def fld(f):
            k = jstr(from_cps(f["k"]))
            return f"{k}{'::' if f['h'] else ':'} {lit(f['v'], style)}"
        if style == 1 and len(fs) >= 1:
            # split over an inheritance chain; the first field goes through super
            first, rest = fs[0], fs[1:]
            k = jstr(from_cps(first["k"]))
            base = "{" + f"{k}: {lit(first['v'], style)}" + "}"
            over = "{" + ", ".join(([f"{k}{'::' if first['h'] else ':::'} super[{k}]"]) + [fld(f) for f in rest]) + "}"
            return f"({base} + {over})"
        return "{" + ", ".join(fld(f) for f in fs) + "}"
    raise ValueError(t)


NOB = 1000


def arr_term(t, style=0):
    """View term of Arrays.tla -> Jsonnet expression."""
    op = t["op"]
    sub = lambda k: arr_term(t[k], style)  # noqa: E731
    if op == "lit":
        return "[" + ", ".join(lit(x) for x in t["xs"]) + "]"
    if op == "range":
        return f"std.range({t['a']}, {t['b']})"
    if op == "make":
        return f"std.makeArray({t['n']}, function(i) i * i)"
    if op == "chars":
        return f"std.stringChars({jstr(from_cps(t['s']))})"
    if op == "utf8":
        return f"std.encodeUTF8({jstr(from_cps(t['s']))})"
    if op == "objvals":
        return f"std.objectValues({lit(t['o'])})"
    if op == "comp":
        return f"[x for x in {sub('t')}]"
    if op == "rev":
        return f"std.reverse({sub('t')})"
    if op == "map":
        return f"std.map(function(x) [x], {sub('t')})"
    if op == "mapidx":
        return f"std.mapWithIndex(function(i, x) [i, x], {sub('t')})"
    if op == "filter":
        return f"std.filter(function(x) x != {t['v']}, {sub('t')})"
    if op == "rep":
        return f"std.repeat({sub('t')}, {t['n']})"
    if op == "cat":
        return f"({sub('t')} + {sub('u')})"
    if op == "slice":
        s, e, k = t["s"], t["e"], t["k"]
        if style == 1:
            f = lambda x: "null" if x == NOB else str(x)  # noqa: E731
            return f"std.slice({sub('t')}, {f(s)}, {f(e)}, {f(k)})"
        f = lambda x: "" if x == NOB else str(x)  # noqa: E731
        inner = sub("t")
        if not inner.endswith((")", "]")):
            inner = f"({inner})"
        if k == NOB:
            return f"{inner}[{f(s)}:{f(e)}]"
        return f"{inner}[{f(s)}:{f(e)}:{f(k)}]"
    if op == "sort":
        return f"std.sort({sub('t')})"
    if op == "flat":
        return "std.flattenArrays([" + ", ".join(arr_term(x, style) for x in t["ts"]) + "])"
    if op == "removeat":
        return f"std.removeAt({sub('t')}, {t['i']})"
    raise ValueError(op)


def term_ops(t):
    """operator spine of a term, for grouping / known-finding keys"""
    op = t["op"]
    if "t" in t and isinstance(t["t"], dict) and "op" in t["t"]:
        rest = term_ops(t["t"])
    else:
        rest = ""
    if op == "cat":
        return f"cat({term_ops(t['t'])},{term_ops(t['u'])})"
    if op == "slice":
        f = lambda x: "" if x == NOB else str(x)  # noqa: E731
        return f"slice[{f(t['s'])}:{f(t['e'])}:{f(t['k'])}]({rest})"
    if op in ("rep",):
        return f"rep{t['n']}({rest})"
    if op == "filter":
        return f"filter{t['v']}({rest})"
    if rest:
        return f"{op}({rest})"
    return op


# ---------------------------------------------------------------------------- object chains (Objects.tla)

def obj_body(b, mname):
    k = b["k"]
    if k == "const":
        return str(b["n"])
    if k == "bomb":
        return "error 'bomb'"
    if k == "conststr":
        return "'x'"
    if k == "self":
        return f"self.{b['g']}"
    if k == "dollar":
        return f"$.{b['g']}"
    if k == "local":
        return f"l_{mname}"
    if k == "super":
        return f"super.{b['g']}"
    if k == "superplus":
        return f"super.{b['g']} + {b['n']}"
    if k == "insuper":
        return f"(if '{b['g']}' in super then 1 else 0)"
    if k == "selfplus":
        return f"self.{b['g']} + {b['n']}"
    raise ValueError(k)


def obj_layer(layer, probes=False):
    parts = []
    for name in ("a", "b"):
        m = layer["ms"][name]
        if m["p"] and m["b"]["k"] == "local":
            parts.append(f"local l_{name} = self.{m['b']['g']}")
    a = layer["as"]
    if a["k"] == "eq":
        parts.append(f"assert self.{a['g']} == {a['n']}")
    elif a["k"] == "has":
        parts.append(f"assert '{a['g']}' in self")
    for name in ("a", "b"):
        m = layer["ms"][name]
        if m["p"]:
            parts.append(f"{name}{'+' if m['plus'] else ''}{m['vis']} {obj_body(m['b'], name)}")
    if probes:
        j = probes
        for f in ("a", "b"):
            parts.append(f"ps{j}{f}:: super.{f}")
            parts.append(f"ph{j}{f}:: '{f}' in super")
    return "{" + ", ".join(parts) + "}"


def obj_chain_shared(chain):
    """like obj_chain style 0, but every distinct layer literal is bound once to a local variable and the chain is
    composed from the variables: equal layers are then one and the same object value used at several positions
    (a mixin applied twice). Returns None when no layer repeats."""
    lits = {}
    parts = []
    for layer in chain:
        if layer["omit"]:
            k = layer["k"]
            taken, cnt = [], 0
            while cnt < k:
                e = parts.pop()
                taken.insert(0, e)
                cnt += e[1]
            assert cnt == k
            parts.append((f"std.objectRemoveKey({join_parts(taken, 0)}, '{layer['f']}')", k + 1, False))
        else:
            src = obj_layer(layer, False)
            name = lits.setdefault(src, f"m{len(lits)}")
            parts.append((name, 1, False))
    if len(lits) == sum(1 for l in chain if not l["omit"]):
        return None
    binds = ", ".join(f"{n} = {src}" for src, n in lits.items())
    return f"(local {binds}; {join_parts(parts, 0)})"


def obj_chain(chain, style=0, probes=False):
    """chain of Objects.tla -> Jsonnet expression. style 0: `a + b`, style 1: `a { ... }` where possible."""
    parts = []  # (expr, nlayers, is_literal)
    for j, layer in enumerate(chain, start=1):
        if layer["omit"]:
            k = layer["k"]
            taken, cnt = [], 0
            while cnt < k:
                e = parts.pop()
                taken.insert(0, e)
                cnt += e[1]
            assert cnt == k, "omit does not align with the rendered segments"
            inner = join_parts(taken, style)
            parts.append((f"std.objectRemoveKey({inner}, '{layer['f']}')", k + 1, False))
        else:
            parts.append((obj_layer(layer, j if probes else False), 1, True))
    return join_parts(parts, style)


def join_parts(parts, style):
    out = parts[0][0]
    for e, _, is_lit in parts[1:]:
        if style == 1 and is_lit:
            out = f"{out} {e}"
        else:
            out = f"{out} + {e}"
    return f"({out})"


# ---------------------------------------------------------------------------- Core.tla programs

PREC = {"*": 3, "/": 3, "%": 3, "+": 4, "-": 4, "<<": 5, ">>": 5, "<": 6, ">": 6, "<=": 6, ">=": 6, "in": 6,
        "==": 7, "!=": 7, "&": 8, "^": 9, "|": 10, "&&": 11, "||": 12}


def _is_none(e):
    return e is None or e.get("t") == "none"


def _field_name(nm, style):
    if nm["t"] == "str":
        s = from_cps(nm["s"])
        if ident_ok(s) and style.get("ident_fields", True):
            return s
        return jstr(s)
    return "[" + ast_src(nm, style) + "]"


def _params(ps, style):
    return ", ".join(p["x"] if _is_none(p["d"]) else f"{p['x']}={ast_src(p['d'], style)}" for p in ps)


def _bind(b, style):
    e = b["e"]
    if e["t"] == "fn" and style.get("sugar", False):
        return f"{b['x']}({_params(e['ps'], style)}) = {ast_src(e['b'], style)}"
    return f"{b['x']} = {ast_src(e, style)}"


def ast_prec(e):
    t = e["t"]
    if t == "bin":
        return PREC[e["op"]]
    if t == "un":
        return 2
    if t in ("local", "if", "fn", "err", "assert"):
        return 13
    if t == "insup":
        return 6
    if t == "num" and e["n"] < 0:
        return 2
    return 1


def ast_src(e, style=None):
    """Core.tla AST -> Jsonnet. style: full (bool) parenthesise every compound operand; sugar; ident_fields;
    named (render positional call arguments by name where the callee's parameters are known)."""
    style = style or {}
    full = style.get("full", True)

    def wrap(x, limit, strict=False):
        s = ast_src(x, style)
        p = ast_prec(x)
        if full:
            return s if p == 1 else f"({s})"
        if p > limit or (strict and p == limit):
            return f"({s})"
        return s

    t = e["t"]
    if t == "null":
        return "null"
    if t in ("true", "false"):
        return t
    if t == "num":
        return str(e["n"])
    if t == "str":
        return jstr(from_cps(e["s"]))
    if t == "var":
        return e["x"]
    if t == "self":
        return "self"
    if t == "dollar":
        return "$"
    if t == "arr":
        return "[" + ", ".join(ast_src(x, style) for x in e["es"]) + "]"
    if t == "comp":
        s = f"[{ast_src(e['e'], style)} for {e['x']} in {ast_src(e['over'], style)}"
        if not _is_none(e["cond"]):
            s += f" if {ast_src(e['cond'], style)}"
        return s + "]"
    if t == "obj":
        parts = [f"local {_bind(b, style)}" for b in e["locals"]]
        for a in e["asserts"]:
            parts.append("assert " + ast_src(a["c"], style) + ("" if _is_none(a["m"]) else " : " + ast_src(a["m"], style)))
        for f in e["fields"]:
            body = f["e"]
            if body["t"] == "fn" and style.get("sugar", False) and not f["plus"]:
                parts.append(f"{_field_name(f['name'], style)}({_params(body['ps'], style)}){f['vis']} {ast_src(body['b'], style)}")
            else:
                parts.append(f"{_field_name(f['name'], style)}{'+' if f['plus'] else ''}{f['vis']} {ast_src(body, style)}")
        return "{" + ", ".join(parts) + "}"
    if t == "un":
        return e["op"] + wrap(e["e"], 2)
    if t == "bin":
        p = PREC[e["op"]]
        return f"{wrap(e['l'], p)} {e['op']} {wrap(e['r'], p, strict=True)}"
    if t == "local":
        return "local " + ", ".join(_bind(b, style) for b in e["binds"]) + "; " + ast_src(e["e"], style)
    if t == "if":
        s = f"if {ast_src(e['c'], style)} then {ast_src(e['a'], style)}"
        if not _is_none(e["b"]):
            s += f" else {ast_src(e['b'], style)}"
        return s
    if t == "fn":
        return f"function({_params(e['ps'], style)}) {ast_src(e['b'], style)}"
    if t == "app":
        args = [ast_src(x, style) for x in e["pos"]] + [f"{n['x']}={ast_src(n['e'], style)}" for n in e["named"]]
        return f"{wrap(e['f'], 1)}({', '.join(args)})" + (" tailstrict" if style.get("tailstrict") else "")
    if t == "idx":
        i = e["i"]
        if i["t"] == "str" and ident_ok(from_cps(i["s"])) and style.get("dot", True):
            base = wrap(e["e"], 1)
            if e["e"]["t"] == "num" and not base.startswith("("):
                base = f"({base})"          # `1.a` is lexically a malformed number, not a field access
            return f"{base}.{from_cps(i['s'])}"
        return f"{wrap(e['e'], 1)}[{ast_src(i, style)}]"
    if t == "sup":
        i = e["i"]
        if i["t"] == "str" and ident_ok(from_cps(i["s"])) and style.get("dot", True):
            return f"super.{from_cps(i['s'])}"
        return f"super[{ast_src(i, style)}]"
    if t == "insup":
        return f"{wrap(e['e'], 6)} in super"
    if t == "slice":
        part = lambda x: "" if _is_none(x) else ast_src(x, style)  # noqa: E731
        s = f"{wrap(e['e'], 1)}[{part(e['a'])}:{part(e['b'])}"
        if not _is_none(e["c"]):
            s += f":{part(e['c'])}"
        return s + "]"
    if t == "err":
        return "error " + ast_src(e["e"], style)
    if t == "assert":
        s = "assert " + ast_src(e["c"], style)
        if not _is_none(e["m"]):
            s += " : " + ast_src(e["m"], style)
        return s + "; " + ast_src(e["e"], style)
    if t == "std":
        return f"std.{e['f']}(" + ", ".join(ast_src(x, style) for x in e["args"]) + ")"
    raise ValueError(t)
