"""Rendering of specification terms as Jsonnet source text."""
import json

from common import from_cps


def jstr(s):
    """Jsonnet double-quoted literal; non-ASCII raw, controls as \\u00XX (valid in Jsonnet)."""
    return json.dumps(s, ensure_ascii=False)


def ident_ok(s):
    return (s and (s[0].isalpha() or s[0] == "_") and all(c.isalnum() or c == "_" for c in s)
            and s.isascii() and s not in KEYWORDS)


KEYWORDS = {"assert", "else", "error", "false", "for", "function", "if", "import", "importstr",
            "importbin", "in", "local", "null", "tailstrict", "then", "self", "super", "true"}


def lit(v, style=0):
    """Tagged value -> Jsonnet expression. style 0: plain literal; style 1: the same value built
    through lazily evaluated views / inheritance chains (C05: 'lazily-built arrays and inherited
    objects')."""
    t = v["t"]
    if t == "null":
        return "null"
    if t == "bool":
        return "true" if v["b"] else "false"
    if t == "num":
        n = v["n"]
        return str(n) if n >= 0 else f"({n})"
    if t == "str":
        s = from_cps(v["s"])
        if style == 1 and len(s) >= 2:
            return f"({jstr(s[:1])} + {jstr(s[1:])})"
        return jstr(s)
    if t == "func":
        ps = ", ".join(f"p{i}" for i in range(v["n"]))
        return f"(function({ps}) 0)"
    if t == "arr":
        xs = [lit(x, style) for x in v["a"]]
        if style == 1:
            if len(xs) == 0:
                return "std.filter(function(x) false, [1])"
            if len(xs) == 1:
                return f"std.map(function(x) x, [{xs[0]}])"
            return f"([null, {xs[0]}][1:] + [{', '.join(xs[1:])}])"
        return "[" + ", ".join(xs) + "]"
    if t == "obj":
        fs = v["o"]

        def fld(f):
            k = jstr(from_cps(f["k"]))
            return f"{k}{'::' if f['h'] else ':'} {lit(f['v'], style)}"
        if style == 1 and len(fs) >= 1:
            # split over an inheritance chain; the first field goes through super
            first, rest = fs[0], fs[1:]
            k = jstr(from_cps(first["k"]))
            base = "{" + f"{k}: {lit(first['v'], style)}" + "}"
            over = "{" + ", ".join(([f"{k}{'::' if first['h'] else ':::'} super[{k}]"]) + [fld(f) for f in rest]) + "}"
            return f"({base} + {over})"
        return "{" + ", ".join(fld(f) for f in fs) + "}"
    raise ValueError(t)
