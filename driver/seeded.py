#!/usr/bin/env python3
"""Evaluate a seeded change: python3 driver/seeded.py <seeded-id> <check ids...>
Applies seeded/<id>/patch.diff to /repo (git apply), runs the named checks (quick tier), records which of them report a
violation in seeded/<id>/meta.json (caught_by) and restores /repo (git checkout -- .)."""
import json
import os
import subprocess
import sys

V = os.path.dirname(os.path.dirname(os.path.abspath(__file__)))
sid, checks = sys.argv[1], sys.argv[2:]
d = os.path.join(V, "seeded", sid)
patch = os.path.join(d, "patch.diff")
st = subprocess.run(["git", "-C", "/repo", "status", "--porcelain"], stdout=subprocess.PIPE, text=True).stdout.strip()
if st:
    sys.exit("/repo is not clean:\n" + st)
subprocess.check_call(["git", "-C", "/repo", "apply", patch])
caught, detail = [], {}
try:
    for c in checks:
        p = subprocess.run(["python3", os.path.join(V, "driver", "check.py"), c, "--tier", "quick"], stdout=subprocess.PIPE, stderr=subprocess.STDOUT, text=True)
        viol = [l for l in p.stdout.split("\n") if l.startswith("VIOLATION")]
        first = [l for l in p.stdout.split("\n") if l.startswith("[violation]")][:3]
        detail[c] = {"exit": p.returncode, "violations": len(viol), "first": first}
        if p.returncode == 1 and viol:
            caught.append(c)
        print(c, "exit", p.returncode, len(viol), "VIOLATION lines", first[:2])
finally:
    subprocess.check_call(["git", "-C", "/repo", "checkout", "--", "."])
m = json.load(open(os.path.join(d, "meta.json")))
m["caught_by"] = sorted(set(m.get("caught_by", [])) | set(caught))
m.setdefault("runs", {}).update(detail)
json.dump(m, open(os.path.join(d, "meta.json"), "w"), indent=1)
print("caught by:", m["caught_by"])
