#!/usr/bin/env python3
"""Demonstrates the binding of the trace specifications (DESIGN.md section 6): for every Trace_* module a small good
trace must be accepted and the same trace with one field corrupted (or one event removed) must be rejected.
Not a registered check; exit 0 iff every expectation holds."""
import json
import os
import sys

sys.path.insert(0, os.path.dirname(os.path.abspath(__file__)))
import common  # noqa: E402

T = []


def case(module, cfg, good, bad, what):
    T.append((module, cfg, good, bad, what))


case("Trace_Determinism", "Trace_Determinism.cfg",
     [{"ev": "Observe", "p": "a", "c": "x", "ctx": "f", "out": "1"}, {"ev": "Observe", "p": "a", "c": "x", "ctx": "g", "out": "1"}],
     [{"ev": "Observe", "p": "a", "c": "x", "ctx": "f", "out": "1"}, {"ev": "Observe", "p": "a", "c": "x", "ctx": "g", "out": "2"}],
     "second observation of the same (program, configuration) differs")
case("Trace_Lexing", "Trace_Lexing.cfg",
     [{"ev": "Lex", "len": 3, "toks": [[0, 1], [1, 3]], "lossless": True, "tree_len": 3}],
     [{"ev": "Lex", "len": 3, "toks": [[0, 1], [2, 3]], "lossless": True, "tree_len": 3}], "a gap between two tokens")
fmt = {"ev": "Format", "prog": True, "diag": True, "valid": True, "outcome": "formatted", "ast_in": "A", "ast_out": "A", "cm_in": "c", "cm_out": "c", "fixed": True}
case("Trace_Formatter", "Trace_Formatter_C19.cfg", [fmt], [dict(fmt, ast_out="B")], "output parses to a different tree")
case("Trace_Formatter", "Trace_Formatter_C19.cfg", [fmt], [dict(fmt, cm_out="d")], "a comment changed")
case("Trace_Formatter", "Trace_Formatter_C20.cfg", [fmt], [dict(fmt, fixed=False)], "second pass changes the text")
case("Trace_Formatter", "Trace_Formatter_C20.cfg", [dict(fmt, valid=False, outcome="declined")], [dict(fmt, valid=False)], "invalid input formatted")
case("Trace_Formatter", "Trace_Formatter_C20.cfg", [fmt], [dict(fmt, outcome="crash")], "crash")
ev = {"ev": "Eval", "k": "val", "depth_before": 0, "depth_after": 0, "asserting": 0, "entered": False}
case("Trace_Total", "Trace_Total.cfg", [ev, dict(ev, k="err")], [ev, dict(ev, depth_after=1)], "frame counter not restored")
case("Trace_Total", "Trace_Total.cfg", [ev], [dict(ev, k="crash")], "crash")
sysgood = [{"ev": "NewState"}, {"ev": "Enter"}, {"ev": "Begin", "p": "p1"}, {"ev": "Load", "f": "a"}, {"ev": "Load", "f": "b"},
           {"ev": "End", "out": "val", "depth": 0, "asserting": 0}, {"ev": "Begin", "p": "p2"}, {"ev": "Hit", "f": "a"}, {"ev": "Hit", "f": "b"},
           {"ev": "Load", "f": "d"}, {"ev": "End", "out": "val", "depth": 0, "asserting": 0}, {"ev": "Leave", "entered": False}, {"ev": "DropState"},
           {"ev": "Collect", "before": 3, "after": 3}]
bad1 = [dict(e) for e in sysgood]
bad1[7] = {"ev": "Load", "f": "a"}
bad2 = [dict(e) for e in sysgood]
bad2[5]["out"] = "err"
bad3 = [dict(e) for e in sysgood]
bad3[-1]["after"] = 4
bad4 = [e for i, e in enumerate(sysgood) if i != 1]
case("Trace_System", "Trace_System.cfg", sysgood, bad1, "a file read twice on one state")
case("Trace_System", "Trace_System.cfg", sysgood, bad2, "outcome differs from the program's denotation")
case("Trace_System", "Trace_System.cfg", sysgood, bad3, "objects left after collection")
case("Trace_System", "Trace_System.cfg", sysgood, bad4, "evaluation without entering the state (event removed)")

ok = True
d = os.path.join(common.WORK, "selftest")
os.makedirs(d, exist_ok=True)
for i, (module, cfg, good, bad, what) in enumerate(T):
    res = []
    for name, lines in (("good", good), ("bad", bad)):
        path = os.path.join(d, f"{i}_{name}.ndjson")
        with open(path, "w") as f:
            for l in lines:
                f.write(json.dumps(l) + "\n")
        accepted, info = common.validate_trace(module, cfg, path)
        res.append(accepted)
    verdict = res == [True, False]
    ok &= verdict
    print(("ok   " if verdict else "FAIL ") + f"{module}/{cfg}: good accepted={res[0]}, corrupted ({what}) accepted={res[1]}")
sys.exit(0 if ok else 1)
