#!/usr/bin/env python3
"""MANIFEST.setup_cmd: build the conformance harness offline from files on disk and check the tools."""
import os
import subprocess
import sys

sys.path.insert(0, os.path.dirname(os.path.abspath(__file__)))
import common  # noqa: E402

os.makedirs(os.path.join(common.WORK, "tmp"), exist_ok=True)
try:
    common.build_harness()
except common.ToolError as e:
    print("setup failed:", e)
    sys.exit(2)
p = subprocess.run(["java", "-cp", common.TLA_CP, "tlc2.TLC", "-h"], stdout=subprocess.PIPE, stderr=subprocess.STDOUT)
print("tlc available" if b"TLC" in p.stdout or p.returncode in (0, 1) else "tlc missing")
sys.exit(0)
