#!/usr/bin/env python3
"""Stage a sub-agent's confirmed change: python3 driver/stage_seeded.py <worktree> <seeded-id>
copies MUTATION.diff / DEMO.md / META.json of the scratch worktree to seeded/<id>/ (patch.diff, demonstration.md, meta.json)."""
import json
import os
import shutil
import sys

V = os.path.dirname(os.path.dirname(os.path.abspath(__file__)))
wt, sid = sys.argv[1], sys.argv[2]
d = os.path.join(V, "seeded", sid)
os.makedirs(d, exist_ok=False)
shutil.copy(os.path.join(wt, "MUTATION.diff"), os.path.join(d, "patch.diff"))
shutil.copy(os.path.join(wt, "DEMO.md"), os.path.join(d, "demonstration.md"))
m = json.load(open(os.path.join(wt, "META.json")))
m["origin"] = "fresh sub-agent given only the property text and a scratch worktree"
m["tests_pass"] = True          # confirmed by re-running the suite in the worktree before staging
m["caught_by"] = []
json.dump(m, open(os.path.join(d, "meta.json"), "w"), indent=1)
print("staged", sid)
