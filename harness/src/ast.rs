//! Span-erasing `Expr` -> JSON serializer and the `parse` command (three parsers on one text).

use jrsonnet_ir::{
	ArgsDesc, AssertStmt, BindSpec, CompSpec, Destruct, Expr, ExprParams, FieldMember, FieldName,
	ImportKind, LiteralType, ObjBody, Source, Visibility,
};
use serde_json::{json, Value};

pub struct Ser {
	/// include spans as [start,end] under "sp" where the IR carries them
	pub spans: bool,
}

impl Ser {
	fn sp(&self, o: &mut Value, s: &jrsonnet_ir::Span) {
		if self.spans {
			o["sp"] = json!([s.1, s.2]);
		}
	}
	fn destruct(&self, d: &Destruct) -> Value {
		match d {
			Destruct::Full(n) => json!(n.to_string()),
			#[allow(unreachable_patterns)]
			_ => json!({"t":"destruct"}),
		}
	}
	fn params(&self, p: &ExprParams) -> Value {
		Value::Array(
			p.exprs
				.iter()
				.map(|p| {
					json!({"n": self.destruct(&p.destruct),
					"d": p.default.as_ref().map_or(json!({"t":"none"}), |e| self.expr(e))})
				})
				.collect(),
		)
	}
	fn bind(&self, b: &BindSpec) -> Value {
		match b {
			BindSpec::Field { into, value } => {
				json!({"t":"bind","n":self.destruct(into),"v":self.expr(value)})
			}
			BindSpec::Function {
				name,
				params,
				value,
			} => {
				json!({"t":"bindfn","n":name.to_string(),"p":self.params(params),"v":self.expr(value)})
			}
		}
	}
	fn assert_stmt(&self, a: &AssertStmt) -> Value {
		let mut c = json!({"e": self.expr(&a.0.value)});
		self.sp(&mut c, &a.0.span);
		let m = a.1.as_ref().map_or(json!({"t":"none"}), |m| {
			let mut o = json!({"e": self.expr(&m.value)});
			self.sp(&mut o, &m.span);
			o
		});
		if self.spans {
			json!({"c": c["e"].clone(), "m": if m.get("e").is_some() { m["e"].clone() } else { m.clone() }, "cw": c, "mw": m})
		} else {
			json!({"c": c["e"].clone(), "m": if m.get("e").is_some() { m["e"].clone() } else { m }})
		}
	}
	fn field(&self, f: &FieldMember) -> Value {
		let name = match &f.name.value {
			FieldName::Fixed(s) => json!({"t":"fixed","v":s.to_string()}),
			FieldName::Dyn(e) => json!({"t":"dyn","v":self.expr(e)}),
		};
		let mut o = json!({
			"name": name,
			"plus": f.plus,
			"params": f.params.as_ref().map_or(json!({"t":"none"}), |p| self.params(p)),
			"vis": match f.visibility { Visibility::Normal => ":", Visibility::Hidden => "::", Visibility::Unhide => ":::" },
			"v": self.expr(&f.value),
		});
		self.sp(&mut o, &f.name.span);
		o
	}
	fn compspecs(&self, cs: &[CompSpec]) -> Value {
		Value::Array(
			cs.iter()
				.map(|c| match c {
					CompSpec::IfSpec(i) => {
						let mut o = json!({"t":"if","c":self.expr(&i.cond)});
						self.sp(&mut o, &i.span);
						o
					}
					CompSpec::ForSpec(f) => {
						json!({"t":"for","n":self.destruct(&f.destruct),"o":self.expr(&f.over)})
					}
				})
				.collect(),
		)
	}
	fn objbody(&self, b: &ObjBody) -> Value {
		match b {
			ObjBody::MemberList(m) => json!({
				"t":"members",
				"locals": m.locals.iter().map(|b| self.bind(b)).collect::<Vec<_>>(),
				"asserts": m.asserts.iter().map(|a| self.assert_stmt(a)).collect::<Vec<_>>(),
				"fields": m.fields.iter().map(|f| self.field(f)).collect::<Vec<_>>(),
			}),
			ObjBody::ObjComp(c) => json!({
				"t":"objcomp",
				"locals": c.locals.iter().map(|b| self.bind(b)).collect::<Vec<_>>(),
				"field": self.field(&c.field),
				"specs": self.compspecs(&c.compspecs),
			}),
		}
	}
	fn args(&self, a: &ArgsDesc) -> Value {
		json!({
			"pos": a.unnamed.iter().map(|e| self.expr(e)).collect::<Vec<_>>(),
			"named": a.named.iter().map(|(n, e)| json!({"n":n.to_string(),"v":self.expr(e)})).collect::<Vec<_>>(),
		})
	}
	pub fn expr(&self, e: &Expr) -> Value {
		match e {
			Expr::Literal(l) => json!({"t":"lit","v": match l {
				LiteralType::This => "self", LiteralType::Super => "super", LiteralType::Dollar => "$",
				LiteralType::Null => "null", LiteralType::True => "true", LiteralType::False => "false"}}),
			Expr::Str(s) => {
				json!({"t":"str","v": s.chars().map(|c| c as u32).collect::<Vec<_>>()})
			}
			Expr::Num(n) => json!({"t":"num","v": format!("{n:?}")}),
			Expr::Var(v) => {
				let mut o = json!({"t":"var","v": v.value.to_string()});
				self.sp(&mut o, &v.span);
				o
			}
			Expr::Arr(a) => json!({"t":"arr","v": a.iter().map(|e| self.expr(e)).collect::<Vec<_>>()}),
			Expr::ArrComp(e, cs) => json!({"t":"arrcomp","v":self.expr(e),"specs":self.compspecs(cs)}),
			Expr::Obj(b) => json!({"t":"obj","b":self.objbody(b)}),
			Expr::ObjExtend(e, b) => json!({"t":"objext","l":self.expr(e),"b":self.objbody(b)}),
			Expr::UnaryOp(op, e) => json!({"t":"un","op":op.to_string(),"e":self.expr(e)}),
			Expr::BinaryOp(b) => {
				json!({"t":"bin","op":b.op.to_string(),"l":self.expr(&b.lhs),"r":self.expr(&b.rhs)})
			}
			Expr::AssertExpr(a) => {
				json!({"t":"assert","a":self.assert_stmt(&a.assert),"rest":self.expr(&a.rest)})
			}
			Expr::LocalExpr(bs, e) => {
				json!({"t":"local","binds":bs.iter().map(|b| self.bind(b)).collect::<Vec<_>>(),"e":self.expr(e)})
			}
			Expr::Import(k, e) => {
				let mut o = json!({"t":"import","k": match k.value { ImportKind::Normal => "import", ImportKind::Str => "importstr", ImportKind::Bin => "importbin"},"e":self.expr(e)});
				self.sp(&mut o, &k.span);
				o
			}
			Expr::ErrorStmt(s, e) => {
				let mut o = json!({"t":"error","e":self.expr(e)});
				self.sp(&mut o, s);
				o
			}
			Expr::Apply(f, a, ts) => {
				let mut o = json!({"t":"apply","f":self.expr(f),"args":self.args(&a.value),"tailstrict":ts});
				self.sp(&mut o, &a.span);
				o
			}
			Expr::Index { indexable, parts } => json!({
				"t":"index","e":self.expr(indexable),
				"parts": parts.iter().map(|p| { let mut o = json!({"v": self.expr(&p.value)}); self.sp(&mut o, &p.span); o }).collect::<Vec<_>>()}),
			Expr::Function(p, b) => json!({"t":"fn","p":self.params(p),"b":self.expr(b)}),
			Expr::IfElse(i) => {
				let mut o = json!({"t":"if","c":self.expr(&i.cond.cond),"then":self.expr(&i.cond_then),
				"else": i.cond_else.as_ref().map_or(json!({"t":"none"}), |e| self.expr(e))});
				self.sp(&mut o, &i.cond.span);
				o
			}
			Expr::Slice(s) => {
				let part = |p: &Option<jrsonnet_ir::Spanned<Expr>>| {
					p.as_ref().map_or(json!({"t":"none"}), |e| self.expr(&e.value))
				};
				let mut o = json!({"t":"slice","e":self.expr(&s.value),"start":part(&s.slice.start),"end":part(&s.slice.end),"step":part(&s.slice.step)});
				if self.spans {
					let w = |p: &Option<jrsonnet_ir::Spanned<Expr>>| {
						p.as_ref().map_or(Value::Null, |e| {
							let mut o = json!({"e": self.expr(&e.value)});
							self.sp(&mut o, &e.span);
							o
						})
					};
					o["partsw"] = json!([w(&s.slice.start), w(&s.slice.end), w(&s.slice.step)]);
				}
				o
			}
		}
	}
}

pub fn parse_ir(src: &str, spans: bool) -> Value {
	let source = Source::new_virtual("<p>".into(), src.into());
	match jrsonnet_ir_parser::parse(src, &jrsonnet_ir_parser::ParserSettings { source }) {
		Ok(e) => json!({"k":"ok","ast":Ser { spans }.expr(&e)}),
		Err(e) => json!({"k":"reject","msg":e.to_string(),"offset":e.location.offset}),
	}
}
pub fn parse_peg(src: &str, spans: bool) -> Value {
	let source = Source::new_virtual("<p>".into(), src.into());
	match jrsonnet_peg_parser::parse(src, &jrsonnet_peg_parser::ParserSettings { source }) {
		Ok(e) => json!({"k":"ok","ast":Ser { spans }.expr(&e)}),
		Err(e) => json!({"k":"reject","msg":e.to_string(),"offset":e.location.offset}),
	}
}
pub fn cmd_rowan_tree(cmd: &Value) -> Value {
	let src = cmd["src"].as_str().unwrap_or("");
	let (file, errors) = jrsonnet_rowan_parser::parse(src);
	use jrsonnet_rowan_parser::AstNode;
	json!({"k":"tree","errors": errors.len(), "tree": format!("{:#?}", file.syntax())})
}

pub fn parse_rowan(src: &str) -> Value {
	let (file, errors) = jrsonnet_rowan_parser::parse(src);
	use jrsonnet_rowan_parser::AstNode;
	let text = file.syntax().to_string();
	json!({"errors": errors.len(), "lossless": text == src, "text_len": text.len()})
}

fn guarded(f: impl FnOnce() -> Value) -> Value {
	match std::panic::catch_unwind(std::panic::AssertUnwindSafe(f)) {
		Ok(v) => v,
		Err(p) => json!({"k":"crash","msg": crate::panic_message(p)}),
	}
}

pub fn cmd_parse(cmd: &Value) -> Value {
	let src = cmd["src"].as_str().unwrap_or("");
	let spans = cmd["spans"].as_bool().unwrap_or(false);
	let want_ast = cmd["want_ast"].as_bool().unwrap_or(true);
	let mut ir = guarded(|| parse_ir(src, spans));
	let mut peg = guarded(|| parse_peg(src, spans));
	let rowan = guarded(|| parse_rowan(src));
	let same = ir == peg || (ir["k"] == "reject" && peg["k"] == "reject");
	if !want_ast {
		if let Some(o) = ir.as_object_mut() {
			o.remove("ast");
		}
		if let Some(o) = peg.as_object_mut() {
			o.remove("ast");
		}
	}
	json!({"k":"parsed","ir":ir,"peg":peg,"rowan":rowan,"same":same})
}
