//! `eval` command: evaluate Jsonnet source through the real library in a chosen configuration
//! and report the outcome together with the observations the specifications talk about
//! (std.trace labels, memoisation events, frame counter, GC counts, import resolver calls).

use std::{
	cell::RefCell,
	collections::HashMap,
	path::{Path, PathBuf},
	rc::Rc,
};

use jrsonnet_evaluator::{
	apply_tla,
	error::ErrorKind,
	function::CallLocation,
	manifest::{JsonFormat, ManifestFormat, StringFormat, ToStringFormat, YamlStreamFormat},
	parser::{Source, SourcePath},
	stack::limit_stack_depth,
	tla::TlaArg,
	trace::{CompactFormat, PathResolver, TraceFormat},
	AsPathLike, FileImportResolver, IStr, ImportResolver, State, Val,
};
use jrsonnet_gcmodule::Acyclic;
use jrsonnet_stdlib::{ContextInitializer, TracePrinter};
use serde_json::{json, Map, Value};

thread_local! {
	static TRACES: RefCell<Vec<Value>> = const { RefCell::new(Vec::new()) };
	static RESOLVER_LOG: RefCell<Vec<Value>> = const { RefCell::new(Vec::new()) };
	static FAULTS: RefCell<Vec<(String, String, u32)>> = const { RefCell::new(Vec::new()) };
	static COUNTER: RefCell<u64> = const { RefCell::new(0) };
}

#[derive(Acyclic)]
struct CollectingTracePrinter;
impl TracePrinter for CollectingTracePrinter {
	fn print_trace(&self, loc: CallLocation, value: IStr) {
		let mut line = 0usize;
		let mut col = 0usize;
		let mut file = String::new();
		if let Some(loc) = loc.0 {
			let locs = loc.0.map_source_locations(&[loc.1]);
			line = locs[0].line;
			col = locs[0].column;
			file = loc.0.source_path().to_string();
		}
		TRACES.with_borrow_mut(|t| {
			t.push(json!({"v": value.to_string(), "line": line, "col": col, "file": file}));
		});
	}
}

/// Import resolver that records every call and can inject faults, wrapping the real
/// `FileImportResolver`.
#[derive(Acyclic)]
struct RecordingResolver {
	inner: FileImportResolver,
	root: PathBuf,
}
fn rel(root: &Path, p: &str) -> String {
	let rs = root.to_string_lossy();
	p.replace(&*rs, "$ROOT")
}
fn take_fault(op: &str, key: &str) -> bool {
	FAULTS.with_borrow_mut(|f| {
		for e in f.iter_mut() {
			if e.0 == op && key.ends_with(&e.1) && e.2 > 0 {
				e.2 -= 1;
				return true;
			}
		}
		false
	})
}
impl ImportResolver for RecordingResolver {
	fn resolve_from(
		&self,
		from: &SourcePath,
		path: &dyn AsPathLike,
	) -> jrsonnet_evaluator::Result<SourcePath> {
		let p = path.as_path().to_owned().to_string();
		if take_fault("resolve", &p) {
			RESOLVER_LOG.with_borrow_mut(|l| {
				l.push(json!({"op":"resolve","from":rel(&self.root,&from.to_string()),"path":p,"res":"fault"}));
			});
			return Err(ErrorKind::ImportIo("injected resolver fault".to_owned()).into());
		}
		let r = self.inner.resolve_from(from, path);
		RESOLVER_LOG.with_borrow_mut(|l| {
			l.push(json!({"op":"resolve","from":rel(&self.root,&from.to_string()),"path":p,
				"res": match &r { Ok(s) => rel(&self.root,&s.to_string()), Err(_) => "err".to_owned() }}));
		});
		r
	}
	fn resolve_from_default(&self, path: &dyn AsPathLike) -> jrsonnet_evaluator::Result<SourcePath> {
		self.resolve_from(&SourcePath::default(), path)
	}
	fn load_file_contents(&self, resolved: &SourcePath) -> jrsonnet_evaluator::Result<Vec<u8>> {
		let p = resolved.to_string();
		if take_fault("load", &p) {
			RESOLVER_LOG.with_borrow_mut(|l| {
				l.push(json!({"op":"load","path":rel(&self.root,&p),"res":"fault"}));
			});
			return Err(ErrorKind::ImportIo("injected load fault".to_owned()).into());
		}
		let r = self.inner.load_file_contents(resolved);
		RESOLVER_LOG.with_borrow_mut(|l| {
			l.push(json!({"op":"load","path":rel(&self.root,&p),"res": if r.is_ok() {"ok"} else {"err"}}));
		});
		r
	}
}

pub fn tmp_root() -> PathBuf {
	std::env::var_os("JRV_TMP").map_or_else(|| PathBuf::from("/verif/work/tmp"), PathBuf::from)
}

fn fresh_dir() -> PathBuf {
	let n = COUNTER.with_borrow_mut(|c| {
		*c += 1;
		*c
	});
	let d = tmp_root().join(format!("c{}_{}", std::process::id(), n));
	let _ = std::fs::remove_dir_all(&d);
	std::fs::create_dir_all(&d).expect("create case dir");
	d
}

pub fn error_class(e: &ErrorKind) -> String {
	let d = format!("{e:?}");
	d.split(|c: char| !c.is_alphanumeric())
		.next()
		.unwrap_or("")
		.to_owned()
}

fn write_files(dir: &Path, files: &Map<String, Value>) {
	for (name, content) in files {
		let p = dir.join(name);
		if let Some(parent) = p.parent() {
			std::fs::create_dir_all(parent).expect("mkdir");
		}
		match content {
			Value::String(s) => std::fs::write(&p, s).expect("write"),
			Value::Object(o) if o.contains_key("bytes") => {
				let b: Vec<u8> = o["bytes"]
					.as_array()
					.expect("bytes")
					.iter()
					.map(|v| v.as_u64().expect("byte") as u8)
					.collect();
				std::fs::write(&p, b).expect("write");
			}
			Value::Object(o) if o.contains_key("symlink") => {
				let _ = std::os::unix::fs::symlink(o["symlink"].as_str().expect("target"), &p);
			}
			Value::Object(o) if o.contains_key("dir") => {
				std::fs::create_dir_all(&p).expect("mkdir");
			}
			_ => panic!("bad file spec"),
		}
	}
}

// same map type as jrsonnet-cli's TlaOpts::tla_opts builds (its iteration order is what apply_tla sees)
fn tla_args(spec: Option<&Value>) -> jrsonnet_evaluator::rustc_hash::FxHashMap<IStr, TlaArg> {
	let mut out = jrsonnet_evaluator::rustc_hash::FxHashMap::default();
	if let Some(Value::Object(m)) = spec {
		for (k, v) in m {
			let arg = if let Some(s) = v.get("str") {
				TlaArg::String(s.as_str().expect("str").into())
			} else if let Some(s) = v.get("code") {
				TlaArg::InlineCode(s.as_str().expect("code").to_owned())
			} else if let Some(s) = v.get("str_file") {
				TlaArg::ImportStr(s.as_str().expect("path").to_owned())
			} else if let Some(s) = v.get("code_file") {
				TlaArg::Import(s.as_str().expect("path").to_owned())
			} else {
				panic!("bad tla/ext arg")
			};
			out.insert(k.as_str().into(), arg);
		}
	}
	out
}

pub fn manifest_format(name: &str) -> Box<dyn ManifestFormat> {
	use jrsonnet_stdlib::{IniFormat, TomlFormat, XmlJsonmlFormat, YamlFormat};
	match name {
		"min" => Box::new(JsonFormat::minify()),
		"default" => Box::new(JsonFormat::default()),
		"cli3" => Box::new(JsonFormat::cli(3)),
		"cli0" => Box::new(JsonFormat::cli(0)),
		"cli1" => Box::new(JsonFormat::cli(1)),
		"tostring" => Box::new(ToStringFormat),
		"string" => Box::new(StringFormat),
		"yaml2" => Box::new(YamlFormat::cli(2)),
		"toml2" => Box::new(TomlFormat::cli(2)),
		"xml" => Box::new(XmlJsonmlFormat::cli()),
		"ini" => Box::new(IniFormat::cli()),
		"ystream_json" => Box::new(YamlStreamFormat::cli(JsonFormat::cli(3))),
		"ystream_yaml" => Box::new(YamlStreamFormat::cli(YamlFormat::cli(2))),
		_ => panic!("unknown manifest format {name}"),
	}
}

fn parse_with(which: &str, code: &str, source: Source) -> Result<jrsonnet_ir::Expr, String> {
	match which {
		"ir" => jrsonnet_ir_parser::parse(code, &jrsonnet_ir_parser::ParserSettings { source })
			.map_err(|e| e.to_string()),
		"peg" => jrsonnet_peg_parser::parse(code, &jrsonnet_peg_parser::ParserSettings { source })
			.map_err(|e| e.to_string()),
		_ => panic!("unknown parser {which}"),
	}
}

fn outcome_of(
	res: jrsonnet_evaluator::Result<String>,
	trace_fmt: &CompactFormat,
	want_trace: bool,
) -> Value {
	match res {
		Ok(s) => json!({"k":"val","out":s}),
		Err(e) => {
			let mut o = json!({"k":"err","class":error_class(e.error()),"msg":e.error().to_string()});
			if want_trace {
				let mut s = String::new();
				let _ = trace_fmt.write_trace(&mut s, &e);
				o["trace"] = Value::String(s);
			}
			o
		}
	}
}

/// One evaluation step inside an (optionally shared) state.
fn run_step(s: &State, dir: &Path, step: &Value, ctx_init: &ContextInitializer) -> Value {
	let src = step["src"].as_str().unwrap_or("null");
	let parser = step["parser"].as_str().unwrap_or("default");
	let via = step["via"].as_str().unwrap_or("snippet");
	let fmt_name = step["manifest"].as_str().unwrap_or("min");
	let want_trace = step["want_trace"].as_bool().unwrap_or(false);

	TRACES.with_borrow_mut(Vec::clear);
	RESOLVER_LOG.with_borrow_mut(Vec::clear);
	if step["want_events"].as_bool().unwrap_or(false) {
		let _ = jrsonnet_evaluator::verif::take();
		jrsonnet_evaluator::verif::install();
	}
	// ext vars are per step (they live in the shared settings)
	{
		let mut st = ctx_init.settings_mut();
		st.ext_vars.clear();
		for (k, v) in tla_args(step.get("ext")) {
			st.ext_vars.insert(k, v);
		}
	}
	let _limit = step["max_stack"]
		.as_u64()
		.map(|n| limit_stack_depth(n as usize));

	let trace_fmt = CompactFormat {
		resolver: PathResolver::Relative(dir.to_owned()),
		max_trace: 20,
		padding: 4,
	};

	let run = || -> jrsonnet_evaluator::Result<String> {
		let val: Val = match (via, parser) {
			("snippet", "default") => s.evaluate_snippet("<snippet>".to_owned(), src)?,
			("snippet", p) => {
				let code: IStr = src.into();
				let source = Source::new_virtual("<snippet>".into(), code.clone());
				let parsed = parse_with(p, &code, source.clone()).map_err(|m| {
					ErrorKind::ImportSyntaxError {
						path: source.clone(),
						error: Box::new(jrsonnet_evaluator::error::SyntaxError {
							message: m,
							location: jrsonnet_evaluator::error::SyntaxErrorLocation { offset: 0 },
						}),
					}
				})?;
				jrsonnet_evaluator::evaluate(s.create_default_context(source), &parsed)?
			}
			("file", _) => {
				let main = step["main"].as_str().unwrap_or("main.jsonnet");
				let p = dir.join(main);
				if step.get("src").is_some() && !step["src"].is_null() {
					std::fs::write(&p, src).expect("write main");
				}
				s.import(p.as_path())?
			}
			_ => panic!("bad via/parser"),
		};
		let val = if step.get("tla").is_some() && !step["tla"].is_null() {
			let args = tla_args(step.get("tla"));
			apply_tla(&args, val)?
		} else {
			val
		};
		let fmt = manifest_format(fmt_name);
		val.manifest(&fmt)
	};
	let res = run();
	let mut out = outcome_of(res, &trace_fmt, want_trace);
	out["traces"] = Value::Array(TRACES.with_borrow_mut(std::mem::take));
	if step["record_imports"].as_bool().unwrap_or(false) {
		out["resolver_log"] = Value::Array(RESOLVER_LOG.with_borrow_mut(std::mem::take));
	}
	if step["want_events"].as_bool().unwrap_or(false) {
		out["events"] = events_json(jrsonnet_evaluator::verif::take(), dir);
	}
	out["depth"] = json!(jrsonnet_evaluator::stack::verif::current_depth());
	out["asserting"] = json!(jrsonnet_evaluator::verif::asserting_len());
	out
}

fn events_json(evs: Vec<jrsonnet_evaluator::verif::Event>, dir: &Path) -> Value {
	// Renumber addresses densely in order of first appearance, separately for each site, and
	// retire an id when its cell is dropped (so address re-use cannot alias two cells).
	let mut ids: HashMap<(&'static str, usize), usize> = HashMap::new();
	let mut next = 0usize;
	let mut out = Vec::with_capacity(evs.len());
	for e in evs {
		let key = (if e.site == "thunk" { "thunk" } else { e.site }, e.id);
		let id = if e.site == "imp" {
			0
		} else {
			*ids.entry(key).or_insert_with(|| {
				next += 1;
				next
			})
		};
		if e.what == "drop" {
			ids.remove(&key);
			// only report drops of cells that were ever seen
		}
		let mut o = json!({"site": e.site, "what": e.what, "cell": id, "idx": e.idx});
		if let Some(k) = e.key {
			o["key"] = Value::String(rel(dir, &k));
		}
		out.push(o);
	}
	Value::Array(out)
}

/// `demand`: evaluate `src` to an array or object, then perform a sequence of element / field
/// demands through the Rust API, reporting outcome and std.trace labels of each demand.
pub fn cmd_demand(cmd: &Value) -> Value {
	let src = cmd["src"].as_str().unwrap_or("null");
	let want_events = cmd["want_events"].as_bool().unwrap_or(false);
	let dir = tmp_root();
	let ctx_init = ContextInitializer::new(PathResolver::Absolute);
	ctx_init.settings_mut().trace_printer = Rc::new(CollectingTracePrinter);
	let mut b = State::builder();
	b.import_resolver(FileImportResolver::new(vec![]));
	b.context_initializer(ctx_init.clone());
	let s = b.build();
	if want_events {
		jrsonnet_evaluator::verif::install();
	}
	TRACES.with_borrow_mut(Vec::clear);
	let mut obs = Vec::new();
	let out = {
		let _entered = s.enter();
		match s.evaluate_snippet("<snippet>".to_owned(), src) {
			Err(e) => json!({"k":"err","class":error_class(e.error()),"msg":e.error().to_string()}),
			Ok(v) => {
				let setup_traces = TRACES.with_borrow_mut(std::mem::take);
				for d in cmd["demands"].as_array().cloned().unwrap_or_default() {
					let r: jrsonnet_evaluator::Result<Option<Val>> = match (&v, &d) {
						(Val::Arr(a), d) if d.get("i").is_some() => {
							a.get(d["i"].as_u64().unwrap_or(0) as usize)
						}
						(Val::Obj(o), d) if d.get("f").is_some() => {
							o.get(d["f"].as_str().unwrap_or("").into())
						}
						_ => panic!("demand does not fit value"),
					};
					let traces: Vec<Value> = TRACES
						.with_borrow_mut(std::mem::take)
						.into_iter()
						.map(|t| t["v"].clone())
						.collect();
					obs.push(match r {
						Ok(Some(x)) => match x.manifest(JsonFormat::minify()) {
							Ok(t) => json!({"k":"val","out":t,"traces":traces}),
							Err(e) => json!({"k":"err","class":error_class(e.error()),"msg":e.error().to_string(),"traces":traces}),
						},
						Ok(None) => json!({"k":"absent","traces":traces}),
						Err(e) => json!({"k":"err","class":error_class(e.error()),"msg":e.error().to_string(),"traces":traces}),
					});
				}
				json!({"k":"demanded","setup_traces":setup_traces,"obs":obs})
			}
		}
	};
	let mut out = out;
	if want_events {
		out["events"] = events_json(jrsonnet_evaluator::verif::take(), &dir);
	}
	out["depth_after"] = json!(jrsonnet_evaluator::stack::verif::current_depth());
	out
}

pub fn cmd_eval(cmd: &Value) -> Value {
	let dir = fresh_dir();
	if let Some(Value::Object(files)) = cmd.get("files") {
		write_files(&dir, files);
	}
	let keep = cmd["keep_dir"].as_bool().unwrap_or(false);
	let want_events = cmd["want_events"].as_bool().unwrap_or(false);
	let want_gc = cmd["want_gc"].as_bool().unwrap_or(false);
	let record = cmd["record_imports"].as_bool().unwrap_or(false);

	RESOLVER_LOG.with_borrow_mut(Vec::clear);
	FAULTS.with_borrow_mut(|f| {
		f.clear();
		if let Some(Value::Array(a)) = cmd.get("faults") {
			for x in a {
				f.push((
					x["op"].as_str().expect("op").to_owned(),
					x["path"].as_str().expect("path").to_owned(),
					x["times"].as_u64().unwrap_or(1) as u32,
				));
			}
		}
	});

	let tracked_before = if want_gc {
		jrsonnet_gcmodule::collect_thread_cycles();
		jrsonnet_gcmodule::count_thread_tracked()
	} else {
		0
	};
	let depth_before = jrsonnet_evaluator::stack::verif::current_depth();

	let jpath: Vec<PathBuf> = cmd["jpath"]
		.as_array()
		.map(|a| {
			a.iter()
				.map(|v| dir.join(v.as_str().expect("jpath entry")))
				.collect()
		})
		.unwrap_or_default();

	// library path given the way the command line gives it: -J a -J b plus JSONNET_PATH
	let via_cli = cmd.get("jlist").is_some();
	let cli_resolver = if via_cli {
		use clap::Parser;
		let mut args: Vec<String> = vec!["x".to_owned()];
		for j in cmd["jlist"].as_array().cloned().unwrap_or_default() {
			args.push("-J".to_owned());
			args.push(dir.join(j.as_str().expect("jlist entry")).to_string_lossy().into_owned());
		}
		let envp: Vec<PathBuf> = cmd["jsonnet_path"]
			.as_array()
			.map(|a| a.iter().map(|v| dir.join(v.as_str().expect("path"))).collect())
			.unwrap_or_default();
		if envp.is_empty() {
			std::env::remove_var("JSONNET_PATH");
		} else {
			std::env::set_var("JSONNET_PATH", std::env::join_paths(envp).expect("join"));
		}
		let opts = jrsonnet_cli::MiscOpts::parse_from(args);
		let r = opts.import_resolver();
		std::env::remove_var("JSONNET_PATH");
		Some(r)
	} else {
		None
	};

	let mut results = Vec::new();
	let mut all_events = Value::Null;
	{
		let ctx_init = ContextInitializer::new(PathResolver::Relative(dir.clone()));
		ctx_init.settings_mut().trace_printer = Rc::new(CollectingTracePrinter);
		let mut b = State::builder();
		let inner = cli_resolver.unwrap_or_else(|| FileImportResolver::new(jpath));
		if record {
			b.import_resolver(RecordingResolver {
				inner,
				root: dir.clone(),
			});
		} else {
			b.import_resolver(inner);
		}
		b.context_initializer(ctx_init.clone());
		let s = b.build();
		if want_events {
			jrsonnet_evaluator::verif::install();
		}
		{
			let _entered = s.enter();
			let cwd_guard = CwdGuard::enter(&dir);
			if let Some(Value::Array(steps)) = cmd.get("steps") {
				for st in steps {
					results.push(run_step(&s, &dir, st, &ctx_init));
				}
			} else {
				results.push(run_step(&s, &dir, cmd, &ctx_init));
			}
			drop(cwd_guard);
		}
		if want_events {
			all_events = events_json(jrsonnet_evaluator::verif::take(), &dir);
		}
	}
	let mut out = if cmd.get("steps").is_some() {
		json!({"k":"seq","results":results})
	} else {
		results.pop().expect("one result")
	};
	out["entered_after"] = json!(jrsonnet_evaluator::verif::state_entered());
	out["depth_before"] = json!(depth_before);
	out["depth_after"] = json!(jrsonnet_evaluator::stack::verif::current_depth());
	if want_events && out.get("events").is_none() {
		out["events"] = all_events;
	}
	if want_gc {
		let collected = jrsonnet_gcmodule::collect_thread_cycles();
		out["gc"] = json!({"before": tracked_before, "collected": collected,
			"after": jrsonnet_gcmodule::count_thread_tracked()});
	}
	if !keep {
		let _ = std::fs::remove_dir_all(&dir);
	} else {
		out["dir"] = Value::String(dir.to_string_lossy().into_owned());
	}
	out
}

struct CwdGuard(Option<PathBuf>);
impl CwdGuard {
	fn enter(dir: &Path) -> Self {
		let old = std::env::current_dir().ok();
		let _ = std::env::set_current_dir(dir);
		Self(old)
	}
}
impl Drop for CwdGuard {
	fn drop(&mut self) {
		if let Some(o) = &self.0 {
			let _ = std::env::set_current_dir(o);
		}
	}
}
