//! jrv — conformance worker binding the TLA+ specifications in /verif/spec to the jrsonnet
//! implementation in /repo.
//!
//! Protocol: one JSON command per stdin line, exactly one JSON result per stdout line, in order.
//! A panic inside the code under test is data (`{"k":"crash", ...}`); an abort/stack overflow
//! kills the worker, the driver attributes it to the first command without a result line.

mod ast;
mod eval;
mod misc;

use std::io::{BufRead, Write};

use serde_json::{json, Value};

fn dispatch(cmd: &Value) -> Value {
	let name = cmd["cmd"].as_str().unwrap_or("");
	match name {
		"eval" => eval::cmd_eval(cmd),
		"demand" => eval::cmd_demand(cmd),
		"parse" => ast::cmd_parse(cmd),
		"lex" => misc::cmd_lex(cmd),
		"fmt" => misc::cmd_fmt(cmd),
		"interner" => misc::cmd_interner(cmd),
		"thunks" => misc::cmd_thunks(cmd),
		"preintern" => misc::cmd_preintern(cmd),
		"fmtx" => misc::cmd_fmtx(cmd),
		"rowan_tree" => ast::cmd_rowan_tree(cmd),
		"locate" => misc::cmd_locate(cmd),
		"ping" => json!({"k":"pong"}),
		_ => json!({"k":"tool_error","msg":format!("unknown cmd {name}")}),
	}
}

fn panic_message(p: Box<dyn std::any::Any + Send>) -> String {
	if let Some(s) = p.downcast_ref::<&str>() {
		(*s).to_owned()
	} else if let Some(s) = p.downcast_ref::<String>() {
		s.clone()
	} else {
		"<non-string panic>".to_owned()
	}
}

static PANIC_LOC: std::sync::Mutex<String> = std::sync::Mutex::new(String::new());

fn worker() {
	// Silence the default panic hook: panics are reported as data.
	std::panic::set_hook(Box::new(|info| {
		if let Some(l) = info.location() {
			if let Ok(mut g) = PANIC_LOC.lock() {
				*g = format!("{}:{}", l.file(), l.line());
			}
		}
	}));
	let stdin = std::io::stdin();
	let stdout = std::io::stdout();
	for line in stdin.lock().lines() {
		let Ok(line) = line else { break };
		if line.trim().is_empty() {
			continue;
		}
		let cmd: Value = match serde_json::from_str(&line) {
			Ok(v) => v,
			Err(e) => {
				let mut o = stdout.lock();
				let _ = writeln!(o, "{}", json!({"k":"tool_error","msg":format!("bad json: {e}")}));
				let _ = o.flush();
				continue;
			}
		};
		let id = cmd.get("id").cloned().unwrap_or(Value::Null);
		let res = std::panic::catch_unwind(std::panic::AssertUnwindSafe(|| dispatch(&cmd)));
		let mut res = match res {
			Ok(v) => v,
			Err(p) => {
				// Thread-local interpreter state may be left dirty by a panic; report it and let
				// the driver decide (it restarts the worker after a crash).
				let loc = PANIC_LOC.lock().map(|g| g.clone()).unwrap_or_default();
				json!({"k":"crash","how":"panic","msg":panic_message(p),"loc":loc})
			}
		};
		if let Value::Object(m) = &mut res {
			m.insert("id".to_owned(), id);
		}
		let mut o = stdout.lock();
		let _ = writeln!(o, "{res}");
		let _ = o.flush();
	}
}

fn main() {
	// Large native stack: the harness is an unoptimised build whose frames are several times
	// larger than a release build's; native-stack exhaustion is still observed (as worker death)
	// but only for recursion that no frame limit bounds.
	let stack_mb: usize = std::env::var("JRV_STACK_MB")
		.ok()
		.and_then(|v| v.parse().ok())
		.unwrap_or(256);
	let t = std::thread::Builder::new()
		.stack_size(stack_mb * 1024 * 1024)
		.spawn(worker)
		.expect("spawn");
	let _ = t.join();
}
