//! Commands other than `eval`/`parse`: lexer tiling, formatter passes, interner op sequences,
//! thunk-graph replay, offset -> line/column mapping.

use std::cell::RefCell;

use jrsonnet_evaluator::{
	val::{MemoizedClosureThunk, ThunkValue},
	IBytes, IStr, Thunk, Val,
};
use jrsonnet_gcmodule::{Cc, Trace};
use serde_json::{json, Value};

// ---------------------------------------------------------------- lexer (C17)

pub fn cmd_lex(cmd: &Value) -> Value {
	let src = cmd["src"].as_str().unwrap_or("");
	let toks: Vec<Value> = jrsonnet_lexer::Lexer::new(src)
		.map(|l| json!({"k": format!("{:?}", l.kind), "s": l.range.0, "e": l.range.1}))
		.collect();
	let mut out = json!({"k":"lexed","len":src.len(),"toks":toks});
	if cmd["tree"].as_bool().unwrap_or(false) {
		out["tree"] = crate::ast::parse_rowan(src);
	}
	out
}

// ---------------------------------------------------------------- formatter (C19, C20)

pub fn cmd_fmt(cmd: &Value) -> Value {
	let src = cmd["src"].as_str().unwrap_or("");
	let indent = cmd["indent"].as_u64().unwrap_or(2) as u8;
	let passes = cmd["passes"].as_u64().unwrap_or(2);
	let mut texts = Vec::new();
	let mut cur = src.to_owned();
	for _ in 0..passes {
		match jrsonnet_formatter::format(&cur, &jrsonnet_formatter::FormatOptions { indent }) {
			Ok(out) => {
				// same post-processing as cmds/jrsonnet-fmt: trim, add final newline
				let mut t = out.trim().to_owned();
				t.push('\n');
				texts.push(Value::String(t.clone()));
				cur = t;
			}
			Err(e) => {
				// render the diagnostic the way cmds/jrsonnet-fmt does
				let snippet = e.build();
				let ansi = hi_doc::source_to_ansi(&snippet);
				return json!({"k":"declined","pass":texts.len(),"texts":texts,"diag_len":ansi.len()});
			}
		}
	}
	json!({"k":"formatted","texts":texts})
}

fn comments_of(src: &str) -> Vec<Value> {
	jrsonnet_lexer::Lexer::new(src)
		.filter(|l| format!("{:?}", l.kind).contains("COMMENT"))
		.map(|l| json!({"k": format!("{:?}", l.kind), "t": src.get(l.range.0 as usize..l.range.1 as usize).unwrap_or("<bad range>")}))
		.collect()
}

/// Syntactic context of every comment of `src` in the formatter's syntax tree: kind of the parent node and of
/// the nearest non-trivia siblings (in source order, same order as the lexer's comment tokens).
fn comment_contexts(src: &str) -> Vec<Value> {
	use jrsonnet_rowan_parser::AstNode;
	let (file, _) = jrsonnet_rowan_parser::parse(src);
	let is_trivia = |k: &str| k == "WHITESPACE" || k.contains("COMMENT");
	let mut out = Vec::new();
	for el in file.syntax().descendants_with_tokens() {
		let Some(tok) = el.into_token() else { continue };
		let kind = format!("{:?}", tok.kind());
		if !kind.contains("COMMENT") {
			continue;
		}
		let parent = tok.parent().map_or_else(|| "none".to_owned(), |p| format!("{:?}", p.kind()));
		let mut prev = tok.prev_sibling_or_token();
		while let Some(p) = &prev {
			if is_trivia(&format!("{:?}", p.kind())) {
				prev = p.prev_sibling_or_token();
			} else {
				break;
			}
		}
		let mut next = tok.next_sibling_or_token();
		while let Some(n) = &next {
			if is_trivia(&format!("{:?}", n.kind())) {
				next = n.next_sibling_or_token();
			} else {
				break;
			}
		}
		out.push(json!({
			"parent": parent,
			"prev": prev.map_or_else(|| "none".to_owned(), |p| format!("{:?}", p.kind())),
			"next": next.map_or_else(|| "none".to_owned(), |n| format!("{:?}", n.kind())),
		}));
	}
	out
}

/// `fmt` plus what C19 compares: evaluator-parser ASTs and comment tokens of input and first-pass output.
pub fn cmd_fmtx(cmd: &Value) -> Value {
	let src = cmd["src"].as_str().unwrap_or("");
	let mut out = cmd_fmt(cmd);
	out["ast_in"] = crate::ast::parse_ir(src, false);
	out["comments_in"] = Value::Array(comments_of(src));
	out["contexts_in"] = Value::Array(comment_contexts(src));
	let first = out["texts"].get(0).and_then(Value::as_str).map(str::to_owned);
	if let Some(t) = first {
		out["ast_out"] = crate::ast::parse_ir(&t, false);
		out["peg_out_ok"] = json!(crate::ast::parse_peg(&t, false)["k"] == "ok");
		out["comments_out"] = Value::Array(comments_of(&t));
		out["contexts_out"] = Value::Array(comment_contexts(&t));
	}
	let second = out["texts"].get(1).and_then(Value::as_str).map(str::to_owned);
	if let Some(t) = second {
		out["comments_out2"] = Value::Array(comments_of(&t));
	}
	out
}

// ---------------------------------------------------------------- positions (C17)

pub fn cmd_locate(cmd: &Value) -> Value {
	let src = cmd["src"].as_str().unwrap_or("");
	let source = jrsonnet_ir::Source::new_virtual("<p>".into(), src.into());
	let offs = cmd["offsets"].as_array().cloned().unwrap_or_default();
	let mut out = Vec::new();
	for o in offs {
		let o = o.as_u64().unwrap_or(0) as u32;
		let l = source.map_source_locations(&[o]);
		out.push(json!({"off":o,"line":l[0].line,"col":l[0].column}));
	}
	json!({"k":"located","locs":out})
}

// ---------------------------------------------------------------- interner (C18)

enum H {
	S(IStr),
	B(IBytes),
}
impl H {
	fn bytes(&self) -> Vec<u8> {
		match self {
			H::S(s) => s.as_bytes().to_vec(),
			H::B(b) => b.as_slice().to_vec(),
		}
	}
	fn kind(&self) -> &'static str {
		match self {
			H::S(_) => "str",
			H::B(_) => "bytes",
		}
	}
	fn as_bytes_handle(&self) -> IBytes {
		match self {
			H::S(s) => s.clone().cast_bytes(),
			H::B(b) => b.clone(),
		}
	}
}

fn bytes_of(v: &Value) -> Vec<u8> {
	v.as_array()
		.map(|a| a.iter().map(|x| x.as_u64().unwrap_or(0) as u8).collect())
		.unwrap_or_default()
}

pub fn cmd_interner(cmd: &Value) -> Value {
	use jrsonnet_interner::verif::{pool_contains, pool_len};
	let ops = cmd["ops"].as_array().cloned().unwrap_or_default();
	let probe: Vec<Vec<u8>> = cmd["alphabet"]
		.as_array()
		.map(|a| a.iter().map(bytes_of).collect())
		.unwrap_or_default();
	let base = pool_len();
	let base_contains: Vec<bool> = probe.iter().map(|c| pool_contains(c)).collect();
	let mut handles: Vec<Option<H>> = Vec::new();
	let mut obs = Vec::new();
	for op in &ops {
		let name = op["op"].as_str().unwrap_or("");
		let mut note = Value::Null;
		match name {
			"intern_str" => {
				let b = bytes_of(&op["c"]);
				let s = String::from_utf8(b).expect("driver sends valid utf8 for intern_str");
				handles.push(Some(H::S(IStr::from(s.as_str()))));
			}
			"intern_bytes" => {
				let b = bytes_of(&op["c"]);
				handles.push(Some(H::B(IBytes::from(b.as_slice()))));
			}
			"clone" => {
				let h = op["h"].as_u64().unwrap_or(0) as usize;
				let n = match handles[h].as_ref().expect("live") {
					H::S(s) => H::S(s.clone()),
					H::B(b) => H::B(b.clone()),
				};
				handles.push(Some(n));
			}
			"drop" => {
				let h = op["h"].as_u64().unwrap_or(0) as usize;
				handles[h] = None;
			}
			"cast_bytes" => {
				let h = op["h"].as_u64().unwrap_or(0) as usize;
				let old = handles[h].take().expect("live");
				let n = match old {
					H::S(s) => H::B(s.cast_bytes()),
					H::B(b) => H::B(b),
				};
				handles.push(Some(n));
			}
			"cast_str" => {
				let h = op["h"].as_u64().unwrap_or(0) as usize;
				let old = handles[h].take().expect("live");
				match old {
					H::B(b) => match b.cast_str() {
						Some(s) => {
							handles.push(Some(H::S(s)));
							note = json!("ok");
						}
						None => {
							handles.push(None);
							note = json!("invalid");
						}
					},
					H::S(s) => {
						handles.push(Some(H::S(s)));
						note = json!("ok");
					}
				}
			}
			"handover" => {
				let st = jrsonnet_interner::interop::exit_thread();
				let empty_between = pool_len();
				// SAFETY: state comes from exit_thread and is used once
				unsafe { jrsonnet_interner::interop::reenter_thread(st) };
				note = json!({"between": empty_between});
			}
			_ => panic!("unknown interner op {name}"),
		}
		// observation after the step
		let live: Vec<(usize, &H)> = handles
			.iter()
			.enumerate()
			.filter_map(|(i, h)| h.as_ref().map(|h| (i, h)))
			.collect();
		let mut eq = Vec::new();
		for (i, a) in &live {
			for (j, b) in &live {
				if i < j {
					let e = match (a, b) {
						(H::S(x), H::S(y)) => x == y,
						(H::B(x), H::B(y)) => x == y,
						_ => a.as_bytes_handle() == b.as_bytes_handle(),
					};
					eq.push(json!([i, j, e]));
				}
			}
		}
		let contents: Vec<Value> = live
			.iter()
			.map(|(i, h)| json!({"h": i, "kind": h.kind(), "c": h.bytes()}))
			.collect();
		let pooled: Vec<bool> = probe.iter().map(|c| pool_contains(c)).collect();
		obs.push(json!({"pool": pool_len() as i64 - base as i64, "eq": eq, "live": contents,
			"pooled": pooled, "note": note}));
	}
	drop(handles);
	json!({"k":"interner","obs":obs,"final_pool": pool_len() as i64 - base as i64,
		"base_contains": base_contains})
}

// ---------------------------------------------------------------- pre-interning (C16)

thread_local! {
	static HELD: RefCell<Vec<IStr>> = const { RefCell::new(Vec::new()) };
}
/// Intern `n` distinct strings and keep them alive for the rest of the worker's life, so that later
/// evaluations run with a different interner pool (addresses, hash-table layout).
pub fn cmd_preintern(cmd: &Value) -> Value {
	let n = cmd["n"].as_u64().unwrap_or(0);
	let tag = cmd["tag"].as_str().unwrap_or("pre");
	HELD.with_borrow_mut(|h| {
		for i in 0..n {
			h.push(IStr::from(format!("{tag}{i}")));
		}
	});
	json!({"k":"preinterned","pool": jrsonnet_interner::verif::pool_len()})
}

// ---------------------------------------------------------------- thunk graphs (C03)

thread_local! {
	static RUNLOG: RefCell<Vec<usize>> = const { RefCell::new(Vec::new()) };
}

#[derive(Trace)]
struct Node {
	idx: usize,
	deps: Vec<usize>,
	fail: bool,
	table: Cc<RefCell<Vec<Option<Thunk<Val>>>>>,
}

fn node_body(n: Node) -> jrsonnet_evaluator::Result<Val> {
	RUNLOG.with_borrow_mut(|l| l.push(n.idx));
	let mut sum = n.idx as f64;
	for d in &n.deps {
		let t = n.table.borrow()[*d].clone().expect("thunk built");
		match t.evaluate()? {
			Val::Num(x) => sum += x.get() * 10.0,
			_ => unreachable!(),
		}
	}
	if n.fail {
		jrsonnet_evaluator::bail!("fail{}", n.idx)
	}
	Ok(Val::Num(
		jrsonnet_evaluator::val::NumValue::new(sum).expect("finite"),
	))
}

pub fn cmd_thunks(cmd: &Value) -> Value {
	// nodes: [{deps:[..], fail:bool}], demands: [idx...]
	let nodes = cmd["nodes"].as_array().cloned().unwrap_or_default();
	let demands = cmd["demands"].as_array().cloned().unwrap_or_default();
	let table: Cc<RefCell<Vec<Option<Thunk<Val>>>>> = Cc::new(RefCell::new(vec![None; nodes.len()]));
	for (i, n) in nodes.iter().enumerate() {
		let deps: Vec<usize> = n["deps"]
			.as_array()
			.map(|a| a.iter().map(|x| x.as_u64().unwrap_or(0) as usize).collect())
			.unwrap_or_default();
		let node = Node {
			idx: i,
			deps,
			fail: n["fail"].as_bool().unwrap_or(false),
			table: table.clone(),
		};
		let t: Thunk<Val> = Thunk::new(MemoizedClosureThunk::new(node, node_body as fn(Node) -> _));
		table.borrow_mut()[i] = Some(t);
	}
	let _ = |t: &dyn ThunkValue<Output = Val>| t.get();
	RUNLOG.with_borrow_mut(Vec::clear);
	let mut obs = Vec::new();
	for d in demands {
		let i = d.as_u64().unwrap_or(0) as usize;
		let t = table.borrow()[i].clone().expect("built");
		let r = t.evaluate();
		let runs = RUNLOG.with_borrow_mut(std::mem::take);
		obs.push(match r {
			Ok(Val::Num(n)) => json!({"k":"val","v": n.get() as i64, "runs": runs}),
			Ok(_) => unreachable!(),
			Err(e) => {
				json!({"k":"err","class": crate::eval::error_class(e.error()), "msg": e.error().to_string(), "runs": runs})
			}
		});
	}
	// break the cycle explicitly so that nothing stays tracked
	table.borrow_mut().clear();
	json!({"k":"thunks","obs":obs})
}
