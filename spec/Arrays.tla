------------------------------- MODULE Arrays -------------------------------
(***************************************************************************)
(* C08 — arrays behave identically whatever their internal representation. *)
(*                                                                         *)
(* A *view term* is built from base arrays by the operations that the      *)
(* implementation represents lazily (slices, reversal, repetition,         *)
(* concatenation, mapping, filtering, comprehension, ranges, string and    *)
(* byte conversions, object values).  Den(t) is the plain sequence the     *)
(* term denotes according to the standard-library documentation.           *)
(*                                                                         *)
(* Get(t, i) is the implementation-shaped element access: every view       *)
(* translates the index into its inner array (from + step*i, len-1-i,      *)
(* i % len, split point) AFTER checking it against its own length.  TLC    *)
(* checks the refinement Get(t,i) = Den(t)[i+1] for 0 <= i < Len(Den(t))   *)
(* and Get(t,i) = None otherwise, for every enumerated term.               *)
(***************************************************************************)
EXTENDS Values, Json

CONSTANTS MaxDepth,      \* number of view operations stacked on a base
          SliceSet       \* "full" | "reduced": which slice triples are applied

None == [t |-> "none"]
NoB == 1000        \* an omitted slice bound / step (kept an integer: TLC cannot compare a string with a number)

\* ------------------------------------------------------------------ terms
Lit(xs)          == [op |-> "lit", xs |-> xs]
Range(a, b)      == [op |-> "range", a |-> a, b |-> b]            \* std.range(a, b), inclusive
MakeArr(n)       == [op |-> "make", n |-> n]                      \* std.makeArray(n, function(i) i * i)
Chars(s)         == [op |-> "chars", s |-> s]                     \* std.stringChars(s)
Utf8(s)          == [op |-> "utf8", s |-> s]                      \* std.encodeUTF8(s)
ObjVals(o)       == [op |-> "objvals", o |-> o]                   \* std.objectValues(o)
Comp(t)          == [op |-> "comp", t |-> t]                      \* [x for x in t]
Rev(t)           == [op |-> "rev", t |-> t]                       \* std.reverse(t)
Map(t)           == [op |-> "map", t |-> t]                       \* std.map(function(x) [x], t)
MapIdx(t)        == [op |-> "mapidx", t |-> t]                    \* std.mapWithIndex(function(i, x) [i, x], t)
FilterNe(t, v)   == [op |-> "filter", t |-> t, v |-> v]           \* std.filter(function(x) x != v, t)
Rep(t, n)        == [op |-> "rep", t |-> t, n |-> n]              \* std.repeat(t, n)
Cat(t, u)        == [op |-> "cat", t |-> t, u |-> u]              \* t + u
Slice(t, s, e, k) == [op |-> "slice", t |-> t, s |-> s, e |-> e, k |-> k]   \* t[s:e:k], NoB = omitted
Sort(t)          == [op |-> "sort", t |-> t]                      \* std.sort(t) (numbers)
Flat(ts)         == [op |-> "flat", ts |-> ts]                    \* std.flattenArrays([...])
RemoveAt(t, i)   == [op |-> "removeat", t |-> t, i |-> i]         \* std.removeAt(t, i), 0 <= i < len

Nums(ns) == [i \in 1..Len(ns) |-> VNum(ns[i])]

\* UTF-8 bytes of a code point
Utf8Bytes(c) ==
  IF c < 128 THEN <<c>>
  ELSE IF c < 2048 THEN <<192 + (c \div 64), 128 + (c % 64)>>
  ELSE IF c < 65536 THEN <<224 + (c \div 4096), 128 + ((c \div 64) % 64), 128 + (c % 64)>>
  ELSE <<240 + (c \div 262144), 128 + ((c \div 4096) % 64), 128 + ((c \div 64) % 64), 128 + (c % 64)>>

RECURSIVE SortedInsert(_, _)
SortedInsert(x, s) == IF s = <<>> THEN <<x>>
                      ELSE IF x.n < Head(s).n THEN <<x>> \o s
                      ELSE <<Head(s)>> \o SortedInsert(x, Tail(s))
RECURSIVE InsSort(_)
InsSort(s) == IF s = <<>> THEN <<>> ELSE SortedInsert(Head(s), InsSort(Tail(s)))

\* slice bounds as std.slice documents them: omitted -> 0 / len, negative -> counted from the end
\* (clamped at 0), larger than len -> len; step >= 1
Lo(s, n) == IF s = NoB THEN 0 ELSE IF s < 0 THEN (IF n + s < 0 THEN 0 ELSE n + s) ELSE IF s > n THEN n ELSE s
Hi(e, n) == IF e = NoB THEN n ELSE IF e < 0 THEN (IF n + e < 0 THEN 0 ELSE n + e) ELSE IF e > n THEN n ELSE e
St(k) == IF k = NoB THEN 1 ELSE k
\* number of elements of lo, lo+k, ... below hi
Count(lo, hi, k) == IF lo >= hi THEN 0 ELSE ((hi - lo) + (k - 1)) \div k

\* ------------------------------------------------------------------ denotation
RECURSIVE Den(_)
Den(t) ==
  CASE t.op = "lit"     -> t.xs
    [] t.op = "range"   -> IF t.b < t.a THEN <<>> ELSE [i \in 1..(t.b - t.a + 1) |-> VNum(t.a + i - 1)]
    [] t.op = "make"    -> [i \in 1..t.n |-> VNum((i - 1) * (i - 1))]
    [] t.op = "chars"   -> [i \in 1..Len(t.s) |-> VStr(<<t.s[i]>>)]
    [] t.op = "utf8"    -> Nums(Concat([i \in 1..Len(t.s) |-> Utf8Bytes(t.s[i])]))
    [] t.op = "objvals" -> LET vis == SelectSeq(t.o.o, LAMBDA f : ~f.h) IN [i \in 1..Len(vis) |-> vis[i].v]
    [] t.op = "comp"    -> Den(t.t)
    [] t.op = "rev"     -> LET d == Den(t.t) IN [i \in 1..Len(d) |-> d[Len(d) + 1 - i]]
    [] t.op = "map"     -> LET d == Den(t.t) IN [i \in 1..Len(d) |-> VArr(<<d[i]>>)]
    [] t.op = "mapidx"  -> LET d == Den(t.t) IN [i \in 1..Len(d) |-> VArr(<<VNum(i - 1), d[i]>>)]
    [] t.op = "filter"  -> SelectSeq(Den(t.t), LAMBDA x : x # VNum(t.v))
    [] t.op = "rep"     -> Concat([i \in 1..t.n |-> Den(t.t)])
    [] t.op = "cat"     -> Den(t.t) \o Den(t.u)
    [] t.op = "slice"   -> LET d == Den(t.t) n == Len(d) lo == Lo(t.s, n) hi == Hi(t.e, n) k == St(t.k) IN
                           [i \in 1..Count(lo, hi, k) |-> d[lo + (i - 1) * k + 1]]
    [] t.op = "sort"    -> InsSort(Den(t.t))
    [] t.op = "flat"    -> Concat([i \in 1..Len(t.ts) |-> Den(t.ts[i])])
    [] t.op = "removeat" -> LET d == Den(t.t) IN [i \in 1..(Len(d) - 1) |-> IF i <= t.i THEN d[i] ELSE d[i + 1]]

\* ------------------------------------------------------------------ implementation-shaped access
\* length as each representation computes it
RECURSIVE LenImpl(_)
LenImpl(t) ==
  CASE t.op = "rev"   -> LenImpl(t.t)
    [] t.op = "rep"   -> LenImpl(t.t) * t.n
    [] t.op = "cat"   -> LenImpl(t.t) + LenImpl(t.u)
    [] t.op = "slice" -> LET n == LenImpl(t.t) IN Count(Lo(t.s, n), Hi(t.e, n), St(t.k))
    [] t.op \in {"map", "mapidx", "comp"} -> LenImpl(t.t)
    [] OTHER -> Len(Den(t))                 \* materialised representations

RECURSIVE Get(_, _)
\* element i (0-based) or None; every view checks the index against ITS OWN length first
Get(t, i) ==
  IF i < 0 \/ i >= LenImpl(t) THEN None
  ELSE CASE t.op = "rev"   -> Get(t.t, LenImpl(t.t) - i - 1)
         [] t.op = "rep"   -> Get(t.t, i % LenImpl(t.t))
         [] t.op = "cat"   -> IF i < LenImpl(t.t) THEN Get(t.t, i) ELSE Get(t.u, i - LenImpl(t.t))
         [] t.op = "slice" -> LET n == LenImpl(t.t) IN Get(t.t, Lo(t.s, n) + St(t.k) * i)
         [] t.op = "map"   -> LET x == Get(t.t, i) IN IF x = None THEN None ELSE VArr(<<x>>)
         [] t.op = "mapidx" -> LET x == Get(t.t, i) IN IF x = None THEN None ELSE VArr(<<VNum(i), x>>)
         [] t.op = "comp"  -> Get(t.t, i)
         [] OTHER -> Den(t)[i + 1]

Refines(t) ==
  LET d == Den(t) IN
  /\ LenImpl(t) = Len(d)
  /\ \A i \in (0 - 2)..(Len(d) + 2) :
       Get(t, i) = IF i >= 0 /\ i < Len(d) THEN d[i + 1] ELSE None

\* ------------------------------------------------------------------ enumeration
Obj3 == VObj(<<Fld(<<97>>, FALSE, VNum(1)), Fld(<<98>>, TRUE, VNum(9)), Fld(<<99>>, FALSE, VStr(<<120>>))>>)
Bases == { Lit(<<>>), Lit(Nums(<<7>>)), Lit(Nums(<<1, 2, 3>>)), Range(0, 3), Range(2, 1), Range(4, 4), MakeArr(3),
           Chars(<<97, 233, 128512>>), Utf8(<<97, 233>>), ObjVals(Obj3), Sort(Lit(Nums(<<3, 1, 2>>))),
           Flat(<<Lit(Nums(<<1>>)), Range(2, 3)>>), Flat(<<Lit(Nums(<<1>>)), Range(4, 4), Lit(Nums(<<2>>))>>), RemoveAt(Lit(Nums(<<1, 2, 3>>)), 1) }
SmallBases == { Lit(<<>>), Lit(Nums(<<7>>)), Range(5, 6), Range(5, 5) }   \* a one-element range: not empty, not a literal

Bound == {NoB} \cup ((0 - 2)..5)
Steps == {NoB, 1, 2, 3}
FullSlices == {<<s, e, k>> : s \in Bound, e \in Bound, k \in Steps}
ReducedSlices == { <<NoB, NoB, NoB>>, <<1, NoB, NoB>>, <<NoB, 2, NoB>>, <<0, 2, NoB>>,
                   <<1, 3, 1>>, <<NoB, NoB, 2>>, <<1, NoB, 2>>, <<0 - 1, NoB, NoB>>,
                   <<NoB, 0 - 1, NoB>>, <<0, 5, 3>>, <<2, 1, NoB>>, <<3, NoB, NoB>> }
Slices == IF SliceSet = "full" THEN FullSlices ELSE ReducedSlices

Apply(t) ==
  {Comp(t), Rev(t), Map(t), MapIdx(t), FilterNe(t, 1), FilterNe(t, 2), Sort(t)}
  \cup {Rep(t, n) : n \in 0..2}
  \cup {Cat(t, b) : b \in SmallBases} \cup {Cat(b, t) : b \in SmallBases}
  \cup {Slice(t, x[1], x[2], x[3]) : x \in Slices}

\* std.sort needs comparable elements of one type: only applied when all elements are numbers
Sortable(t) == \A i \in 1..Len(Den(t)) : Den(t)[i].t = "num"
WellFormed(t) == (t.op = "sort" => Sortable(t.t))

VARIABLE st
Init == st \in {[t |-> b, d |-> 0] : b \in Bases}
Next == /\ st.d < MaxDepth
        /\ \E u \in Apply(st.t) : WellFormed(u) /\ st' = [t |-> u, d |-> st.d + 1]

RefinesInv == Refines(st.t)

\* ---- arrays around the 1000-element threshold at which concatenation switches representation
LongTerms ==
  UNION { LET r == Range(0, n - 1) one == Lit(Nums(<<7>>)) two == Lit(Nums(<<8, 9>>)) IN
          { Cat(r, one), Cat(one, r), Cat(r, two), Cat(Cat(r, one), two), Rev(Cat(r, one)),
            Slice(Cat(r, two), 1, NoB, 2), Slice(Cat(one, r), NoB, 0 - 1, NoB), Cat(Rep(Range(0, (n \div 2) - 1), 2), two),
            Comp(Cat(one, r)), Cat(Map(r), one), FilterNe(Cat(r, one), 1) }
        : n \in 997..1001 }
InitLong == st \in {[t |-> b, d |-> MaxDepth] : b \in LongTerms}
EdgeIdx(n) == {i \in {0 - 1, 0, 1, 2, 498, 499, 500, 501, 996, 997, 998, 999, 1000, 1001, 1002, 1003, 1004,
                      n - 2, n - 1, n, n + 1} : TRUE}
EmitLong ==
  LET d == Den(st.t) n == Len(d) IN
  PrintT("REPLAY " \o ToJson([fam |-> "arrays.long", term |-> st.t, len |-> n,
         probes |-> {[i |-> i, v |-> IF i >= 0 /\ i < n THEN d[i + 1] ELSE None] : i \in EdgeIdx(n)}]))
RefinesLong ==
  LET d == Den(st.t) n == Len(d) IN
  LenImpl(st.t) = n /\ \A i \in EdgeIdx(n) : Get(st.t, i) = IF i >= 0 /\ i < n THEN d[i + 1] ELSE None

Emit == PrintT("REPLAY " \o ToJson([fam |-> "arrays", term |-> st.t, den |-> Den(st.t)]))
=============================================================================
