-------------------------------- MODULE Cli --------------------------------
(***************************************************************************)
(* C15 - command line, Rust API, C API and dependency lister agree.        *)
(*                                                                         *)
(* A configuration names, abstractly, everything a user can say on the     *)
(* command line: one external variable and one top-level argument, each of *)
(* a flavour (string, code, string file, code file) with a payload class,  *)
(* the library search path, the input mode, the output mode and the stack  *)
(* limit.  Translate gives what every probe field of the program denotes;  *)
(* Outcome whether the run succeeds; Render what the executable must show. *)
(* The pipeline machine makes the steps explicit: the state has to be      *)
(* entered for the whole evaluation (imports of ext code / nested files).  *)
(* Family "deps": import graphs; Deps = files reachable through `import`   *)
(* edges, with importstr / importbin targets as leaves.                    *)
(***************************************************************************)
EXTENDS Naturals, Sequences, FiniteSets, TLC, Json

CONSTANTS Family

None == [fl |-> "none", pl |-> "none"]
Vars == {None}
        \cup {[fl |-> "str", pl |-> p] : p \in {"plain", "codelike"}}
        \cup {[fl |-> "code", pl |-> p] : p \in {"ok", "err", "syntax", "imports"}}
        \cup {[fl |-> "strfile", pl |-> p] : p \in {"exists", "missing"}}
        \cup {[fl |-> "codefile", pl |-> p] : p \in {"ok", "imports", "err", "missing"}}
        \cup {[fl |-> "env", pl |-> p] : p \in {"set", "unset"}}      \* --ext-str name / --tla-str name: value taken from the environment
JPaths == {"none", "one", "shadow"}            \* -J j1 ; -J j1 -J j2 with lib.libsonnet in both (right-most wins)
Inputs == {"file", "exec", "stdin"}
Outputs == {"json", "pad0", "string", "fstring", "fyaml", "ftoml", "ystream", "multi", "multiS", "outfile",
            "S_bad", "y_bad", "m_bad"}
Stacks == {"default", "small"}

Err == [k |-> "err"]
Val(tag) == [k |-> "val", tag |-> tag]

\* what a variable denotes (tags are expanded to JSON by the driver: one table, shared by all implementations)
Den(v, jp) ==
  CASE v.fl = "none" -> Val("absent")
    [] v.fl = "str" -> Val(IF v.pl = "plain" THEN "S:hello=world" ELSE "S:1 + 1")          \* strings are never evaluated
    [] v.fl = "code" -> (CASE v.pl = "ok" -> Val("V:two")                                    \* {a: 1 + 1} evaluated
                           [] v.pl \in {"err", "syntax"} -> Err
                           [] v.pl = "imports" -> (IF jp = "none" THEN Err                   \* import "lib.libsonnet" needs the search path
                                                    ELSE Val(IF jp = "one" THEN "LIB:one" ELSE "LIB:two")))
    [] v.fl = "strfile" -> (IF v.pl = "exists" THEN Val("S:file text") ELSE Err)            \* file contents, verbatim
    [] v.fl = "env" -> (IF v.pl = "set" THEN Val("S:from env") ELSE Err)                     \* an unset variable is a usage error
    [] v.fl = "codefile" -> (CASE v.pl = "ok" -> Val("V:six")
                               [] v.pl = "imports" -> Val("V:sibling")                        \* imports a file next to itself
                               [] v.pl \in {"err", "missing"} -> Err)

\* the probe program: function(t = "Tdefault") { e: extVar or "absent", t: t, lib: import through -J or "absent", deep: recursion }
Translate(c) == [e |-> Den(c.ext, c.jp), t |-> IF c.tla.fl = "none" THEN Val("S:Tdefault") ELSE Den(c.tla, c.jp),
                 lib |-> IF c.jp = "none" THEN Val("absent") ELSE Val(IF c.jp = "one" THEN "LIB:one" ELSE "LIB:two"),
                 deep |-> IF c.stack = "small" THEN Err ELSE Val("N:40")]
BodyFits(c) == c.out \notin {"S_bad", "y_bad", "m_bad"}
Outcome(c) == LET tr == Translate(c) IN
              IF tr.e.k = "err" \/ tr.t.k = "err" \/ tr.lib.k = "err" \/ tr.deep.k = "err" \/ ~BodyFits(c)
              THEN Err ELSE [k |-> "val", e |-> tr.e.tag, t |-> tr.t.tag, lib |-> tr.lib.tag, deep |-> tr.deep.tag]
\* what the executable shows, relative to the library's manifestation M of the value in the format of the mode
Render(c) == IF Outcome(c).k = "err" THEN [exit |-> "nonzero", stderr |-> "nonempty"]
             ELSE [exit |-> "zero",
                   stdout |-> CASE c.out \in {"multi", "multiS"} -> "paths"
                                [] c.out = "outfile" -> "empty"
                                [] OTHER -> "M+newline",
                   files |-> CASE c.out = "multi" -> "M+newline each"
                               [] c.out = "multiS" -> "M each"
                               [] c.out = "outfile" -> "M+newline"
                               [] OTHER -> "none"]

\* ------------------------------------------------------------------ the pipeline as steps
VARIABLES pc, entered, cfg, usedImports
vars == <<pc, entered, cfg, usedImports>>
Configs == [ext : Vars, tla : Vars, jp : JPaths, inp : Inputs, out : Outputs, stack : Stacks]
NeedsImports(c) == c.jp # "none" \/ c.ext.pl = "imports" \/ c.tla.pl = "imports" \/ c.ext.fl \in {"strfile", "codefile"}
                   \/ c.tla.fl \in {"strfile", "codefile"} \/ c.inp = "file"
PInit == pc = "build" /\ entered = FALSE /\ cfg \in {c \in Configs : c.out = "json" /\ c.stack = "default" /\ c.inp = "file"} /\ usedImports = FALSE
Enter == pc = "build" /\ pc' = "entered" /\ entered' = TRUE /\ UNCHANGED <<cfg, usedImports>>
Evaluate == pc = "entered" /\ pc' = "evaluated" /\ usedImports' = NeedsImports(cfg) /\ UNCHANGED <<entered, cfg>>
ApplyTla == pc = "evaluated" /\ pc' = "applied" /\ UNCHANGED <<entered, cfg, usedImports>>
Manifest == pc = "applied" /\ pc' = "manifested" /\ UNCHANGED <<entered, cfg, usedImports>>
Leave == pc = "manifested" /\ pc' = "done" /\ entered' = FALSE /\ UNCHANGED <<cfg, usedImports>>
PSteps == Enter \/ Evaluate \/ ApplyTla \/ Manifest \/ Leave
\* every step that may resolve an import runs with the state entered
EnteredWhileEvaluating == pc \in {"entered", "evaluated", "applied", "manifested"} => entered

\* ------------------------------------------------------------------ deps
Nodes == 1..3
EdgeKinds == {"import", "importstr", "importbin"}
Reach(edges, from) ==
  LET RECURSIVE R(_, _)
      R(S, n) == IF n = 0 THEN S
                 ELSE R(S \cup {e.to : e \in {x \in edges : x.kind = "import" /\ x.from \in S \cup {from}}}, n - 1)
      viaImport == R({}, 4)                                              \* files whose own imports are followed
  IN viaImport \cup {e.to : e \in {x \in edges : x.from \in viaImport \cup {from}}}   \* plus leaves of any kind

\* ---- deps over two directories: one import text names different files from different importers (imports are
\* resolved relative to the importing file first), so "already expanded" is a property of the FILE, not of the text
Dirs == {0, 1}                        \* 0 = the directory of the main file, 1 = its sub-directory d/
Names == 1..3
File2(d, n) == [dir |-> d, name |-> n]
Main2 == File2(0, 1)
Edges2 == {[from |-> File2(d, n), sub |-> sb, name |-> m, kind |-> kd] :
             d \in Dirs, n \in Names, sb \in BOOLEAN, m \in Names, kd \in {"import", "importstr"}}
ValidEdge2(e) == e.sub => e.from.dir = 0                     \* `d/name` is written in the top directory only
Target2(e) == File2(IF e.sub THEN 1 ELSE e.from.dir, e.name)
Followed2(es) ==
  LET RECURSIVE R(_, _)
      R(S, n) == IF n = 0 THEN S
                 ELSE R(S \cup {Target2(e) : e \in {x \in es : x.kind = "import" /\ x.from \in S}}, n - 1)
  IN R({Main2}, 6)
Deps2(es) == {Target2(e) : e \in {x \in es : x.from \in Followed2(es)}}
MaxEdges2 == 4

\* ------------------------------------------------------------------ C API callbacks
\* a native function registered by the host (sum of its numeric arguments, a failing one, one building a JSON value
\* through the value-construction calls) and an import callback serving a virtual file tree
Natives == {"sum", "fail", "build"}
Arities == 0..3
NativeOutcome(f, n, given) ==
  IF given # n THEN Err                                        \* wrong number of arguments is an error of the call
  ELSE CASE f = "sum" -> [k |-> "val", tag |-> "SUM"]          \* 1 + 2 + ... + n
         [] f = "fail" -> Err                                  \* success = 0: the returned string is the error
         [] f = "build" -> [k |-> "val", tag |-> "BUILD"]      \* {xs: [args..., "s", true, null]}
ImportGraphs == {"leaf", "chain", "missing", "relative", "twice"}
ImportOutcome(g) == IF g = "missing" THEN Err ELSE [k |-> "val", tag |-> g]

\* ------------------------------------------------------------------ enumeration
VARIABLE st
PInit2 == PInit /\ st = [ph |-> "off"]
PNext == PSteps /\ UNCHANGED st
Off == pc = "off" /\ entered = FALSE /\ cfg = None /\ usedImports = FALSE
CInit0 == \/ (Family = "config" /\ st \in {[ph |-> "seed", ext |-> e, tla |-> t] : e \in Vars, t \in Vars})
         \/ (Family = "deps" /\ st \in {[ph |-> "seed", first |-> [from |-> 1, to |-> to, kind |-> kd]] : to \in Nodes, kd \in EdgeKinds})
         \/ (Family = "deps2" /\ st = [ph |-> "grow", es |-> {}])
         \/ (Family = "callbacks" /\ st \in {[ph |-> "case", cb |-> "native", f |-> f, n |-> n, given |-> g, out |-> NativeOutcome(f, n, g)] :
                                                  f \in Natives, n \in Arities, g \in Arities}
                                           \cup {[ph |-> "case", cb |-> "import", g |-> g, out |-> ImportOutcome(g)] : g \in ImportGraphs})
AllEdges == {[from |-> f, to |-> t, kind |-> kd] : f \in Nodes, t \in Nodes, kd \in EdgeKinds}
CInit == CInit0 /\ Off
CNext == /\ UNCHANGED vars
         /\ st.ph \in {"seed", "grow"}
         /\ \/ (Family = "deps2" /\ Cardinality(st.es) < MaxEdges2
                 /\ \E e \in Edges2 : /\ ValidEdge2(e) /\ e \notin st.es
                                       /\ e.from \in Followed2(st.es)              \* only sites that are reached
                                       /\ st' = [ph |-> "grow", es |-> st.es \cup {e}])
            \/ (Family = "config" /\ \E j \in JPaths, i \in Inputs, o \in Outputs, s \in Stacks :
                   st' = [ph |-> "case", c |-> [ext |-> st.ext, tla |-> st.tla, jp |-> j, inp |-> i, out |-> o, stack |-> s]])
            \/ (Family = "deps" /\ \E more \in SUBSET {e \in AllEdges : e.from # e.to \/ e.kind = "import"} :
                   Cardinality(more) <= 3 /\ st' = [ph |-> "case", edges |-> {st.first} \cup more])
Emit == st.ph \in {"case", "grow"} =>
  PrintT("REPLAY " \o ToJson(
    CASE Family = "deps2" -> [fam |-> "cli.deps2", edges |-> st.es, deps |-> Deps2(st.es)]
      [] Family = "config" -> [fam |-> "cli.config", c |-> st.c, outcome |-> Outcome(st.c), render |-> Render(st.c)]
      [] Family = "deps" -> [fam |-> "cli.deps", edges |-> st.edges, deps |-> Reach(st.edges, 1)]
      [] Family = "callbacks" -> [fam |-> "cli.callbacks", c |-> st]))
=============================================================================
