-------------------------------- MODULE Core --------------------------------
(***************************************************************************)
(* C01 — the operational semantics of the core Jsonnet language as an      *)
(* executable definition.                                                  *)
(*                                                                         *)
(* Eval(e, env, d) is a big-step, call-by-name evaluator written from the  *)
(* Jsonnet specification (desugaring + big-step rules): locals are         *)
(* recursive lets, functions are closures whose parameter defaults see all *)
(* parameters, && and || short-circuit, operators dispatch on operand      *)
(* types, + concatenates / stringifies / inherits, == is deep, comparisons *)
(* are defined on numbers, strings and arrays, array elements / object     *)
(* fields / arguments are evaluated only on demand.  For pure programs     *)
(* call-by-name and call-by-need (C03) have the same outcome, so no store  *)
(* is needed here.  `d` is fuel: programs that exhaust it (divergence, or  *)
(* just big) are outside the decided domain ("oom"), as are results that   *)
(* leave the integer model (inexact division, large shifts, ...).          *)
(*                                                                         *)
(* Runtime values: null, bool, num, str, arr (of thunks), obj (layers with *)
(* their creation environments), func (closure).  Manifest turns a runtime *)
(* value into a tagged JSON value of Values.tla.                           *)
(***************************************************************************)
EXTENDS JsonText

NoE == [t |-> "none"]

\* ------------------------------------------------------------------ results
Ok(v) == [k |-> "val", v |-> v]
Er(c) == [k |-> "err", c |-> c]
Oom   == [k |-> "oom"]
IsOk(r) == r.k = "val"

RNull == [t |-> "null"]
RBool(b) == [t |-> "bool", b |-> b]
RNum(n) == [t |-> "num", n |-> n]
RStr(s) == [t |-> "str", s |-> s]
RArr(ths) == [t |-> "arr", ths |-> ths]
\* ok = the object's assertions have been checked (or are being checked): members of an object are only
\* evaluated during/after its assertion check, so `self` and `$` denote ok objects; a freshly built or
\* extended object is not ok yet
RObj(ls) == [t |-> "obj", ls |-> ls, ok |-> FALSE]
RObjOk(ls) == [t |-> "obj", ls |-> ls, ok |-> TRUE]
RFn(ps, b, env) == [t |-> "func", ps |-> ps, b |-> b, env |-> env]
Th(e, env) == [e |-> e, env |-> env]

InModel(n) == n > 0 - 1000000000 /\ n < 1000000000
NumR(n) == IF InModel(n) THEN Ok(RNum(n)) ELSE Oom

\* ------------------------------------------------------------------ environments
\* env = sequence of frames, innermost last.
\*   [k |-> "let", names, binds]   binds[i] = [e, env, rec]; rec binds are evaluated in the
\*                                 environment up to and including this frame (recursive let,
\*                                 parameter defaults); others carry their own environment (arguments)
\*   [k |-> "obj", self, j]        self = the composed object (its layers), j = layer of the member
LetFrame(names, binds) == [k |-> "let", names |-> names, binds |-> binds]
ObjFrame(self, j) == [k |-> "obj", self |-> self, j |-> j]
RecBind(e) == [e |-> e, env |-> <<>>, rec |-> TRUE]
OwnBind(e, env) == [e |-> e, env |-> env, rec |-> FALSE]

IndexOf(seq, x) == IF \E i \in 1..Len(seq) : seq[i] = x
                   THEN CHOOSE i \in 1..Len(seq) : seq[i] = x /\ \A j \in (i + 1)..Len(seq) : seq[j] # x
                   ELSE 0
RECURSIVE LookupFrom(_, _, _)
\* innermost frame binding x: [i |-> frame index, b |-> bind] or i = 0
LookupFrom(env, x, i) ==
  IF i = 0 THEN [i |-> 0]
  ELSE IF env[i].k = "let" /\ IndexOf(env[i].names, x) # 0
       THEN [i |-> i, b |-> env[i].binds[IndexOf(env[i].names, x)]]
       ELSE LookupFrom(env, x, i - 1)

RECURSIVE InnerObj(_, _), OuterObj(_, _)
InnerObj(env, i) == IF i = 0 THEN 0 ELSE IF env[i].k = "obj" THEN i ELSE InnerObj(env, i - 1)
OuterObj(env, i) == IF i > Len(env) THEN 0 ELSE IF env[i].k = "obj" THEN i ELSE OuterObj(env, i + 1)

\* ------------------------------------------------------------------ helpers on integers
RECURSIVE Pow2(_)
Pow2(n) == IF n = 0 THEN 1 ELSE 2 * Pow2(n - 1)
\* truncated division / remainder with the sign of the dividend
Abs(n) == IF n < 0 THEN 0 - n ELSE n
TDiv(a, b) == LET q == Abs(a) \div Abs(b) IN IF (a < 0) = (b < 0) THEN q ELSE 0 - q
TMod(a, b) == a - b * TDiv(a, b)
RECURSIVE BitOp(_, _, _)
\* bitwise op on non-negative integers
BitOp(op, a, b) ==
  IF a = 0 /\ b = 0 THEN 0
  ELSE LET x == a % 2 y == b % 2
           bit == CASE op = "&" -> IF x = 1 /\ y = 1 THEN 1 ELSE 0
                    [] op = "|" -> IF x = 1 \/ y = 1 THEN 1 ELSE 0
                    [] op = "^" -> IF x # y THEN 1 ELSE 0
       IN bit + 2 * BitOp(op, a \div 2, b \div 2)

TypeName(v) == CASE v.t = "null" -> "null" [] v.t = "bool" -> "boolean" [] v.t = "num" -> "number"
                 [] v.t = "str" -> "string" [] v.t = "arr" -> "array" [] v.t = "obj" -> "object"
                 [] v.t = "func" -> "function"
Ascii(str) == CASE str = "null" -> <<110, 117, 108, 108>> [] str = "boolean" -> <<98, 111, 111, 108, 101, 97, 110>>
                [] str = "number" -> <<110, 117, 109, 98, 101, 114>> [] str = "string" -> <<115, 116, 114, 105, 110, 103>>
                [] str = "array" -> <<97, 114, 114, 97, 121>> [] str = "object" -> <<111, 98, 106, 101, 99, 116>>
                [] str = "function" -> <<102, 117, 110, 99, 116, 105, 111, 110>>

\* ------------------------------------------------------------------ objects (declarative model, cf. Objects.tla)
\* layer = [fs |-> Seq([n, vis, plus, e]), ls |-> [names, exprs] (object locals), as |-> Seq([c, m]), env]
LDefines(ls, j, n) == \E i \in 1..Len(ls[j].fs) : ls[j].fs[i].n = n
LField(ls, j, n) == ls[j].fs[CHOOSE i \in 1..Len(ls[j].fs) : ls[j].fs[i].n = n]
LDefs(ls, n, s) == {j \in 1..(s - 1) : LDefines(ls, j, n)}
MaxOf(S) == CHOOSE x \in S : \A y \in S : y <= x
RECURSIVE LVis(_, _, _)
LVis(ls, n, s) ==
  LET D == LDefs(ls, n, s) IN
  IF D = {} THEN "absent"
  ELSE LET j == MaxOf(D) v == LField(ls, j, n).vis IN
       IF v = "::" THEN "hidden" ELSE IF v = ":::" THEN "visible"
       ELSE LET below == LVis(ls, n, j) IN IF below = "absent" THEN "visible" ELSE below
AllFieldNames(ls) == UNION {{ls[j].fs[i].n : i \in 1..Len(ls[j].fs)} : j \in 1..Len(ls)}
VisFieldNames(ls) == {n \in AllFieldNames(ls) : LVis(ls, n, Len(ls) + 1) = "visible"}
\* ascending code-point order
RECURSIVE SortNames(_)
SortNames(S) == IF S = {} THEN <<>>
                ELSE LET m == CHOOSE x \in S : \A y \in S : x = y \/ SeqLess(x, y) IN <<m>> \o SortNames(S \ {m})
\* environment in which the members of layer j are evaluated
MemberEnv(ls, j) ==
  LET l == ls[j] base == l.env \o <<ObjFrame(ls, j)>> IN
  IF l.ls.names = <<>> THEN base
  ELSE base \o <<LetFrame(l.ls.names, [i \in 1..Len(l.ls.names) |-> RecBind(l.ls.exprs[i])])>>

\* ------------------------------------------------------------------ the evaluator
RECURSIVE Eval(_, _, _), Force(_, _), EvalBin(_, _, _, _, _), ObjGet(_, _, _, _), ObjRead(_, _, _, _),
          RunAsserts(_, _), Apply(_, _, _, _, _), ValEq(_, _, _), ValCmp(_, _, _), ManifestV(_, _),
          ToStr(_, _), EvalSeq(_, _, _, _), BuildObj(_, _, _, _, _), EvalStd(_, _, _, _), ForceAll(_, _, _),
          CompIter(_, _, _, _, _, _), FoldOver(_, _, _, _, _), CallTh(_, _, _)

Force(th, d) == Eval(th.e, th.env, d)

\* field n of object ls for a lookup bounded by s; Absent when there is none
ObjGet(ls, n, s, d) ==
  IF d = 0 THEN Oom
  ELSE LET D == LDefs(ls, n, s) IN
       IF D = {} THEN [k |-> "absent"]
       ELSE LET j == MaxOf(D) f == LField(ls, j, n)
                v == Eval(f.e, MemberEnv(ls, j), d - 1) IN
            IF ~f.plus THEN v
            ELSE IF ~IsOk(v) THEN v
            ELSE LET inh == ObjGet(ls, n, j, d - 1) IN
                 IF inh.k = "absent" THEN v
                 ELSE IF ~IsOk(inh) THEN inh
                 ELSE EvalBin("+", inh.v, v.v, d - 1, TRUE)

\* all assertions of all layers hold (each evaluated against the final object)
RunAsserts(ls, d) ==
  LET bad == {<<j, i>> \in UNION {{<<j, i>> : i \in 1..Len(ls[j].as)} : j \in 1..Len(ls)} :
                LET r == Eval(ls[j].as[i].c, MemberEnv(ls, j), d) IN ~(IsOk(r) /\ r.v = RBool(TRUE))} IN
  IF bad = {} THEN Ok(RNull)
  ELSE LET x == CHOOSE y \in bad : TRUE
           r == Eval(ls[x[1]].as[x[2]].c, MemberEnv(ls, x[1]), d) IN
       IF r.k = "oom" THEN Oom ELSE Er("assert")
HasAsserts(ls) == \E j \in 1..Len(ls) : ls[j].as # <<>>

\* reading obj.n as an expression: assertions first, a missing field is an error
ObjRead(o, n, s, d) ==
  LET a == IF ~o.ok /\ HasAsserts(o.ls) THEN RunAsserts(o.ls, d) ELSE Ok(RNull) IN
  IF ~IsOk(a) THEN a
  ELSE LET r == ObjGet(o.ls, n, s, d) IN IF r.k = "absent" THEN Er("nofield") ELSE r

\* evaluate a sequence of expressions strictly, left to right: Ok(<<values>>) or the first failure
EvalSeq(es, env, d, acc) ==
  IF es = <<>> THEN Ok(acc)
  ELSE LET r == Eval(Head(es), env, d) IN
       IF ~IsOk(r) THEN r ELSE EvalSeq(Tail(es), env, d, Append(acc, r.v))

\* deep equality (== on values): Ok(RBool) / error (functions) / oom
ValEq(a, b, d) ==
  IF d = 0 THEN Oom
  ELSE IF a.t = "func" \/ b.t = "func" THEN
         IF a.t = b.t THEN Er("type") ELSE Ok(RBool(FALSE))
  ELSE IF a.t # b.t THEN Ok(RBool(FALSE))
  ELSE CASE a.t = "null" -> Ok(RBool(TRUE))
         [] a.t = "bool" -> Ok(RBool(a.b = b.b))
         [] a.t = "num"  -> Ok(RBool(a.n = b.n))
         [] a.t = "str"  -> Ok(RBool(a.s = b.s))
         [] a.t = "arr"  ->
              IF Len(a.ths) # Len(b.ths) THEN Ok(RBool(FALSE))
              ELSE LET F[i \in 1..(Len(a.ths) + 1)] ==
                         IF i > Len(a.ths) THEN Ok(RBool(TRUE))
                         ELSE LET x == Force(a.ths[i], d - 1) IN
                              IF ~IsOk(x) THEN x
                              ELSE LET y == Force(b.ths[i], d - 1) IN
                                   IF ~IsOk(y) THEN y
                                   ELSE LET e == ValEq(x.v, y.v, d - 1) IN
                                        IF ~IsOk(e) THEN e ELSE IF e.v.b THEN F[i + 1] ELSE e
                   IN F[1]
         [] a.t = "obj"  ->
              LET na == VisFieldNames(a.ls) nb == VisFieldNames(b.ls) IN
              IF na # nb THEN Ok(RBool(FALSE))
              ELSE LET names == SortNames(na)
                       F[i \in 1..(Len(names) + 1)] ==
                         IF i > Len(names) THEN Ok(RBool(TRUE))
                         ELSE LET x == ObjRead(a, names[i], Len(a.ls) + 1, d - 1) IN
                              IF ~IsOk(x) THEN x
                              ELSE LET y == ObjRead(b, names[i], Len(b.ls) + 1, d - 1) IN
                                   IF ~IsOk(y) THEN y
                                   ELSE LET e == ValEq(x.v, y.v, d - 1) IN
                                        IF ~IsOk(e) THEN e ELSE IF e.v.b THEN F[i + 1] ELSE e
                   IN F[1]

\* three-way comparison for < <= > >= : Ok(RNum(-1|0|1)) or type error
ValCmp(a, b, d) ==
  IF d = 0 THEN Oom
  ELSE IF a.t = "num" /\ b.t = "num" THEN Ok(RNum(IF a.n < b.n THEN 0 - 1 ELSE IF a.n = b.n THEN 0 ELSE 1))
  ELSE IF a.t = "str" /\ b.t = "str" THEN Ok(RNum(IF a.s = b.s THEN 0 ELSE IF SeqLess(a.s, b.s) THEN 0 - 1 ELSE 1))
  ELSE IF a.t = "arr" /\ b.t = "arr" THEN
       LET la == Len(a.ths) lb == Len(b.ths) m == IF la < lb THEN la ELSE lb
           F[i \in 1..(m + 1)] ==
             IF i > m THEN Ok(RNum(IF la < lb THEN 0 - 1 ELSE IF la = lb THEN 0 ELSE 1))
             ELSE LET x == Force(a.ths[i], d - 1) IN
                  IF ~IsOk(x) THEN x
                  ELSE LET y == Force(b.ths[i], d - 1) IN
                       IF ~IsOk(y) THEN y
                       ELSE LET c == ValCmp(x.v, y.v, d - 1) IN
                            IF ~IsOk(c) THEN c ELSE IF c.v.n = 0 THEN F[i + 1] ELSE c
       IN F[1]
  ELSE Er("type")

\* runtime value -> JSON value of Values.tla (forces everything visible)
ManifestV(v, d) ==
  IF d = 0 THEN Oom
  ELSE CASE v.t = "null" -> Ok(VNull)
         [] v.t = "bool" -> Ok(VBool(v.b))
         [] v.t = "num"  -> Ok(VNum(v.n))
         [] v.t = "str"  -> Ok(VStr(v.s))
         [] v.t = "func" -> Er("manifest_function")
         [] v.t = "arr"  ->
              LET F[i \in 1..(Len(v.ths) + 1)] ==
                    IF i > Len(v.ths) THEN Ok(<<>>)
                    ELSE LET x == Force(v.ths[i], d - 1) IN
                         IF ~IsOk(x) THEN x
                         ELSE LET m == ManifestV(x.v, d - 1) IN
                              IF ~IsOk(m) THEN m
                              ELSE LET rest == F[i + 1] IN IF ~IsOk(rest) THEN rest ELSE Ok(<<m.v>> \o rest.v)
                  r == F[1]
              IN IF IsOk(r) THEN Ok(VArr(r.v)) ELSE r
         [] v.t = "obj"  ->
              LET a == IF ~v.ok /\ HasAsserts(v.ls) THEN RunAsserts(v.ls, d - 1) ELSE Ok(RNull)
                  names == SortNames(VisFieldNames(v.ls))
                  F[i \in 1..(Len(names) + 1)] ==
                    IF i > Len(names) THEN Ok(<<>>)
                    ELSE LET x == ObjGet(v.ls, names[i], Len(v.ls) + 1, d - 1) IN
                         IF ~IsOk(x) THEN x
                         ELSE LET m == ManifestV(x.v, d - 1) IN
                              IF ~IsOk(m) THEN m
                              ELSE LET rest == F[i + 1] IN
                                   IF ~IsOk(rest) THEN rest ELSE Ok(<<Fld(names[i], FALSE, m.v)>> \o rest.v)
              IN IF ~IsOk(a) THEN a
                 ELSE LET r == F[1] IN IF IsOk(r) THEN Ok(VObj(r.v)) ELSE r

\* std.toString / implicit conversion in string concatenation
ToStr(v, d) ==
  IF v.t = "str" THEN Ok(v.s)
  ELSE LET m == ManifestV(v, d) IN IF ~IsOk(m) THEN m ELSE Ok(W(m.v, FmtToString, <<>>))

\* binary operators on evaluated operands (strict = both already evaluated)
EvalBin(op, a, b, d, strict) ==
  CASE op = "+" ->
         IF a.t = "num" /\ b.t = "num" THEN NumR(a.n + b.n)
         ELSE IF a.t = "str" \/ b.t = "str" THEN
              LET x == ToStr(a, d) IN
              IF ~IsOk(x) THEN x
              ELSE LET y == ToStr(b, d) IN IF ~IsOk(y) THEN y ELSE Ok(RStr(x.v \o y.v))
         ELSE IF a.t = "arr" /\ b.t = "arr" THEN Ok(RArr(a.ths \o b.ths))
         ELSE IF a.t = "obj" /\ b.t = "obj" THEN Ok(RObj(a.ls \o b.ls))
         ELSE Er("type")
    [] op = "-" -> IF a.t = "num" /\ b.t = "num" THEN NumR(a.n - b.n) ELSE Er("type")
    [] op = "*" -> IF a.t = "num" /\ b.t = "num"
                   THEN (IF Abs(a.n) < 30000 /\ Abs(b.n) < 30000 THEN NumR(a.n * b.n) ELSE Oom)
                   ELSE IF (a.t = "str" /\ b.t = "num") \/ (a.t = "num" /\ b.t = "str") THEN Oom   \* jrsonnet extension, undecided
                   ELSE Er("type")
    [] op = "/" -> IF a.t = "num" /\ b.t = "num"
                   THEN (IF b.n = 0 THEN Er("divzero")
                         ELSE IF TMod(a.n, b.n) = 0 THEN NumR(TDiv(a.n, b.n)) ELSE Oom)
                   ELSE Er("type")
    [] op = "%" -> IF a.t = "num" /\ b.t = "num"
                   THEN (IF b.n = 0 THEN Er("divzero") ELSE NumR(TMod(a.n, b.n)))
                   ELSE IF a.t = "str" THEN Oom                \* std.format: Format.tla (C12)
                   ELSE Er("type")
    [] op \in {"<<", ">>"} ->
         IF a.t = "num" /\ b.t = "num"
         THEN (IF b.n < 0 THEN Er("shift")
               ELSE IF b.n > 20 \/ Abs(a.n) > 1000 THEN Oom
               ELSE IF op = "<<" THEN NumR(a.n * Pow2(b.n))
               ELSE NumR(IF a.n >= 0 THEN a.n \div Pow2(b.n) ELSE 0 - ((0 - a.n + Pow2(b.n) - 1) \div Pow2(b.n))))
         ELSE Er("type")
    [] op \in {"&", "|", "^"} ->
         IF a.t = "num" /\ b.t = "num"
         THEN (IF a.n < 0 \/ b.n < 0 THEN Oom ELSE NumR(BitOp(op, a.n, b.n)))
         ELSE Er("type")
    [] op \in {"<", "<=", ">", ">="} ->
         LET c == ValCmp(a, b, d) IN
         IF ~IsOk(c) THEN c
         ELSE Ok(RBool(CASE op = "<" -> c.v.n < 0 [] op = "<=" -> c.v.n <= 0
                         [] op = ">" -> c.v.n > 0 [] op = ">=" -> c.v.n >= 0))
    [] op = "==" -> ValEq(a, b, d)
    [] op = "!=" -> LET e == ValEq(a, b, d) IN IF ~IsOk(e) THEN e ELSE Ok(RBool(~e.v.b))
    [] op = "in" -> IF a.t = "str" /\ b.t = "obj" THEN Ok(RBool(LDefs(b.ls, a.s, Len(b.ls) + 1) # {}))
                    ELSE Er("type")

\* function application: positional then named arguments, defaults evaluated in the callee's scope
\* with all parameters visible; errors: too many, unknown name, bound twice, not bound
Apply(fv, pos, named, cenv, d) ==
  IF fv.t # "func" THEN Er("notfunc")
  ELSE LET ps == fv.ps
           pnames == [i \in 1..Len(ps) |-> ps[i].x]
           nnames == [i \in 1..Len(named) |-> named[i].x]
       IN IF Len(pos) > Len(ps) THEN Er("toomany")
          ELSE IF \E i \in 1..Len(named) : IndexOf(pnames, nnames[i]) = 0 THEN Er("unknownparam")
          ELSE IF \E i \in 1..Len(named) : IndexOf(pnames, nnames[i]) <= Len(pos) THEN Er("boundtwice")
          ELSE IF \E i, j \in 1..Len(named) : i # j /\ nnames[i] = nnames[j] THEN Er("boundtwice")
          ELSE LET bindOf(i) ==
                     IF i <= Len(pos) THEN OwnBind(pos[i], cenv)
                     ELSE IF IndexOf(nnames, pnames[i]) # 0 THEN OwnBind(named[IndexOf(nnames, pnames[i])].e, cenv)
                     ELSE IF ps[i].d # NoE THEN RecBind(ps[i].d)
                     ELSE [e |-> NoE, env |-> <<>>, rec |-> FALSE]
                   binds == [i \in 1..Len(ps) |-> bindOf(i)]
               IN IF \E i \in 1..Len(ps) : binds[i].e = NoE THEN Er("notbound")
                  ELSE Eval(fv.b, fv.env \o <<LetFrame(pnames, binds)>>, d)

\* object construction: field names are evaluated now (strictly), null names are skipped,
\* duplicates are an error; bodies stay unevaluated
BuildObj(o, env, d, i, acc) ==
  IF i > Len(o.fields)
  THEN Ok(RObj(<<[fs |-> acc, ls |-> [names |-> [j \in 1..Len(o.locals) |-> o.locals[j].x],
                                       exprs |-> [j \in 1..Len(o.locals) |-> o.locals[j].e]],
                  as |-> o.asserts, env |-> env]>>))
  ELSE LET f == o.fields[i]
           \* computed names see the enclosing scope only (self/locals of this object are not in scope)
           nm == Eval(f.name, env, d) IN
       IF ~IsOk(nm) THEN nm
       ELSE IF nm.v.t = "null" THEN BuildObj(o, env, d, i + 1, acc)
       ELSE IF nm.v.t # "str" THEN Er("fieldname")
       ELSE IF \E q \in 1..Len(acc) : acc[q].n = nm.v.s THEN Er("dupfield")
       ELSE BuildObj(o, env, d, i + 1, Append(acc, [n |-> nm.v.s, vis |-> f.vis, plus |-> f.plus, e |-> f.e]))

\* [e for x in over if cond]: one thunk per selected element, in order
CompIter(c, env, ths, i, d, acc) ==
  IF i > Len(ths) THEN Ok(acc)
  ELSE LET fr == LetFrame(<<c.x>>, <<OwnBind(ths[i].e, ths[i].env)>>)
           env2 == env \o <<fr>> IN
       IF c.cond = NoE THEN CompIter(c, env, ths, i + 1, d, Append(acc, Th(c.e, env2)))
       ELSE LET b == Eval(c.cond, env2, d) IN
            IF ~IsOk(b) THEN b
            ELSE IF b.v.t # "bool" THEN Er("type")
            ELSE CompIter(c, env, ths, i + 1, d, IF b.v.b THEN Append(acc, Th(c.e, env2)) ELSE acc)

ForceAll(ths, d, acc) ==
  IF ths = <<>> THEN Ok(acc)
  ELSE LET r == Force(Head(ths), d) IN IF ~IsOk(r) THEN r ELSE ForceAll(Tail(ths), d, Append(acc, r.v))

\* applying a function value to already-built thunks (used by std.map / foldl / makeArray)
CallTh(fv, ths, d) ==
  LET names == [i \in 1..Len(ths) |-> IF i = 1 THEN "_1" ELSE IF i = 2 THEN "_2" ELSE "_3"]
      env == <<LetFrame(names, [i \in 1..Len(ths) |-> OwnBind(ths[i].e, ths[i].env)])>> IN
  Apply(fv, [i \in 1..Len(ths) |-> [t |-> "var", x |-> names[i]]], <<>>, env, d)

FoldOver(fv, ths, i, accTh, d) ==
  IF i > Len(ths) THEN Force(accTh, d)
  ELSE \* acc is passed lazily: func(acc, arr[i])
       FoldOver(fv, ths, i + 1,
                Th([t |-> "callth", f |-> fv, a |-> <<accTh, ths[i]>>], <<>>), d)

EvalStd(e, env, d, args) ==
  LET f == e.f IN
  CASE f = "length" ->
         LET a == args[1] IN
         (CASE a.t = "arr" -> Ok(RNum(Len(a.ths))) [] a.t = "str" -> Ok(RNum(Len(a.s)))
            [] a.t = "obj" -> Ok(RNum(Cardinality(VisFieldNames(a.ls)))) [] a.t = "func" -> Ok(RNum(Len(a.ps)))
            [] OTHER -> Er("type"))
    [] f = "type" -> Ok(RStr(Ascii(TypeName(args[1]))))
    [] f = "toString" -> LET s == ToStr(args[1], d) IN IF IsOk(s) THEN Ok(RStr(s.v)) ELSE s
    [] f = "objectFields" ->
         IF args[1].t # "obj" THEN Er("type")
         ELSE LET ns == SortNames(VisFieldNames(args[1].ls)) IN
              Ok(RArr([i \in 1..Len(ns) |-> Th([t |-> "str", s |-> ns[i]], <<>>)]))
    [] f = "objectHasAll" ->
         IF args[1].t # "obj" \/ args[2].t # "str" THEN Er("type")
         ELSE Ok(RBool(LDefs(args[1].ls, args[2].s, Len(args[1].ls) + 1) # {}))
    [] f = "objectHas" ->
         IF args[1].t # "obj" \/ args[2].t # "str" THEN Er("type")
         ELSE Ok(RBool(LVis(args[1].ls, args[2].s, Len(args[1].ls) + 1) = "visible"))
    [] f = "range" ->
         IF args[1].t # "num" \/ args[2].t # "num" THEN Er("type")
         ELSE IF args[2].n - args[1].n > 20 THEN Oom
         ELSE Ok(RArr([i \in 1..(IF args[2].n < args[1].n THEN 0 ELSE args[2].n - args[1].n + 1) |->
                        Th([t |-> "num", n |-> args[1].n + i - 1], <<>>)]))
    [] f = "makeArray" ->
         IF args[1].t # "num" \/ args[2].t # "func" THEN Er("type")
         ELSE IF args[1].n < 0 THEN Er("range") ELSE IF args[1].n > 20 THEN Oom
         ELSE Ok(RArr([i \in 1..args[1].n |->
                        Th([t |-> "callth", f |-> args[2], a |-> <<Th([t |-> "num", n |-> i - 1], <<>>)>>], <<>>)]))
    [] f = "map" ->
         IF args[1].t # "func" \/ args[2].t # "arr" THEN (IF args[2].t = "str" THEN Oom ELSE Er("type"))
         ELSE Ok(RArr([i \in 1..Len(args[2].ths) |->
                        Th([t |-> "callth", f |-> args[1], a |-> <<args[2].ths[i]>>], <<>>)]))
    [] f = "foldl" ->
         IF args[1].t # "func" \/ args[2].t # "arr" THEN (IF args[2].t = "str" THEN Oom ELSE Er("type"))
         ELSE FoldOver(args[1], args[2].ths, 1, Th([t |-> "quote", v |-> args[3]], <<>>), d)

Eval(e, env, d) ==
  IF d = 0 THEN Oom
  ELSE
  CASE e.t = "null"  -> Ok(RNull)
    [] e.t = "true"  -> Ok(RBool(TRUE))
    [] e.t = "false" -> Ok(RBool(FALSE))
    [] e.t = "num"   -> Ok(RNum(e.n))
    [] e.t = "str"   -> Ok(RStr(e.s))
    [] e.t = "quote" -> Ok(e.v)                                  \* an already evaluated value (internal)
    [] e.t = "callth" -> CallTh(e.f, e.a, d - 1)                 \* function applied to thunks (internal)
    [] e.t = "var" ->
         LET r == LookupFrom(env, e.x, Len(env)) IN
         IF r.i = 0 THEN Er("unbound")
         ELSE IF r.b.rec THEN Eval(r.b.e, SubSeq(env, 1, r.i), d - 1)
         ELSE Eval(r.b.e, r.b.env, d - 1)
    [] e.t = "self" ->
         LET i == InnerObj(env, Len(env)) IN IF i = 0 THEN Er("noself") ELSE Ok(RObjOk(env[i].self))
    [] e.t = "dollar" ->
         LET i == OuterObj(env, 1) IN IF i = 0 THEN Er("noself") ELSE Ok(RObjOk(env[i].self))
    [] e.t = "arr" -> Ok(RArr([i \in 1..Len(e.es) |-> Th(e.es[i], env)]))
    [] e.t = "comp" ->
         LET o == Eval(e.over, env, d - 1) IN
         IF ~IsOk(o) THEN o
         ELSE IF o.v.t # "arr" THEN Er("type")
         ELSE LET r == CompIter(e, env, o.v.ths, 1, d - 1, <<>>) IN IF IsOk(r) THEN Ok(RArr(r.v)) ELSE r
    [] e.t = "obj" -> BuildObj(e, env, d - 1, 1, <<>>)
    [] e.t = "un" ->
         LET ua == Eval(e.e, env, d - 1) IN
         IF ~IsOk(ua) THEN ua
         ELSE (CASE e.op = "-" -> IF ua.v.t = "num" THEN NumR(0 - ua.v.n) ELSE Er("type")
                [] e.op = "+" -> IF ua.v.t = "num" THEN ua ELSE Er("type")
                [] e.op = "!" -> IF ua.v.t = "bool" THEN Ok(RBool(~ua.v.b)) ELSE Er("type")
                [] e.op = "~" -> IF ua.v.t = "num" THEN NumR(0 - ua.v.n - 1) ELSE Er("type"))
    [] e.t = "bin" ->
         IF e.op \in {"&&", "||"}
         THEN LET la == Eval(e.l, env, d - 1) IN
              IF ~IsOk(la) THEN la
              ELSE IF la.v.t # "bool" THEN Er("type")
              ELSE IF (e.op = "&&" /\ ~la.v.b) \/ (e.op = "||" /\ la.v.b) THEN la
              ELSE LET lb == Eval(e.r, env, d - 1) IN
                   IF ~IsOk(lb) THEN lb ELSE IF lb.v.t # "bool" THEN Er("type") ELSE lb
         ELSE LET ba == Eval(e.l, env, d - 1) IN
              IF ~IsOk(ba) THEN ba
              ELSE LET bb == Eval(e.r, env, d - 1) IN
                   IF ~IsOk(bb) THEN bb ELSE EvalBin(e.op, ba.v, bb.v, d - 1, TRUE)
    [] e.t = "local" ->
         Eval(e.e, env \o <<LetFrame([i \in 1..Len(e.binds) |-> e.binds[i].x],
                                     [i \in 1..Len(e.binds) |-> RecBind(e.binds[i].e)])>>, d - 1)
    [] e.t = "if" ->
         LET c == Eval(e.c, env, d - 1) IN
         IF ~IsOk(c) THEN c
         ELSE IF c.v.t # "bool" THEN Er("type")
         ELSE IF c.v.b THEN Eval(e.a, env, d - 1)
         ELSE IF e.b = NoE THEN Ok(RNull) ELSE Eval(e.b, env, d - 1)
    [] e.t = "fn" -> Ok(RFn(e.ps, e.b, env))
    [] e.t = "app" ->
         LET f == Eval(e.f, env, d - 1) IN
         IF ~IsOk(f) THEN f ELSE Apply(f.v, e.pos, e.named, env, d - 1)
    [] e.t = "idx" ->
         LET a == Eval(e.e, env, d - 1) IN
         IF ~IsOk(a) THEN a
         ELSE LET i == Eval(e.i, env, d - 1) IN
              IF ~IsOk(i) THEN i
              ELSE (CASE a.v.t = "arr" ->
                          IF i.v.t # "num" THEN Er("type")
                          ELSE IF i.v.n < 0 \/ i.v.n >= Len(a.v.ths) THEN Er("bounds")
                          ELSE Force(a.v.ths[i.v.n + 1], d - 1)
                     [] a.v.t = "str" ->
                          IF i.v.t # "num" THEN Er("type")
                          ELSE IF i.v.n < 0 \/ i.v.n >= Len(a.v.s) THEN Er("bounds")
                          ELSE Ok(RStr(<<a.v.s[i.v.n + 1]>>))
                     [] a.v.t = "obj" ->
                          IF i.v.t # "str" THEN Er("type") ELSE ObjRead(a.v, i.v.s, Len(a.v.ls) + 1, d - 1)
                     [] OTHER -> Er("type"))
    [] e.t = "sup" ->                                            \* super[i]
         LET o == InnerObj(env, Len(env)) IN
         IF o = 0 THEN Er("noself")
         ELSE LET i == Eval(e.i, env, d - 1) IN
              IF ~IsOk(i) THEN i
              ELSE IF i.v.t # "str" THEN Er("type")
              ELSE LET r == ObjGet(env[o].self, i.v.s, env[o].j, d - 1) IN
                   IF r.k = "absent" THEN Er("nofield") ELSE r
    [] e.t = "insup" ->                                          \* e in super
         LET o == InnerObj(env, Len(env)) IN
         IF o = 0 THEN Er("noself")
         ELSE LET i == Eval(e.e, env, d - 1) IN
              IF ~IsOk(i) THEN i
              ELSE IF i.v.t # "str" THEN Er("type")
              ELSE Ok(RBool(LDefs(env[o].self, i.v.s, env[o].j) # {}))
    [] e.t = "slice" ->
         LET a == Eval(e.e, env, d - 1)
             part(x) == IF x = NoE THEN Ok(RNull) ELSE Eval(x, env, d - 1) IN
         IF ~IsOk(a) THEN a
         ELSE LET s == part(e.a) IN IF ~IsOk(s) THEN s
         ELSE LET n == part(e.b) IN IF ~IsOk(n) THEN n
         ELSE LET k == part(e.c) IN IF ~IsOk(k) THEN k
         ELSE IF a.v.t \notin {"arr", "str"} THEN Er("type")
         ELSE IF \E x \in {s.v, n.v, k.v} : x.t \notin {"null", "num"} THEN Er("type")
         ELSE IF k.v.t = "num" /\ k.v.n < 1 THEN Er("step")
         ELSE LET len == IF a.v.t = "arr" THEN Len(a.v.ths) ELSE Len(a.v.s)
                  clamp(x, dflt) == IF x.t = "null" THEN dflt
                                    ELSE IF x.n < 0 THEN (IF len + x.n < 0 THEN 0 ELSE len + x.n)
                                    ELSE IF x.n > len THEN len ELSE x.n
                  lo == clamp(s.v, 0) hi == clamp(n.v, len)
                  st == IF k.v.t = "null" THEN 1 ELSE k.v.n
                  cnt == IF lo >= hi THEN 0 ELSE ((hi - lo) + (st - 1)) \div st
              IN IF a.v.t = "arr" THEN Ok(RArr([i \in 1..cnt |-> a.v.ths[lo + (i - 1) * st + 1]]))
                 ELSE Ok(RStr([i \in 1..cnt |-> a.v.s[lo + (i - 1) * st + 1]]))
    [] e.t = "err" ->
         LET m == Eval(e.e, env, d - 1) IN
         IF ~IsOk(m) THEN m
         ELSE LET s == ToStr(m.v, d - 1) IN IF ~IsOk(s) THEN s ELSE [k |-> "err", c |-> "user", m |-> s.v]
    [] e.t = "assert" ->
         LET c == Eval(e.c, env, d - 1) IN
         IF ~IsOk(c) THEN c
         ELSE IF c.v.t # "bool" THEN Er("type")
         ELSE IF c.v.b THEN Eval(e.e, env, d - 1)
         ELSE IF e.m = NoE THEN Er("assert")
         ELSE LET m == Eval(e.m, env, d - 1) IN IF ~IsOk(m) THEN m ELSE Er("assert")
    [] e.t = "std" ->
         LET as == EvalSeq(e.args, env, d - 1, <<>>) IN
         IF ~IsOk(as) THEN as ELSE EvalStd(e, env, d - 1, as.v)

\* ------------------------------------------------------------------ whole programs
\* outcome of evaluating and manifesting a closed program with the given fuel:
\* [k |-> "val", v |-> JSON value] | [k |-> "err", c |-> class] | [k |-> "oom"]
\* (fuel bounds the nesting depth; call-by-name work can be exponential in it, so families of
\* machine-generated programs use a small fuel and hand-written recursive programs a larger one)
RunF(e, fuel) ==
  LET r == Eval(e, <<>>, fuel) IN
  IF ~IsOk(r) THEN r ELSE ManifestV(r.v, fuel)
=============================================================================
