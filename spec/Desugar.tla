------------------------------ MODULE Desugar ------------------------------
(***************************************************************************)
(* C01 (experimental syntax) - "an experimental-syntax program gives the   *)
(* result of its documented desugaring" (docs/features.adoc).              *)
(*                                                                         *)
(* Destructuring patterns, null coalescing and object iteration are        *)
(* defined here by translation: Bindings(p, s) is the list of (name,       *)
(* access expression over the subject s) a pattern p introduces; the       *)
(* driver prints both the sugared program and the translated one and the   *)
(* experimental build of the implementation must evaluate them to the same *)
(* outcome.  Expressions are a small term language of accesses:            *)
(*   S                      the subject                                    *)
(*   [t|->"field", e, f]    e.f                                            *)
(*   [t|->"index", e, i]    e[i]                                           *)
(*   [t|->"fromend", e, k]  e[std.length(e) - k]                           *)
(*   [t|->"slice", e, a, k] e[a : std.length(e) - k]                       *)
(*   [t|->"default", e, f, d]  if std.objectHas(e, f) then e.f else d      *)
(*   [t|->"objrest", e, fs] the fields of e not in fs                      *)
(***************************************************************************)
EXTENDS Integers, Sequences, FiniteSets, TLC, Json

CONSTANTS Family

S == [t |-> "subject"]
Field(e, f) == [t |-> "field", e |-> e, f |-> f]
Index(e, i) == [t |-> "index", e |-> e, i |-> i]
FromEnd(e, k) == [t |-> "fromend", e |-> e, k |-> k]
Slice(e, a, k) == [t |-> "slice", e |-> e, a |-> a, k |-> k]
Default(e, f, d) == [t |-> "default", e |-> e, f |-> f, d |-> d]
ObjRest(e, fs) == [t |-> "objrest", e |-> e, fs |-> fs]

\* patterns
PName(n) == [t |-> "name", n |-> n]
PSkip == [t |-> "skip"]
\* object pattern: fields = sequence of [f, into (pattern), d (default number or -1 for none)], rest = name or ""
PObj(fields, rest) == [t |-> "obj", fields |-> fields, rest |-> rest]
\* array pattern: start / end = sequences of patterns, rest = "none" | "drop" | name
PArr(start, rest, end) == [t |-> "arr", start |-> start, rest |-> rest, end |-> end]

RECURSIVE Bindings(_, _), BindFields(_, _, _), BindSeq(_, _, _, _)
Bindings(p, s) ==
  CASE p.t = "name" -> <<[n |-> p.n, e |-> s]>>
    [] p.t = "skip" -> <<>>
    [] p.t = "obj" -> BindFields(p.fields, s, 1)
                      \o (IF p.rest = "" THEN <<>>
                          ELSE <<[n |-> p.rest, e |-> ObjRest(s, {p.fields[i].f : i \in 1..Len(p.fields)})]>>)
    [] p.t = "arr" -> BindSeq(p.start, s, 1, 0)
                      \o (IF p.rest \in {"none", "drop"} THEN <<>>
                          ELSE <<[n |-> p.rest, e |-> Slice(s, Len(p.start), Len(p.end))]>>)
                      \o BindSeq(p.end, s, 1, Len(p.end))
BindFields(fs, s, i) ==
  IF i > Len(fs) THEN <<>>
  ELSE LET fd == fs[i]
           acc == IF fd.d = -1 THEN Field(s, fd.f) ELSE Default(s, fd.f, fd.d)
       IN Bindings(fd.into, acc) \o BindFields(fs, s, i + 1)
\* start elements are counted from the front (k = 0), the k end elements from the back
BindSeq(ps, s, i, k) ==
  IF i > Len(ps) THEN <<>>
  ELSE Bindings(ps[i], IF k = 0 THEN Index(s, i - 1) ELSE FromEnd(s, k - i + 1)) \o BindSeq(ps, s, i + 1, k)

\* law: a pattern binds each of its names exactly once
RECURSIVE NamesOf(_)
NamesOf(p) == CASE p.t = "name" -> <<p.n>>
                [] p.t = "skip" -> <<>>
                [] p.t = "obj" -> LET RECURSIVE F(_)
                                      F(i) == IF i > Len(p.fields) THEN <<>> ELSE NamesOf(p.fields[i].into) \o F(i + 1)
                                  IN F(1) \o (IF p.rest = "" THEN <<>> ELSE <<p.rest>>)
                [] p.t = "arr" -> LET RECURSIVE G(_, _)
                                      G(ps, i) == IF i > Len(ps) THEN <<>> ELSE NamesOf(ps[i]) \o G(ps, i + 1)
                                  IN G(p.start, 1) \o (IF p.rest \in {"none", "drop"} THEN <<>> ELSE <<p.rest>>) \o G(p.end, 1)
BindsEachNameOnce(p) == LET b == Bindings(p, S) n == NamesOf(p)
                        IN Len(b) = Len(n) /\ \A i \in 1..Len(b) : b[i].n = n[i]

\* ------------------------------------------------------------------ enumeration
Leaf == {PName("x"), PSkip}
FieldSpecs(into) == {[f |-> f, into |-> into, d |-> d] : f \in {"a", "b", "q"}, d \in {-1, 7}}
\* object patterns over fields a, b (present in the subject) and q (absent): 1 or 2 fields, optional rest
ObjPats(inner) ==
  {PObj(<<f1>>, r) : f1 \in FieldSpecs(PName("x")) \cup FieldSpecs(inner), r \in {"", "rest"}}
  \cup {PObj(<<f1, f2>>, r) : f1 \in FieldSpecs(PName("x")), f2 \in {g \in FieldSpecs(PName("y")) : g.f # "q"}, r \in {"", "rest"}}
ArrPats(inner) ==
  {PArr(s, r, e) : s \in {<<>>, <<PName("x")>>, <<PSkip, PName("x")>>, <<inner>>},
                   r \in {"none", "drop", "rest"},
                   e \in {<<>>, <<PName("z")>>, <<PName("z"), PSkip>>}}
Inner1 == {PArr(<<PName("u")>>, "drop", <<>>), PObj(<<[f |-> "a", into |-> PName("u"), d |-> -1]>>, "")}
\* ------------------------------------------------------------------ null coalescing, optional field access, object iteration
\* (source text on both sides: the translation of docs/features.adoc word for word)
CoA == {"null", "1", "false", "'s'", "{f: 1}", "(error 'A')", "[null][0]"}
CoB == {"2", "null", "(error 'B')"}
Coalesce(a, b) == [sugar |-> a \o " ?? " \o b, plain |-> "if " \o a \o " == null then " \o b \o " else " \o a]
OptSubjects == {"null", "{f: 1}", "{g: 1}", "{f: null}", "{f:: 3}", "[null][0]", "(error 'A')"}
OptField(a, style) == [sugar |-> IF style = "dot" THEN a \o "?.f" ELSE a \o "?.['f']",
                       plain |-> "if " \o a \o " != null then std.get(" \o a \o ", 'f', null)"]
IterObjects == {"{}", "{a: 1}", "{b: 2, a: 1}", "{a: {x: 1}, b: [1]}"}
ObjIter(o) == [sugar |-> "[i for i in " \o o \o "]", plain |-> "local o = " \o o \o "; [[k, o[k]] for k in std.objectFields(o)]"]
ObjIterObj(o) == [sugar |-> "{[i[0] + '!']: i[1] for i in " \o o \o "}",
                  plain |-> "local o = " \o o \o "; {[k + '!']: o[k] for k in std.objectFields(o)}"]
MiscCases == {Coalesce(a, b) : a \in CoA, b \in CoB} \cup {OptField(a, st2) : a \in OptSubjects, st2 \in {"dot", "bracket"}}
             \cup {ObjIter(o) : o \in IterObjects} \cup {ObjIterObj(o) : o \in IterObjects}

Pats == CASE Family = "object" -> ObjPats(PName("v")) \cup UNION {ObjPats(i) : i \in Inner1}
          [] Family = "array" -> ArrPats(PName("v")) \cup UNION {ArrPats(i) : i \in Inner1}
          [] OTHER -> {}
\* positions of use: local bind, function parameter, comprehension variable, object-level local
Positions == {"local", "param", "forvar", "objlocal"}

VARIABLE st
Init == IF Family = "misc" THEN st \in {[ph |-> "misc", c |-> c] : c \in MiscCases}
        ELSE st \in {[ph |-> "seed", p |-> p] : p \in Pats}
Next == st.ph = "seed" /\ \E pos \in Positions : st' = [ph |-> "case", p |-> st.p, pos |-> pos]
Laws == st.ph \in {"seed", "case"} => BindsEachNameOnce(st.p)
Emit == /\ (st.ph = "case" =>
             PrintT("REPLAY " \o ToJson([fam |-> "desugar." \o Family, p |-> st.p, pos |-> st.pos, binds |-> Bindings(st.p, S)])))
        /\ (st.ph = "misc" => PrintT("REPLAY " \o ToJson([fam |-> "desugar.misc", sugar |-> st.c.sugar, plain |-> st.c.plain])))
=============================================================================
