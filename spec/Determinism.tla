----------------------------- MODULE Determinism -----------------------------
(***************************************************************************)
(* C16 — results are deterministic and independent of history.             *)
(* The observable output (bytes of the manifestation, or of the error text *)
(* with its trace) of a program under a configuration is a function of     *)
(* (program, configuration) alone: not of the process, the address-space   *)
(* layout, the evaluation state's age, the evaluations that happened       *)
(* before on the thread, or the strings that happen to be interned.        *)
(* memo records the first observation; Observe is enabled only for outputs *)
(* that agree with it.  Contexts are chosen nondeterministically.          *)
(***************************************************************************)
EXTENDS Naturals, Sequences, FiniteSets, TLC

CONSTANTS Programs, Configs, Outputs, MaxObs
Contexts == {"fresh-process", "fresh-state-used-thread", "long-lived-state", "pre-interned"}

VARIABLES memo, nobs, lastCtx
vars == <<memo, nobs, lastCtx>>

None == "none"
Init == memo = [k \in Programs \X Configs |-> None] /\ nobs = 0 /\ lastCtx = "none"

\* the implementation under test answers o for (p, c) in context ctx
Observe(p, c, ctx, o) ==
  /\ nobs < MaxObs
  /\ (memo[<<p, c>>] = None \/ memo[<<p, c>>] = o)
  /\ memo' = [memo EXCEPT ![<<p, c>>] = o]
  /\ nobs' = nobs + 1 /\ lastCtx' = ctx

Next == \E p \in Programs, c \in Configs, ctx \in Contexts, o \in Outputs : Observe(p, c, ctx, o)
Spec == Init /\ [][Next]_vars

\* once observed, an answer never changes
Functional == [][\A k \in DOMAIN memo : memo[k] # None => memo'[k] = memo[k]]_vars
TypeOK == nobs <= MaxObs /\ \A k \in DOMAIN memo : memo[k] \in Outputs \cup {None}
=============================================================================
