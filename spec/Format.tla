------------------------------- MODULE Format -------------------------------
(***************************************************************************)
(* C12 — std.format / the % operator: Python-style %-formatting as adopted *)
(* by Jsonnet.                                                             *)
(*                                                                         *)
(* Part 1: the format-string parser as a state machine over the characters *)
(*   text, percent, optional (key), flags, width or star, optional         *)
(*   .precision or .star, length modifiers, conversion                     *)
(* Part 2: rendering of the integer / character / string conversions with  *)
(* their flags (# 0 - space +), width and precision, consumption of values *)
(* left to right (a star consumes a value, %% consumes none, %(key)        *)
(* indexes an object), and the error conditions.                           *)
(* Floating conversions (e E f F g G) take the digit string of the         *)
(* magnitude from an oracle (the trace records CPython's); the spec fixes  *)
(* sign, padding and alignment around it (LayoutFloat).                    *)
(* Where Python and Jsonnet are known to differ or the documents are       *)
(* silent the result is Unspec (only "no crash" is required).              *)
(***************************************************************************)
EXTENDS Naturals, Integers, Sequences, FiniteSets, TLC, Json

Reject == [k |-> "err"]
Unspec == [k |-> "unspec"]
Text(s) == [k |-> "text", s |-> s]

IsDigit(c) == c >= 48 /\ c <= 57
RECURSIVE NatDigits(_, _)
Digit(d, caps) == IF d < 10 THEN 48 + d ELSE IF caps THEN 55 + d ELSE 87 + d
NatDigits(n, r) == IF n < r[1] THEN <<Digit(n, r[2])>> ELSE NatDigits(n \div r[1], r) \o <<Digit(n % r[1], r[2])>>
RECURSIVE Rep(_, _)
Rep(c, n) == IF n <= 0 THEN <<>> ELSE <<c>> \o Rep(c, n - 1)
Max(a, b) == IF a > b THEN a ELSE b

\* ================================================================== part 1: parsing one code
\* s: the format string (code points); i: index just after "%".
\* Result: [ok, key (seq or "none"), alt, zero, left, blank, plus, width ("none" | n | "star"),
\*          prec ("none" | n | "star"), conv (code point), next]
NoneW == 0 - 1
StarW == 0 - 2

RECURSIVE ReadNat(_, _, _)
ReadNat(s, i, acc) == IF i <= Len(s) /\ IsDigit(s[i]) THEN ReadNat(s, i + 1, acc * 10 + (s[i] - 48))
                      ELSE [n |-> acc, i |-> i]
RECURSIVE FindClose(_, _)
FindClose(s, i) == IF i > Len(s) THEN 0 ELSE IF s[i] = 41 THEN i ELSE FindClose(s, i + 1)

RECURSIVE ReadFlags(_, _, _)
ReadFlags(s, i, f) ==
  IF i > Len(s) THEN [f |-> f, i |-> i]
  ELSE CASE s[i] = 35 -> ReadFlags(s, i + 1, [f EXCEPT !.alt = TRUE])
         [] s[i] = 48 -> ReadFlags(s, i + 1, [f EXCEPT !.zero = TRUE])
         [] s[i] = 45 -> ReadFlags(s, i + 1, [f EXCEPT !.left = TRUE])
         [] s[i] = 32 -> ReadFlags(s, i + 1, [f EXCEPT !.blank = TRUE])
         [] s[i] = 43 -> ReadFlags(s, i + 1, [f EXCEPT !.plus = TRUE])
         [] OTHER -> [f |-> f, i |-> i]
RECURSIVE SkipLen(_, _)
SkipLen(s, i) == IF i <= Len(s) /\ s[i] \in {104, 108, 76} THEN SkipLen(s, i + 1) ELSE i

Convs == {100, 105, 117, 111, 120, 88, 101, 69, 102, 70, 103, 71, 99, 115, 37}

ParseCode(s, i0) ==
  LET keyR == IF i0 <= Len(s) /\ s[i0] = 40
              THEN LET c == FindClose(s, i0 + 1) IN
                   IF c = 0 THEN [ok |-> FALSE] ELSE [ok |-> TRUE, has |-> TRUE, key |-> SubSeq(s, i0 + 1, c - 1), i |-> c + 1]
              ELSE [ok |-> TRUE, has |-> FALSE, key |-> <<>>, i |-> i0] IN
  IF ~keyR.ok THEN [ok |-> FALSE]                                  \* "%(abc" : truncated key
  ELSE LET fl == ReadFlags(s, keyR.i, [alt |-> FALSE, zero |-> FALSE, left |-> FALSE, blank |-> FALSE, plus |-> FALSE])
           wR == IF fl.i <= Len(s) /\ s[fl.i] = 42 THEN [n |-> StarW, i |-> fl.i + 1]
                 ELSE IF fl.i <= Len(s) /\ IsDigit(s[fl.i]) THEN ReadNat(s, fl.i, 0)
                 ELSE [n |-> NoneW, i |-> fl.i]
           pR == IF wR.i <= Len(s) /\ s[wR.i] = 46
                 THEN (IF wR.i + 1 <= Len(s) /\ s[wR.i + 1] = 42 THEN [n |-> StarW, i |-> wR.i + 2]
                       ELSE ReadNat(s, wR.i + 1, 0))                \* "%.d" : precision 0
                 ELSE [n |-> NoneW, i |-> wR.i]
           j == SkipLen(s, pR.i) IN
       IF j > Len(s) THEN [ok |-> FALSE]                            \* truncated code
       ELSE IF s[j] \notin Convs THEN [ok |-> FALSE]                \* unknown conversion
       ELSE [ok |-> TRUE, hasKey |-> keyR.has, key |-> keyR.key, f |-> fl.f, width |-> wR.n, prec |-> pR.n,
             conv |-> s[j], next |-> j + 1]

\* ================================================================== part 2: values and rendering
\* values: [t |-> "int", n] | [t |-> "str", s] | [t |-> "other", s] (anything else; s = its std.toString text)
\*         | [t |-> "flt", ...] handled through the oracle
VInt(n) == [t |-> "int", n |-> n]
VStr(s) == [t |-> "str", s |-> s]
VOther(s) == [t |-> "other", s |-> s]

Pad(body, width, left) ==
  IF width = NoneW \/ Len(body) >= width THEN body
  ELSE IF left THEN body \o Rep(32, width - Len(body)) ELSE Rep(32, width - Len(body)) \o body

\* sign-and-magnitude integer with prefix (0x), zero padding to the width (flag 0 without -) and
\* minimum digits (precision)
RenderInt(n, radix, caps, prefix, f, width, prec) ==
  LET neg == n < 0
      mag == IF neg THEN 0 - n ELSE n
      digits0 == NatDigits(mag, <<radix, caps>>)
      digits1 == IF prec # NoneW /\ Len(digits0) < prec THEN Rep(48, prec - Len(digits0)) \o digits0 ELSE digits0
      sign == IF neg THEN <<45>> ELSE IF f.plus THEN <<43>> ELSE IF f.blank THEN <<32>> ELSE <<>>
      core == Len(sign) + Len(prefix) + Len(digits1)
      zeros == IF f.zero /\ ~f.left /\ width # NoneW /\ core < width THEN Rep(48, width - core) ELSE <<>>
  IN Pad(sign \o prefix \o zeros \o digits1, width, f.left)

\* the text of one conversion applied to value v with resolved width / precision; Reject = error
RenderConv(conv, f, width, prec, v) ==
  CASE conv \in {100, 105, 117} ->                                   \* d i u
         IF v.t # "int" THEN Reject ELSE Text(RenderInt(v.n, 10, FALSE, <<>>, f, width, prec))
    [] conv = 111 ->                                                 \* o
         IF v.t # "int" THEN Reject
         ELSE IF f.alt THEN Unspec                                   \* "0" (C, Jsonnet) vs "0o" (Python 3)
         ELSE Text(RenderInt(v.n, 8, FALSE, <<>>, f, width, prec))
    [] conv \in {120, 88} ->                                         \* x X
         IF v.t # "int" THEN Reject
         ELSE IF f.alt /\ v.n = 0 THEN Unspec                        \* prefix on zero differs between C and Python
         ELSE Text(RenderInt(v.n, 16, conv = 88, IF f.alt THEN <<48, IF conv = 88 THEN 88 ELSE 120>> ELSE <<>>,
                             f, width, prec))
    [] conv = 99 ->                                                  \* c
         IF v.t = "int" THEN (IF v.n < 0 \/ v.n > 1114111 \/ (v.n >= 55296 /\ v.n <= 57343) THEN Reject
                              ELSE Text(Pad(<<v.n>>, width, f.left)))
         ELSE IF v.t = "str" THEN (IF Len(v.s) = 1 THEN Text(Pad(v.s, width, f.left)) ELSE Reject)
         ELSE Reject
    [] conv = 115 ->                                                 \* s
         IF prec # NoneW THEN Unspec                                 \* Python truncates, std.jsonnet does not
         ELSE Text(Pad(IF v.t = "int" THEN (IF v.n < 0 THEN <<45>> \o NatDigits(0 - v.n, <<10, FALSE>>)
                                             ELSE NatDigits(v.n, <<10, FALSE>>))
                        ELSE v.s, width, f.left))
    [] OTHER -> Unspec                                               \* e E f F g G: LayoutFloat + oracle

\* ================================================================== part 3: whole format strings
\* vals: sequence of values (positional) or an object [obj |-> TRUE, fields |-> function key -> value]
RECURSIVE Fmt(_, _, _, _, _)
\* i: position in s; vi: next value index; acc: output so far
\* result: Text | Reject | Unspec
Fmt(s, i, vals, vi, acc) ==
  IF i > Len(s)
  THEN IF vals.obj THEN Text(acc)
       ELSE IF vi <= Len(vals.seq) THEN Reject                      \* too many values
       ELSE Text(acc)
  ELSE IF s[i] # 37 THEN Fmt(s, i + 1, vals, vi, Append(acc, s[i]))
  ELSE LET c == ParseCode(s, i + 1) IN
       IF ~c.ok THEN Reject
       ELSE IF c.conv = 37
            THEN \* "%%" consumes nothing; anything between the percent signs is left undecided
                 IF c.next = i + 2 THEN Fmt(s, c.next, vals, vi, Append(acc, 37)) ELSE Unspec
       ELSE IF vals.obj
            THEN IF ~c.hasKey THEN Reject                            \* object needs %(key)
                 ELSE IF c.width = StarW \/ c.prec = StarW THEN Reject    \* * needs positional values
                 ELSE IF ~\E q \in 1..Len(vals.fields) : vals.fields[q].k = c.key THEN Reject
                 ELSE LET fv == vals.fields[CHOOSE q \in 1..Len(vals.fields) : vals.fields[q].k = c.key].v
                          r == RenderConv(c.conv, c.f, c.width, c.prec, fv) IN
                      IF r.k # "text" THEN r ELSE Fmt(s, c.next, vals, vi, acc \o r.s)
            ELSE IF c.hasKey THEN Unspec                             \* %(key) with positional values: Python fails, std.jsonnet ignores the key
                 ELSE LET needW == c.width = StarW
                          needP == c.prec = StarW
                          need == (IF needW THEN 1 ELSE 0) + (IF needP THEN 1 ELSE 0) + 1 IN
                      IF vi + need - 1 > Len(vals.seq) THEN Reject  \* too few values
                      ELSE LET wv == IF needW THEN vals.seq[vi] ELSE VInt(0)
                               pi == IF needW THEN vi + 1 ELSE vi
                               pv == IF needP THEN vals.seq[pi] ELSE VInt(0)
                               xi == IF needP THEN pi + 1 ELSE pi IN
                           IF (needW /\ wv.t # "int") \/ (needP /\ pv.t # "int") THEN Reject
                           ELSE IF (needW /\ wv.n < 0) \/ (needP /\ pv.n < 0) THEN Unspec
                           ELSE LET w == IF needW THEN wv.n ELSE c.width
                                    p == IF needP THEN pv.n ELSE c.prec
                                    r == RenderConv(c.conv, c.f, w, p, vals.seq[xi]) IN
                                IF r.k # "text" THEN r ELSE Fmt(s, c.next, vals, xi + 1, acc \o r.s)

Format(s, vals) == Fmt(s, 1, vals, 1, <<>>)
Seq1(vs) == [obj |-> FALSE, seq |-> vs]
ObjV(fs) == [obj |-> TRUE, fields |-> fs]

\* layout of a floating conversion around the oracle's magnitude text m (digits, point, exponent):
\* sign, zero padding (flag 0 without -) and alignment to the width
LayoutFloat(neg, m, f, width) ==
  LET sign == IF neg THEN <<45>> ELSE IF f.plus THEN <<43>> ELSE IF f.blank THEN <<32>> ELSE <<>>
      core == Len(sign) + Len(m)
      zeros == IF f.zero /\ ~f.left /\ width # NoneW /\ core < width THEN Rep(48, width - core) ELSE <<>>
  IN Pad(sign \o zeros \o m, width, f.left)

\* ================================================================== enumeration
CONSTANTS Family

FlagSets == {<<>>, <<45>>, <<48>>, <<43>>, <<32>>, <<35>>, <<45, 48>>, <<48, 45>>, <<43, 32>>, <<32, 48>>, <<43, 48>>,
             <<35, 48>>, <<45, 43>>, <<35, 45, 48, 32, 43>>}
Widths == {<<>>, <<48>>, <<49>>, <<53>>, <<49, 50>>}
Precs == {<<>>, <<46>>, <<46, 48>>, <<46, 49>>, <<46, 51>>}
IntConvs == {100, 105, 117, 111, 120, 88}
IntVals == {VInt(0), VInt(1), VInt(0 - 1), VInt(42), VInt(0 - 42), VInt(255), VInt(1000000)}
Wrap(code) == <<91>> \o code \o <<93>>                              \* "[" code "]"

IntCases == { [fmt |-> Wrap(<<37>> \o fl \o w \o p \o <<cv>>), vals |-> Seq1(<<v>>)]
              : fl \in FlagSets, w \in Widths, p \in Precs, cv \in IntConvs, v \in IntVals }
StrVals == {VStr(<<>>), VStr(<<97, 98>>), VStr(<<233>>), VOther(<<91, 49, 93>>), VInt(65), VInt(128512), VInt(0 - 1),
            VStr(<<97>>)}
StrCases == { [fmt |-> Wrap(<<37>> \o fl \o w \o p \o <<cv>>), vals |-> Seq1(<<v>>)]
              : fl \in {<<>>, <<45>>, <<48>>, <<43>>}, w \in Widths, p \in {<<>>, <<46, 49>>}, cv \in {99, 115}, v \in StrVals }
StarCases == { [fmt |-> Wrap(<<37>> \o fl \o w \o p \o <<cv>>), vals |-> Seq1(vs)]
               : fl \in {<<>>, <<45>>, <<48>>}, w \in {<<42>>, <<51>>, <<>>}, p \in {<<>>, <<46, 42>>, <<46, 50>>},
                 cv \in {100, 120, 115},
                 vs \in {<<VInt(5)>>, <<VInt(5), VInt(7)>>, <<VInt(5), VInt(2), VInt(7)>>, <<VInt(5), VStr(<<97>>), VInt(7)>>,
                         <<VStr(<<97>>), VInt(7)>>, <<VInt(5), VInt(2), VInt(7), VInt(9)>>, <<>>} }
A == <<97>>
Key(k) == <<37, 40>> \o k \o <<41>>
KeyCases == { [fmt |-> Wrap(pre \o <<cv>>), vals |-> vv]
              : pre \in {Key(A), Key(<<98>>), Key(<<>>), Key(A) \o <<53>>, <<37>>, <<37, 40, 97>>, Key(A) \o <<42>>},
                cv \in {100, 115},
                vv \in {ObjV(<<[k |-> A, v |-> VInt(7)]>>), ObjV(<<[k |-> <<>>, v |-> VStr(<<113>>)], [k |-> A, v |-> VStr(<<113>>)]>>),
                        Seq1(<<VInt(7)>>)} }
Texts == {<<>>, <<97>>, <<37, 37>>, <<37>>, <<37, 100>>, <<37, 37, 100>>, <<37, 53, 37>>, <<37, 113>>, <<37, 53>>,
          <<37, 46>>, <<37, 108, 100>>, <<37, 104, 104, 100>>, <<37, 35>>, <<37, 40>>, <<37, 41>>, <<37, 36, 100>>,
          <<37, 100, 37, 115>>, <<37, 115, 37, 37, 37, 115>>, <<233, 37, 100, 128512>>}
MiscCases == { [fmt |-> tx, vals |-> Seq1(vs)] : tx \in Texts,
                 vs \in {<<>>, <<VInt(3)>>, <<VInt(3), VStr(<<120>>)>>, <<VStr(<<120>>), VStr(<<121>>)>>} }

Cases == CASE Family = "int" -> IntCases [] Family = "str" -> StrCases [] Family = "star" -> StarCases
           [] Family = "key" -> KeyCases [] Family = "misc" -> MiscCases

VARIABLE st
Init == st = [ph |-> "seed"]
Next == /\ st.ph = "seed"
        /\ \E c \in Cases : st' = [ph |-> "case", c |-> c]

\* sanity of the model itself: a rendered conversion is at least as wide as the requested width
WidthHonoured ==
  (st.ph = "case" /\ Family = "int") =>
     LET r == Format(st.c.fmt, st.c.vals) IN r.k = "text" => Len(r.s) >= 2

Emit == st.ph = "case" =>
          PrintT("REPLAY " \o ToJson([fam |-> "format." \o Family, fmt |-> st.c.fmt, vals |-> st.c.vals,
                                       res |-> Format(st.c.fmt, st.c.vals)]))
=============================================================================
