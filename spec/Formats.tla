------------------------------ MODULE Formats ------------------------------
(***************************************************************************)
(* C14 - YAML, TOML, Python, XML and INI manifestation denote the same     *)
(* data.  A value is built from string atoms (the driver holds the actual  *)
(* characters; this module holds what matters about each: its classes) in  *)
(* a small set of shapes.  For a format and an option set the model says   *)
(* whether the value is in the format's domain (then the text must be      *)
(* well-formed and an independent reader must give Denote(value) back),    *)
(* outside it (the writer must fail), or left open (no judgement beyond    *)
(* "no crash").                                                            *)
(***************************************************************************)
EXTENDS Naturals, Sequences, FiniteSets, TLC, Json

CONSTANTS Family, MaxLook

\* ------------------------------------------------------------------ atoms: id -> classes
\* single = no line break; block = multi-line and block-scalar safe (every line non-empty, no leading or trailing
\* blank, at most one final line break); ident = [A-Za-z_][A-Za-z0-9_]*; ctrl = contains a C0 control other than
\* tab / line break, or DEL; inival = survives an INI reader unchanged (single line, no leading/trailing blank,
\* no comment marker); xmlattr = contains tab or line break (attribute-value normalisation applies); cr = contains a
\* carriage return (XML line-end normalisation applies everywhere); pykw = a Python keyword
AtomClasses == <<
  {"single", "ident", "inival"},            \* 1  a
  {"single"},                               \* 2  (empty)
  {"single"},                               \* 3  (one space)
  {"single", "inival"},                     \* 4  "
  {"single", "inival"},                     \* 5  '
  {"single", "inival"},                     \* 6  backslash
  {"single"},                               \* 7  #
  {"single", "inival"},                     \* 8  :
  {"single", "inival"},                     \* 9  -
  {"single", "inival"},                     \* 10 =
  {"single", "inival"},                     \* 11 [
  {"single", "inival"},                     \* 12 ]
  {"single", "inival"},                     \* 13 {
  {"single", "inival"},                     \* 14 ,
  {"single", "inival"},                     \* 15 &
  {"single", "inival"},                     \* 16 <
  {"single", "inival"},                     \* 17 >
  {"xmlattr"},                              \* 18 line break alone (not block safe)
  {"single", "xmlattr"},                    \* 19 tab
  {"single", "ctrl"},                       \* 20 U+0001
  {"single", "ctrl"},                       \* 21 U+007F
  {"single", "inival"},                     \* 22 e-acute
  {"single", "inival"},                     \* 23 emoji
  {"single", "ident", "inival"},            \* 24 true
  {"single", "ident", "inival"},            \* 25 null
  {"single", "ident", "inival"},            \* 26 yes
  {"single", "ident", "inival"},            \* 27 no
  {"single", "ident", "inival"},            \* 28 on
  {"single", "inival"},                     \* 29 ~
  {"single", "inival"},                     \* 30 1
  {"single", "inival"},                     \* 31 1.5
  {"single", "inival"},                     \* 32 -1
  {"single", "inival"},                     \* 33 0x1f
  {"single", "inival"},                     \* 34 0o7
  {"single", "inival"},                     \* 35 1e3
  {"single", "inival"},                     \* 36 1_000
  {"single", "inival"},                     \* 37 2001-01-01
  {"single", "inival"},                     \* 38 12:30:45
  {"single", "inival"},                     \* 39 .inf
  {"single", "inival"},                     \* 40 .nan
  {"single", "inival"},                     \* 41 "- a"
  {"single", "inival"},                     \* 42 "a: b"
  {"single"},                               \* 43 "a #b"
  {"single"},                               \* 44 " a"
  {"single"},                               \* 45 "a "
  {"single", "inival"},                     \* 46 *a
  {"single", "inival"},                     \* 47 &a
  {"single", "inival"},                     \* 48 !a
  {"single", "inival"},                     \* 49 %a
  {"single", "inival"},                     \* 50 @a
  {"single", "inival"},                     \* 51 `a
  {"single", "inival"},                     \* 52 |
  {"single", "inival"},                     \* 53 ?
  {"single", "inival"},                     \* 54 "? a"
  {"single", "inival"},                     \* 55 a.b
  {"single", "inival"},                     \* 56 "a b"
  {"block", "xmlattr"},                     \* 57 a<LF>b
  {"block", "xmlattr"},                     \* 58 a<LF>b<LF>
  {"xmlattr"},                              \* 59 a<LF><LF>b (blank line inside: left open for YAML)
  {"xmlattr"},                              \* 60 " a"<LF>b (leading blank on the first line: left open)
  {"single", "inival"},                     \* 61 0.1e-2
  {"single", "inival"},                     \* 62 +1
  {"single", "ident", "inival", "pykw"},    \* 63 False
  {"single", "ident", "inival"},            \* 64 y
  {"single", "inival"},                     \* 65 <<
  {"single", "inival"},                     \* 66 "]]"
  {"single", "xmlattr", "cr"},              \* 67 a<CR>b
  {"single", "ident", "inival"}             \* 68 _k1
>>
NAtoms == Len(AtomClasses)
Atoms == 1..NAtoms
Is(a, c) == c \in AtomClasses[a]

\* ------------------------------------------------------------------ shapes
\* str(a) = the string; obj(k, v) = {k: v}; arr(a, b) = [a, b]; nest(k, v) = {o: {k: [v, {k: v}]}, l: [[v], []], m: [{k: v}, v, [{k: v}, 1]]};
\* mixed = null/bools/numbers/empty containers;
\* tables(k, v) = {t: {k: v, s: {k: v}, e: {}}, aot: [{k: v}, {k: 1}, {}], e: {}, ea: [], es: {e: {}}, k: v}
\* jsonml(t, v) = ["root", {at: t}, v, ["c", v]]; jsonmlattr(t, v) = ["root", {at: t, n: 1, b: true, l: [v, "y"], o: {k: v}}, v]; ini(k, v) = {main: {k: v}, sections: {sec: {k: v, l: [v, "x"]}}};
\* func, badjsonml = values outside some domains
StringsOf(s) == CASE s.sh = "str" -> {s.a}
                  [] s.sh \in {"obj", "nest", "tables"} -> {s.k, s.v}
                  [] s.sh = "arr" -> {s.a, s.b}
                  [] s.sh \in {"jsonml", "jsonmlattr"} -> {s.t, s.v}
                  [] s.sh = "ini" -> {s.k, s.v}
                  [] OTHER -> {}
KeysOf(s) == IF s.sh \in {"obj", "nest", "tables", "ini"} THEN {s.k} ELSE {}
ValueStrings(s) == CASE s.sh = "str" -> {s.a}
                     [] s.sh \in {"obj", "nest", "tables", "ini"} -> {s.v}
                     [] s.sh = "arr" -> {s.a, s.b}
                     [] s.sh \in {"jsonml", "jsonmlattr"} -> {s.t, s.v}
                     [] OTHER -> {}
Formats == {"yaml", "yamlstream", "toml", "python", "pythonvars", "xml", "ini"}

YamlOk(a) == Is(a, "single") \/ Is(a, "block")
Domain(f, s) ==
  CASE s.sh = "func" -> "out"                                                      \* functions anywhere
    [] f \in {"yaml", "yamlstream"} ->
         (IF \A a \in ValueStrings(s) : YamlOk(a) THEN "in" ELSE "open")           \* keys are always quoted or bare-safe
    [] f = "toml" ->
         (CASE s.sh \in {"str", "arr", "jsonml", "jsonmlattr", "badjsonml"} -> "out"             \* the document is a table
            [] s.sh = "mixed" -> "out"                                             \* contains null
            [] OTHER -> "in")
    [] f = "python" -> "in"
    [] f = "pythonvars" ->
         (CASE s.sh \in {"str", "arr", "jsonml", "jsonmlattr", "badjsonml"} -> "out"
            [] s.sh = "mixed" -> "in"
            [] OTHER -> IF \A k \in KeysOf(s) : Is(k, "ident") /\ ~Is(k, "pykw") THEN "in" ELSE "open")
    [] f = "xml" ->
         (CASE s.sh = "str" -> "open"                                               \* a bare string is text without a root element
            [] s.sh \in {"mixed", "tables", "nest"} -> "out"                        \* not JSONML
            [] s.sh = "obj" -> "out"
            [] s.sh = "arr" -> "open"
            [] s.sh = "jsonml" ->
                 (IF Is(s.v, "ctrl") \/ Is(s.t, "ctrl") \/ Is(s.v, "cr") \/ Is(s.t, "cr") THEN "open"   \* not representable / normalised
                  ELSE IF Is(s.t, "xmlattr") THEN "open-attr"                       \* text must survive, the attribute is left open
                  ELSE "in")
            [] s.sh = "jsonmlattr" ->                                               \* attribute values that are not strings:
                 (IF Is(s.v, "ctrl") \/ Is(s.t, "ctrl") \/ Is(s.v, "cr") \/ Is(s.t, "cr") THEN "open"
                  ELSE "open-attr")                                                 \* well-formed and the text survives, whatever the attribute text is
            [] OTHER -> "out")
    [] f = "ini" ->
         (CASE s.sh = "ini" -> (IF Is(s.k, "ident") /\ Is(s.v, "inival") THEN "in" ELSE "open")
            [] s.sh = "mixed" -> "open"
            [] OTHER -> "out")

\* ------------------------------------------------------------------ number / keyword look-alikes
\* every string of up to MaxLook characters over the characters numbers are made of; used as key and as value of a
\* one-field object. They are all single-line strings, hence inside the YAML domain: a reader must give the string back,
\* not a number, a boolean or null.
LookChars == 1..12        \* 0 1 7 x b o e . - _ + :   (the driver holds the characters)
LookDomain(f) == IF f \in {"yaml", "yamlstream"} THEN "in" ELSE "skip"

\* ------------------------------------------------------------------ enumeration
YamlOpts == {[iao |-> i, qk |-> q, cde |-> c] : i \in BOOLEAN, q \in BOOLEAN, c \in BOOLEAN}
VARIABLE st
Seeds == {[sh |-> "str"], [sh |-> "arr"], [sh |-> "obj"], [sh |-> "nest"], [sh |-> "tables"], [sh |-> "jsonml"], [sh |-> "ini"], [sh |-> "fixed"]}
Init == IF Family = "lookalike" THEN st \in {[ph |-> "look", cs |-> <<c>>] : c \in LookChars}
        ELSE st \in {[ph |-> "seed", s |-> s, a |-> a] : s \in Seeds, a \in Atoms}
Second(sh, a) == IF Family = "full" THEN Atoms ELSE {1, 2, 18, 30, 57, (a % NAtoms) + 1}     \* pairs: all, or a covering sample
Expand(sd, a) ==
  CASE sd.sh = "str" -> {[sh |-> "str", a |-> a]}
    [] sd.sh = "arr" -> {[sh |-> "arr", a |-> a, b |-> b] : b \in Second("arr", a)}
    [] sd.sh = "obj" -> {[sh |-> "obj", k |-> a, v |-> b] : b \in Second("obj", a)} \cup {[sh |-> "obj", k |-> b, v |-> a] : b \in Second("obj", a)}
    [] sd.sh = "nest" -> {[sh |-> "nest", k |-> a, v |-> b] : b \in Second("nest", a)}
    [] sd.sh = "tables" -> {[sh |-> "tables", k |-> a, v |-> b] : b \in Second("tables", a)}
    [] sd.sh = "jsonml" -> {[sh |-> "jsonml", t |-> a, v |-> b] : b \in Second("jsonml", a)} \cup {[sh |-> "jsonml", t |-> b, v |-> a] : b \in Second("jsonml", a)}
                           \cup {[sh |-> "jsonmlattr", t |-> a, v |-> b] : b \in Second("jsonml", a)}
    [] sd.sh = "ini" -> {[sh |-> "ini", k |-> a, v |-> b] : b \in Second("ini", a)} \cup {[sh |-> "ini", k |-> b, v |-> a] : b \in Second("ini", a)}
    [] sd.sh = "fixed" -> IF a = 1 THEN {[sh |-> "mixed"], [sh |-> "func"], [sh |-> "badjsonml"]} ELSE {}
Next == \/ (st.ph = "seed" /\ \E s \in Expand(st.s, st.a) : st' = [ph |-> "case", s |-> s])
        \/ (st.ph = "look" /\ Len(st.cs) < MaxLook /\ \E c \in LookChars : st' = [ph |-> "look", cs |-> Append(st.cs, c)])
Emit == /\ (st.ph = "case" =>
             PrintT("REPLAY " \o ToJson([fam |-> "formats", s |-> st.s, dom |-> [f \in Formats |-> Domain(f, st.s)]])))
        /\ (st.ph = "look" =>
             PrintT("REPLAY " \o ToJson([fam |-> "formats.look", s |-> [sh |-> "look", cs |-> st.cs], dom |-> [f \in Formats |-> LookDomain(f)]])))
\* model law: a function is outside every domain; a string-only YAML document of a single-line atom is always inside
Laws == st.ph = "case" => /\ (st.s.sh = "func" => \A f \in Formats : Domain(f, st.s) = "out")
                          /\ ((st.s.sh = "str" /\ Is(st.s.a, "single")) => Domain("yaml", st.s) = "in")
=============================================================================
