----------------------------- MODULE Formatter -----------------------------
(***************************************************************************)
(* C19 / C20 - the formatter as a pass over texts.                         *)
(* Texts have a meaning (abstract syntax tree up to positions and sugar,   *)
(* together with the sequence of comments) or are rejected by the grammar. *)
(* A formatter is a function fmt[indent][text] to a text or Declined.      *)
(* The two properties constrain that function; the invariants below are    *)
(* what users rely on and follow for every formatter satisfying them:      *)
(* whatever sequence of passes and indentation settings is applied, the    *)
(* meaning of the file never changes, and after one pass with a setting    *)
(* `--test` with that setting accepts the file.                            *)
(***************************************************************************)
EXTENDS Naturals, FiniteSets, TLC
CONSTANTS Texts, Meanings, Indents
Reject == "reject"
Declined == "declined"

VARIABLES parse, fmt, cur, orig, lastIndent
vars == <<parse, fmt, cur, orig, lastIndent>>

\* C19: a formatted valid program parses and means the same (tree up to sugar, and comments)
Preserves(p, f) == \A i \in Indents, t \in Texts :
                      (p[t] # Reject /\ f[<<i, t>>] # Declined) => p[f[<<i, t>>]] = p[t]
\* C20: invalid input gets a diagnostic; the output of a pass is a fixed point of that pass
Diagnoses(p, f) == \A i \in Indents, t \in Texts : p[t] = Reject => f[<<i, t>>] = Declined
Idempotent(p, f) == \A i \in Indents, t \in Texts :
                      (p[t] # Reject /\ f[<<i, t>>] # Declined) => f[<<i, f[<<i, t>>]>>] = f[<<i, t>>]

Init == /\ parse \in [Texts -> Meanings \cup {Reject}]
        /\ fmt \in [Indents \X Texts -> Texts \cup {Declined}]
        /\ Preserves(parse, fmt) /\ Diagnoses(parse, fmt) /\ Idempotent(parse, fmt)
        /\ cur \in Texts /\ orig = cur /\ lastIndent = "none"
Format(i) == /\ cur' = IF fmt[<<i, cur>>] = Declined THEN cur ELSE fmt[<<i, cur>>]
             /\ lastIndent' = IF fmt[<<i, cur>>] = Declined THEN "none" ELSE i
             /\ UNCHANGED <<parse, fmt, orig>>
Next == \E i \in Indents : Format(i)
Spec == Init /\ [][Next]_vars

MeaningKept == parse[cur] = parse[orig]
\* `jrsonnet-fmt --test --indent i` accepts what `jrsonnet-fmt --indent i` just produced
TestAccepts == (lastIndent # "none") => fmt[<<lastIndent, cur>>] = cur
NeverFormatsInvalid == parse[orig] = Reject => cur = orig
=============================================================================
