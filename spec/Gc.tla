--------------------------------- MODULE Gc ---------------------------------
(***************************************************************************)
(* C18 (first half) — cyclic garbage is reclaimed.                         *)
(*                                                                         *)
(* The collector protocol as seen by an embedder: an evaluation allocates  *)
(* tracked interpreter objects, some reachable from the result / the       *)
(* evaluation state (held), some garbage, possibly cyclic.  Whatever the   *)
(* outcome class of the evaluation, once result and state are dropped and  *)
(* a cycle collection has run, the number of tracked objects is back to    *)
(* what it was before the evaluation.                                      *)
(***************************************************************************)
EXTENDS Naturals, TLC

CONSTANTS MaxAlloc                       \* bound on objects allocated by one evaluation (model)
Outcomes == {"val", "err", "stack", "infrec", "assert"}

VARIABLES phase, baseline, tracked, held, outcome
vars == <<phase, baseline, tracked, held, outcome>>

Init == phase = "idle" /\ baseline \in 0..1 /\ tracked = baseline /\ held = 0 /\ outcome = "none"

\* evaluation allocates n tracked objects of which h stay reachable from result/state
Evaluate(o, n, h) ==
  /\ phase = "idle" /\ h <= n
  /\ phase' = "holding" /\ outcome' = o
  /\ tracked' = tracked + n /\ held' = h /\ UNCHANGED baseline

\* dropping result and state releases the acyclic part immediately; cyclic garbage may stay tracked
DropAll(freed) ==
  /\ phase = "holding" /\ freed <= tracked - baseline
  /\ phase' = "dropped" /\ held' = 0 /\ tracked' = tracked - freed
  /\ UNCHANGED <<baseline, outcome>>

\* a cycle collection with nothing held reclaims everything the evaluation created
Collect ==
  /\ phase = "dropped"
  /\ phase' = "collected" /\ tracked' = baseline /\ UNCHANGED <<baseline, held, outcome>>

Again == phase = "collected" /\ phase' = "idle" /\ outcome' = "none" /\ UNCHANGED <<baseline, tracked, held>>

Next == \/ \E o \in Outcomes, n \in 0..MaxAlloc, h \in 0..MaxAlloc : Evaluate(o, n, h)
        \/ \E f \in 0..MaxAlloc : DropAll(f)
        \/ Collect \/ Again
Spec == Init /\ [][Next]_vars

Reclaimed == phase \in {"collected", "idle"} => tracked = baseline
NothingHeldAfterDrop == phase \in {"dropped", "collected", "idle"} => held = 0
=============================================================================
