CONSTANTS MaxOps = 5
          MaxHandles = 3
SPECIFICATION Spec
VIEW view
CONSTRAINT Bounded
ACTION_CONSTRAINT EmitTransition
CHECK_DEADLOCK FALSE
