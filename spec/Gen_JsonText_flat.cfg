CONSTANT Family = "flat"
INIT Init
NEXT Next
INVARIANT Emit
CHECK_DEADLOCK FALSE
