CONSTANT Family = "func"
INIT Init
NEXT Next
INVARIANT Emit
CHECK_DEADLOCK FALSE
