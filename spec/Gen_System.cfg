CONSTANTS Programs <- MCPrograms
 Files <- MCFiles
 MaxRuns = 3
 MaxDepth = 1
 Unreadable = {"bad", "missing"}
 Failing = {"err"}
 ErrPrograms = {"p6", "p7"}
 ImportsOf <- MCImportsOf
INIT SInit
NEXT SNext
INVARIANT EmitSchedule
VIEW SView
CHECK_DEADLOCK FALSE
