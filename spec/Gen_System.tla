------------------------------ MODULE Gen_System ------------------------------
EXTENDS MC_System
\* schedules of evaluations on one state, for the conformance run: history of Begin(p)
VARIABLE hist
SInit == Init /\ hist = <<>>
SNext == \/ (\E p \in Programs : Begin(p) /\ hist' = Append(hist, p))
         \/ ((NewState \/ Enter \/ Leave \/ (\E f \in Files : Load(f) \/ LoadFail(f) \/ Hit(f)) \/ Unwind \/ End \/ DropState \/ Collect) /\ UNCHANGED hist)
EmitSchedule == (state = "none" /\ runs > 0 /\ tracked = baseline /\ phase = "idle" /\ held = 0) => PrintT("REPLAY " \o ToJson([fam |-> "system.schedule", hist |-> hist]))
SView == <<state, entered, phase, cur, pendingImports, runs, hist, held, tracked>>
=============================================================================
