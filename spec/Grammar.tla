------------------------------ MODULE Grammar ------------------------------
(***************************************************************************)
(* C06 — the concrete syntax of Jsonnet expressions as a parser over token *)
(* sequences: Parse(ts) returns the abstract syntax tree (in the shape the *)
(* conformance harness serialises jrsonnet_ir::Expr, spans erased) or      *)
(* Reject.  Written from the Jsonnet grammar and its precedence table:     *)
(*   application/index/slice/object-extension  (postfix, tightest)         *)
(*   unary + - ! ~                                                         *)
(*   * / %    + -    << >>    < > <= >= in    == !=    &    ^    |    &&   *)
(*   ||   (all binary operators associate to the left)                     *)
(*   if / local / function / error / assert / import extend as far to the  *)
(*   right as possible and may start any operand                           *)
(* Tokens are TLA+ strings; "1" "2" "3" are numbers, "x" "y" "z" are       *)
(* identifiers, "'a'" "'b'" are string literals.                           *)
(***************************************************************************)
EXTENDS Naturals, Sequences, FiniteSets, TLC

Reject == [ok |-> FALSE]
R(e, i) == [ok |-> TRUE, e |-> e, i |-> i]          \* parsed e, next token index i
None == [t |-> "none"]

Nums == {"1", "2", "3"}
Ids == {"x", "y", "z"}
Strs == {"'a'", "'b'"}
Lits == {"null", "true", "false", "self", "$", "super"}
UnOps == {"-", "+", "!", "~"}
BinOps == {"*", "/", "%", "+", "-", "<<", ">>", "<", ">", "<=", ">=", "in", "==", "!=", "&", "^", "|", "&&", "||"}

\* left binding powers (right binding power = left + 1: left associative)
Lbp(op) == CASE op = "||" -> 2 [] op = "&&" -> 4 [] op = "|" -> 6 [] op = "^" -> 8 [] op = "&" -> 10
             [] op \in {"==", "!="} -> 12 [] op \in {"<", ">", "<=", ">=", "in"} -> 14
             [] op \in {"<<", ">>"} -> 16 [] op \in {"+", "-"} -> 18 [] op \in {"*", "/", "%"} -> 20
UnaryBp == 22

At(ts, i) == IF i >= 1 /\ i <= Len(ts) THEN ts[i] ELSE "<eof>"

NumAst(t) == [t |-> "num", v |-> t \o ".0"]
StrAst(t) == [t |-> "str", v |-> IF t = "'a'" THEN <<97>> ELSE <<98>>]
StrText(t) == IF t = "'a'" THEN "a" ELSE "b"
VarAst(t) == [t |-> "var", v |-> t]
IdCps(t) == IF t = "x" THEN <<120>> ELSE IF t = "y" THEN <<121>> ELSE <<122>>
LitAst(t) == [t |-> "lit", v |-> t]

RECURSIVE Expr(_, _, _), Primary(_, _), Postfix(_, _, _, _), Infix(_, _, _, _), ExprList(_, _, _, _),
          Params(_, _, _), Args(_, _, _, _, _), Binds(_, _, _), ObjInside(_, _), Members(_, _, _),
          CompSpecs(_, _, _), SliceRest(_, _, _, _)

\* flush accumulated index parts into one index node (the IR keeps a.b[c] as one node with two parts)
Flush(e, parts) == IF parts = <<>> THEN e ELSE [t |-> "index", e |-> e, parts |-> parts]

\* ------------------------------------------------------------------ expressions
Expr(ts, i, minbp) ==
  LET tok == At(ts, i) IN
  IF tok \in UnOps
  THEN LET r == Expr(ts, i + 1, UnaryBp) IN
       IF ~r.ok THEN Reject ELSE Infix(ts, [t |-> "un", op |-> tok, e |-> r.e], r.i, minbp)
  ELSE LET p == Primary(ts, i) IN
       IF ~p.ok THEN Reject
       ELSE LET q == Postfix(ts, p.e, <<>>, p.i) IN
            IF ~q.ok THEN Reject ELSE Infix(ts, q.e, q.i, minbp)

Infix(ts, lhs, i, minbp) ==
  LET op == At(ts, i) IN
  IF op \in BinOps /\ Lbp(op) >= minbp
  THEN LET r == Expr(ts, i + 1, Lbp(op) + 1) IN
       IF ~r.ok THEN Reject
       ELSE Infix(ts, [t |-> "bin", op |-> op, l |-> lhs, r |-> r.e], r.i, minbp)
  ELSE R(lhs, i)

\* comma separated expressions up to `close`, trailing comma allowed; i is at the first element or close
ExprList(ts, i, close, acc) ==
  IF At(ts, i) = close THEN R(acc, i + 1)
  ELSE LET r == Expr(ts, i, 0) IN
       IF ~r.ok THEN Reject
       ELSE IF At(ts, r.i) = "," THEN ExprList(ts, r.i + 1, close, Append(acc, r.e))
       ELSE IF At(ts, r.i) = close THEN R(Append(acc, r.e), r.i + 1)
       ELSE Reject

\* for x in e (for x in e | if e)*
CompSpecs(ts, i, acc) ==
  IF At(ts, i) = "for"
  THEN IF At(ts, i + 1) \in Ids /\ At(ts, i + 2) = "in"
       THEN LET r == Expr(ts, i + 3, 0) IN
            IF ~r.ok THEN Reject
            ELSE CompSpecs(ts, r.i, Append(acc, [t |-> "for", n |-> At(ts, i + 1), o |-> r.e]))
       ELSE Reject
  ELSE IF At(ts, i) = "if" /\ acc # <<>>
  THEN LET r == Expr(ts, i + 1, 0) IN
       IF ~r.ok THEN Reject ELSE CompSpecs(ts, r.i, Append(acc, [t |-> "if", c |-> r.e]))
  ELSE IF acc = <<>> THEN Reject ELSE R(acc, i)

\* parameters: id [= e] , ... [,] )      i is after "("
Params(ts, i, acc) ==
  IF At(ts, i) = ")" THEN R(acc, i + 1)
  ELSE IF At(ts, i) \notin Ids THEN Reject
  ELSE LET name == At(ts, i) IN
       IF At(ts, i + 1) = "="
       THEN LET d == Expr(ts, i + 2, 0) IN
            IF ~d.ok THEN Reject
            ELSE LET acc2 == Append(acc, [n |-> name, d |-> d.e]) IN
                 IF At(ts, d.i) = "," THEN Params(ts, d.i + 1, acc2)
                 ELSE IF At(ts, d.i) = ")" THEN R(acc2, d.i + 1) ELSE Reject
       ELSE LET acc2 == Append(acc, [n |-> name, d |-> None]) IN
            IF At(ts, i + 1) = "," THEN Params(ts, i + 2, acc2)
            ELSE IF At(ts, i + 1) = ")" THEN R(acc2, i + 2) ELSE Reject

\* arguments: positional then named (id = e), trailing comma allowed     i is after "("
Args(ts, i, pos, named, seenNamed) ==
  IF At(ts, i) = ")" THEN R([pos |-> pos, named |-> named], i + 1)
  ELSE IF At(ts, i) \in Ids /\ At(ts, i + 1) = "="
  THEN LET r == Expr(ts, i + 2, 0) IN
       IF ~r.ok THEN Reject
       ELSE LET nm == Append(named, [n |-> At(ts, i), v |-> r.e]) IN
            IF At(ts, r.i) = "," THEN Args(ts, r.i + 1, pos, nm, TRUE)
            ELSE IF At(ts, r.i) = ")" THEN R([pos |-> pos, named |-> nm], r.i + 1) ELSE Reject
  ELSE IF seenNamed THEN Reject                           \* positional after named
  ELSE LET r == Expr(ts, i, 0) IN
       IF ~r.ok THEN Reject
       ELSE LET ps == Append(pos, r.e) IN
            IF At(ts, r.i) = "," THEN Args(ts, r.i + 1, ps, named, FALSE)
            ELSE IF At(ts, r.i) = ")" THEN R([pos |-> ps, named |-> named], r.i + 1) ELSE Reject

\* one bind: id = e | id ( params ) = e ; returns the bind record
Bind(ts, i) ==
  IF At(ts, i) \notin Ids THEN Reject
  ELSE IF At(ts, i + 1) = "="
  THEN LET r == Expr(ts, i + 2, 0) IN
       IF ~r.ok THEN Reject ELSE R([t |-> "bind", n |-> At(ts, i), v |-> r.e], r.i)
  ELSE IF At(ts, i + 1) = "("
  THEN LET ps == Params(ts, i + 2, <<>>) IN
       IF ~ps.ok THEN Reject
       ELSE IF At(ts, ps.i) # "=" THEN Reject
       ELSE LET r == Expr(ts, ps.i + 1, 0) IN
            IF ~r.ok THEN Reject ELSE R([t |-> "bindfn", n |-> At(ts, i), p |-> ps.e, v |-> r.e], r.i)
  ELSE Reject

\* bind (, bind)*     (no trailing comma before ";")
Binds(ts, i, acc) ==
  LET b == Bind(ts, i) IN
  IF ~b.ok THEN Reject
  ELSE IF At(ts, b.i) = "," THEN Binds(ts, b.i + 1, Append(acc, b.e))
  ELSE R(Append(acc, b.e), b.i)

\* assert e [: e]      i is at "assert"
AssertStmt(ts, i) ==
  LET c == Expr(ts, i + 1, 0) IN
  IF ~c.ok THEN Reject
  ELSE IF At(ts, c.i) = ":"
       THEN LET m == Expr(ts, c.i + 1, 0) IN IF ~m.ok THEN Reject ELSE R([c |-> c.e, m |-> m.e], m.i)
       ELSE R([c |-> c.e, m |-> None], c.i)

Vis(tok) == tok \in {":", "::", ":::"}

\* one object member; returns [kind |-> "field"|"local"|"assert", v |-> ...]
Member(ts, i) ==
  LET tok == At(ts, i) IN
  IF tok = "local"
  THEN LET b == Bind(ts, i + 1) IN IF ~b.ok THEN Reject ELSE R([kind |-> "local", v |-> b.e], b.i)
  ELSE IF tok = "assert"
  THEN LET a == AssertStmt(ts, i) IN IF ~a.ok THEN Reject ELSE R([kind |-> "assert", v |-> a.e], a.i)
  ELSE LET nm == IF tok \in Ids THEN R([t |-> "fixed", v |-> tok], i + 1)
                 ELSE IF tok \in Strs THEN R([t |-> "fixed", v |-> StrText(tok)], i + 1)
                 ELSE IF tok = "["
                 THEN LET e == Expr(ts, i + 1, 0) IN
                      IF ~e.ok THEN Reject
                      ELSE IF At(ts, e.i) = "]" THEN R([t |-> "dyn", v |-> e.e], e.i + 1) ELSE Reject
                 ELSE Reject IN
       IF ~nm.ok THEN Reject
       ELSE IF At(ts, nm.i) = "("
       THEN \* method: name ( params ) vis e
            LET ps == Params(ts, nm.i + 1, <<>>) IN
            IF ~ps.ok THEN Reject
            ELSE IF ~Vis(At(ts, ps.i)) THEN Reject
            ELSE LET v == Expr(ts, ps.i + 1, 0) IN
                 IF ~v.ok THEN Reject
                 ELSE R([kind |-> "field", v |-> [name |-> nm.e, plus |-> FALSE, params |-> ps.e,
                                                   vis |-> At(ts, ps.i), v |-> v.e]], v.i)
       ELSE LET plus == At(ts, nm.i) = "+"
                j == IF plus THEN nm.i + 1 ELSE nm.i IN
            IF ~Vis(At(ts, j)) THEN Reject
            ELSE LET v == Expr(ts, j + 1, 0) IN
                 IF ~v.ok THEN Reject
                 ELSE R([kind |-> "field", v |-> [name |-> nm.e, plus |-> plus, params |-> None,
                                                   vis |-> At(ts, j), v |-> v.e]], v.i)

\* members separated by commas, trailing comma allowed; stops before "}" or "for"
Members(ts, i, acc) ==
  LET m == Member(ts, i) IN
  IF ~m.ok THEN Reject
  ELSE LET acc2 == Append(acc, m.e) IN
       IF At(ts, m.i) = ","
       THEN IF At(ts, m.i + 1) \in {"}", "for"} THEN R(acc2, m.i + 1) ELSE Members(ts, m.i + 1, acc2)
       ELSE R(acc2, m.i)

Pick(ms, kind) == LET s == SelectSeq(ms, LAMBDA m : m.kind = kind) IN [j \in 1..Len(s) |-> s[j].v]

\* the inside of { ... }     i is after "{" ; returns the body and the index after "}"
ObjInside(ts, i) ==
  IF At(ts, i) = "}" THEN R([t |-> "members", locals |-> <<>>, asserts |-> <<>>, fields |-> <<>>], i + 1)
  ELSE LET ms == Members(ts, i, <<>>) IN
       IF ~ms.ok THEN Reject
       ELSE IF At(ts, ms.i) = "for"
       THEN LET sp == CompSpecs(ts, ms.i, <<>>) IN
            IF ~sp.ok THEN Reject
            ELSE IF At(ts, sp.i) # "}" THEN Reject
            ELSE IF Len(Pick(ms.e, "field")) # 1 \/ Len(Pick(ms.e, "assert")) # 0 THEN Reject
            ELSE R([t |-> "objcomp", locals |-> Pick(ms.e, "local"), field |-> Pick(ms.e, "field")[1],
                    specs |-> sp.e], sp.i + 1)
       ELSE IF At(ts, ms.i) # "}" THEN Reject
       ELSE R([t |-> "members", locals |-> Pick(ms.e, "local"), asserts |-> Pick(ms.e, "assert"),
               fields |-> Pick(ms.e, "field")], ms.i + 1)

Primary(ts, i) ==
  LET tok == At(ts, i) IN
  CASE tok \in Nums -> R(NumAst(tok), i + 1)
    [] tok \in Ids  -> R(VarAst(tok), i + 1)
    [] tok \in Strs -> R(StrAst(tok), i + 1)
    [] tok \in Lits -> R(LitAst(tok), i + 1)
    [] tok = "(" -> LET r == Expr(ts, i + 1, 0) IN
                    IF r.ok /\ At(ts, r.i) = ")" THEN R(r.e, r.i + 1) ELSE Reject
    [] tok = "[" ->
         IF At(ts, i + 1) = "]" THEN R([t |-> "arr", v |-> <<>>], i + 2)
         ELSE LET f == Expr(ts, i + 1, 0) IN
              IF ~f.ok THEN Reject
              ELSE LET j == IF At(ts, f.i) = "," /\ At(ts, f.i + 1) = "for" THEN f.i + 1 ELSE f.i IN
                   IF At(ts, j) = "for"
                   THEN LET sp == CompSpecs(ts, j, <<>>) IN
                        IF sp.ok /\ At(ts, sp.i) = "]"
                        THEN R([t |-> "arrcomp", v |-> f.e, specs |-> sp.e], sp.i + 1) ELSE Reject
                   ELSE IF At(ts, f.i) = "," THEN
                        LET rest == ExprList(ts, f.i + 1, "]", <<f.e>>) IN
                        IF rest.ok THEN R([t |-> "arr", v |-> rest.e], rest.i) ELSE Reject
                   ELSE IF At(ts, f.i) = "]" THEN R([t |-> "arr", v |-> <<f.e>>], f.i + 1)
                   ELSE Reject
    [] tok = "{" -> LET b == ObjInside(ts, i + 1) IN
                    IF b.ok THEN R([t |-> "obj", b |-> b.e], b.i) ELSE Reject
    [] tok = "local" ->
         LET bs == Binds(ts, i + 1, <<>>) IN
         IF ~bs.ok THEN Reject
         ELSE IF At(ts, bs.i) # ";" THEN Reject
         ELSE LET r == Expr(ts, bs.i + 1, 0) IN
              IF r.ok THEN R([t |-> "local", binds |-> bs.e, e |-> r.e], r.i) ELSE Reject
    [] tok = "if" ->
         LET c == Expr(ts, i + 1, 0) IN
         IF ~c.ok \/ At(ts, c.i) # "then" THEN Reject
         ELSE LET a == Expr(ts, c.i + 1, 0) IN
              IF ~a.ok THEN Reject
              ELSE IF At(ts, a.i) = "else"
                   THEN LET b == Expr(ts, a.i + 1, 0) IN
                        IF b.ok THEN R([t |-> "if", c |-> c.e, then |-> a.e, else |-> b.e], b.i) ELSE Reject
                   ELSE R([t |-> "if", c |-> c.e, then |-> a.e, else |-> None], a.i)
    [] tok = "function" ->
         IF At(ts, i + 1) # "(" THEN Reject
         ELSE LET ps == Params(ts, i + 2, <<>>) IN
              IF ~ps.ok THEN Reject
              ELSE LET b == Expr(ts, ps.i, 0) IN
                   IF b.ok THEN R([t |-> "fn", p |-> ps.e, b |-> b.e], b.i) ELSE Reject
    [] tok = "error" ->
         LET r == Expr(ts, i + 1, 0) IN IF r.ok THEN R([t |-> "error", e |-> r.e], r.i) ELSE Reject
    [] tok = "assert" ->
         LET a == AssertStmt(ts, i) IN
         IF ~a.ok \/ At(ts, a.i) # ";" THEN Reject
         ELSE LET r == Expr(ts, a.i + 1, 0) IN
              IF r.ok THEN R([t |-> "assert", a |-> a.e, rest |-> r.e], r.i) ELSE Reject
    [] tok \in {"import", "importstr", "importbin"} ->
         \* like error: the operand extends as far right as possible; only a string literal operand is a
         \* valid import (anything else is a "computed import": a static error outside the grammar's verdict)
         LET r == Expr(ts, i + 1, 0) IN IF r.ok THEN R([t |-> "import", k |-> tok, e |-> r.e], r.i) ELSE Reject
    [] OTHER -> Reject

\* after "[" e : ...   or "[" : ...  ; start is None or the already parsed start; i is at the first ":"
\* forms: [s:] [s:e] [s:e:] [s:e:k] [s::k] [s::] [:e] ...
SliceRest(ts, i, start, base) ==
  LET j == i + 1                                        \* after the first ":"
      endR == IF At(ts, j) \in {":", "]", "::"} THEN R(None, j) ELSE Expr(ts, j, 0) IN
  IF ~endR.ok THEN Reject
  ELSE IF At(ts, endR.i) = "]"
       THEN R([t |-> "slice", e |-> base, start |-> start, end |-> endR.e, step |-> None], endR.i + 1)
       ELSE IF At(ts, endR.i) = ":"
            THEN LET k == endR.i + 1
                     stepR == IF At(ts, k) = "]" THEN R(None, k) ELSE Expr(ts, k, 0) IN
                 IF ~stepR.ok \/ At(ts, stepR.i) # "]" THEN Reject
                 ELSE R([t |-> "slice", e |-> base, start |-> start, end |-> endR.e, step |-> stepR.e], stepR.i + 1)
            ELSE Reject

Postfix(ts, e, parts, i) ==
  LET tok == At(ts, i) IN
  CASE tok = "." ->
         IF At(ts, i + 1) \in Ids
         THEN Postfix(ts, e, Append(parts, [v |-> [t |-> "str", v |-> IdCps(At(ts, i + 1))]]), i + 2)
         ELSE Reject
    [] tok = "[" ->
         IF At(ts, i + 1) = ":"
         THEN LET s == SliceRest(ts, i + 1, None, Flush(e, parts)) IN
              IF s.ok THEN Postfix(ts, s.e, <<>>, s.i) ELSE Reject
         ELSE IF At(ts, i + 1) = "::"
         THEN \* [::k]  - the lexer produces "::" for two adjacent colons
              LET k == i + 2
                  stepR == IF At(ts, k) = "]" THEN R(None, k) ELSE Expr(ts, k, 0) IN
              IF ~stepR.ok \/ At(ts, stepR.i) # "]" THEN Reject
              ELSE Postfix(ts, [t |-> "slice", e |-> Flush(e, parts), start |-> None, end |-> None, step |-> stepR.e],
                           <<>>, stepR.i + 1)
         ELSE LET x == Expr(ts, i + 1, 0) IN
              IF ~x.ok THEN Reject
              ELSE IF At(ts, x.i) = "]" THEN Postfix(ts, e, Append(parts, [v |-> x.e]), x.i + 1)
              ELSE IF At(ts, x.i) = ":"
                   THEN LET s == SliceRest(ts, x.i, x.e, Flush(e, parts)) IN
                        IF s.ok THEN Postfix(ts, s.e, <<>>, s.i) ELSE Reject
              ELSE IF At(ts, x.i) = "::"
                   THEN LET k == x.i + 1
                            stepR == IF At(ts, k) = "]" THEN R(None, k) ELSE Expr(ts, k, 0) IN
                        IF ~stepR.ok \/ At(ts, stepR.i) # "]" THEN Reject
                        ELSE Postfix(ts, [t |-> "slice", e |-> Flush(e, parts), start |-> x.e, end |-> None,
                                          step |-> stepR.e], <<>>, stepR.i + 1)
              ELSE Reject
    [] tok = "(" ->
         LET a == Args(ts, i + 1, <<>>, <<>>, FALSE) IN
         IF ~a.ok THEN Reject
         ELSE LET tsn == At(ts, a.i) = "tailstrict" IN
              Postfix(ts, [t |-> "apply", f |-> Flush(e, parts), args |-> a.e, tailstrict |-> tsn], <<>>,
                      IF tsn THEN a.i + 1 ELSE a.i)
    [] tok = "{" ->
         LET b == ObjInside(ts, i + 1) IN
         IF b.ok THEN Postfix(ts, [t |-> "objext", l |-> Flush(e, parts), b |-> b.e], <<>>, b.i) ELSE Reject
    [] OTHER -> R(Flush(e, parts), i)

\* a whole text: one expression, nothing after it
Parse(ts) ==
  LET r == Expr(ts, 1, 0) IN
  IF r.ok /\ r.i = Len(ts) + 1 THEN [ok |-> TRUE, e |-> r.e] ELSE Reject
=============================================================================
