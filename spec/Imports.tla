------------------------------ MODULE Imports ------------------------------
(***************************************************************************)
(* C07 — import, importstr and importbin: resolution order, the per-state  *)
(* file cache, evaluation at most once, cycles, faults and recovery.       *)
(*                                                                         *)
(* World (chosen in Init from a bounded family):                           *)
(*   dirs   "root" (holds the main file m) and library dirs "L1","L2"      *)
(*   files  names "a","b": where copies exist (placed), what they are      *)
(*          (jsonnet with a list of imports, plain text, non-UTF-8 bytes,  *)
(*          a directory), "zz" never exists                                *)
(*   jlist  library dirs as given with -J left to right; env = JSONNET_PATH*)
(*   m      the main file: a list of import sites                          *)
(*   fault  an injected resolver failure (first resolve / first load of a  *)
(*          name fails once)                                               *)
(* Behaviour: the main file is imported and manifested, MaxRuns times on   *)
(* the same evaluation state.  One action per step of the implementation:  *)
(* Resolve, Load (or cache hit), EvalBegin, Finish, Abort (error unwinds). *)
(* Every jsonnet file has the shape                                        *)
(*    local d0 = import "..", d1 = importstr "..";                         *)
(*    std.trace("EVAL name@dir", if forced(d0) && forced(d1)               *)
(*                               then {v: "name@dir", deps: [d0, d1]})     *)
(* so that its imports are evaluated, in order, while the file itself is   *)
(* being evaluated (strict cycles are real cycles); imports marked lazy    *)
(* sit in a hidden field and are never evaluated.                          *)
(***************************************************************************)
EXTENDS Naturals, Sequences, FiniteSets, TLC, Json

CONSTANTS Family, MaxRuns

Dirs == {"root", "L1", "L2"}
Names == {"a", "b"}
Kinds == {"import", "importstr", "importbin"}
P(d, n) == <<d, n>>
Main == P("root", "m")

VARIABLES
  placed,   \* name -> set of dirs holding a copy
  fkind,    \* name -> "json" | "text" | "bad" | "dir"
  deps,     \* name -> Seq([kind, target, sp, lazy]) for json files (same for every copy)
  sites,    \* imports of the main file
  jlist, env, fault,
  \* ---- evaluation state (persists across runs: one `State`)
  hasStr, hasBytes, parsed, evaluating, evaluated,   \* sets of paths / path -> value
  loads, evals,                                      \* path -> count
  failedLoads, failedEvals,
  \* ---- control
  stack,    \* Seq([p, i, acc])
  pc,       \* "idle" | "run" | "done"
  pending,  \* a resolved import waiting for its load/evaluation: [p, kind] or [kind |-> "none"]
  faultLeft,
  run, log, outcome, hist

wvars == <<placed, fkind, deps, sites, jlist, env, fault>>
cvars == <<hasStr, hasBytes, parsed, evaluating, evaluated, loads, evals, failedLoads, failedEvals>>
vars == <<wvars, cvars, stack, pc, pending, faultLeft, run, log, outcome, hist>>

NoPending == [kind |-> "none"]
NoFault == [op |-> "none", name |-> ""]
Site(k, t, sp, lz) == [kind |-> k, target |-> t, sp |-> sp, lazy |-> lz]

\* ------------------------------------------------------------------ resolution
RECURSIVE Rev(_)
Rev(s) == IF s = <<>> THEN <<>> ELSE Rev(Tail(s)) \o <<Head(s)>>
\* importer's directory first, then right-most -J first, then JSONNET_PATH entries in order
SearchDirs(fromDir) == <<fromDir>> \o Rev(jlist) \o env

Exists(d, n) == n \in Names /\ d \in placed[n]
RECURSIVE FirstDir(_, _)
FirstDir(ds, n) == IF ds = <<>> THEN "none"
                   ELSE IF Exists(Head(ds), n) THEN Head(ds) ELSE FirstDir(Tail(ds), n)

DepsOf(p) == IF p = Main THEN sites ELSE deps[p[2]]

\* ------------------------------------------------------------------ values
VJson(p, ds) == [t |-> "json", p |-> p, deps |-> ds]
VStr(p)  == [t |-> "str", p |-> p]
VBin(p)  == [t |-> "bin", p |-> p]

Err(c) == [k |-> "err", class |-> c]

\* ------------------------------------------------------------------ families of worlds
AllPaths == {P(d, n) : d \in Dirs, n \in Names} \cup {Main}
JLists == {<<>>, <<"L1">>, <<"L1", "L2">>, <<"L2", "L1">>}

\* one site of each kind and spelling over every layout: resolution order and shadowing
LayoutWorlds ==
  { [placed |-> [n \in Names |-> IF n = "a" THEN pa ELSE {}],
     fkind |-> [n \in Names |-> "json"], deps |-> [n \in Names |-> <<>>],
     sites |-> <<Site(k, "a", sp, FALSE)>>, jlist |-> jl, env |-> ev, fault |-> NoFault]
    : pa \in SUBSET Dirs, k \in Kinds, sp \in {"plain", "dotslash"}, jl \in JLists, ev \in {<<>>, <<"L2">>, <<"L1">>} }

\* import graphs over a and b in root (trees, diamonds, strict and lazy cycles, repeated and mixed-kind sites)
GraphSites == { <<>> } \cup { <<s>> : s \in {Site(k, t, "plain", FALSE) : k \in Kinds, t \in {"a", "b"}} }
              \cup { <<Site("import", "a", "plain", FALSE), Site(k, t, sp, FALSE)>> :
                       k \in Kinds, t \in {"a", "b"}, sp \in {"plain", "dotslash", "dotdot", "link"} }
              \cup { <<Site(k1, "a", "plain", FALSE), Site(k2, "a", "link", FALSE), Site("import", "b", "plain", FALSE)>> :
                       k1 \in Kinds, k2 \in Kinds }
DepChoices(t) == { <<>>, <<Site("import", t, "plain", FALSE)>>, <<Site("import", t, "plain", TRUE)>>,
                   <<Site("importstr", t, "plain", FALSE)>>, <<Site("import", t, "plain", FALSE), Site("import", t, "dotslash", FALSE)>> }
GraphWorlds ==
  { [placed |-> [n \in Names |-> {"root"}], fkind |-> [n \in Names |-> "json"],
     deps |-> [n \in Names |-> IF n = "a" THEN da ELSE db],
     sites |-> ss, jlist |-> <<>>, env |-> <<>>, fault |-> NoFault]
    : da \in DepChoices("b"), db \in DepChoices("a") \cup {<<Site("import", "zz", "plain", FALSE)>>}, ss \in GraphSites }

\* file kinds: text, non-UTF-8, directory, missing, under every import kind and pairs of kinds
KindWorlds ==
  { [placed |-> [n \in Names |-> IF n = "a" THEN {"root"} ELSE {"L1"}],
     fkind |-> [n \in Names |-> IF n = "a" THEN fk ELSE "json"], deps |-> [n \in Names |-> <<>>],
     sites |-> ss, jlist |-> <<"L1">>, env |-> <<>>, fault |-> NoFault]
    : fk \in {"text", "bad", "dir"},
      ss \in { <<Site(k1, "a", "plain", FALSE)>> : k1 \in Kinds }
          \cup { <<Site("import", "b", "plain", FALSE), Site(k1, "zz", "plain", FALSE)>> : k1 \in Kinds } }

\* injected resolver faults at each resolve / load, then a retry on the same state
FaultWorlds ==
  { [placed |-> [n \in Names |-> IF n = "a" THEN {"root"} ELSE {"L1"}],
     fkind |-> [n \in Names |-> "json"],
     deps |-> [n \in Names |-> IF n = "a" THEN da ELSE <<>>],
     sites |-> ss, jlist |-> <<"L1">>, env |-> <<>>, fault |-> f]
    : da \in { <<>>, <<Site("import", "b", "plain", FALSE)>> },
      ss \in { <<Site(k, "a", "plain", FALSE), Site("import", "b", "plain", FALSE)>> : k \in Kinds }
          \cup { <<Site("import", "b", "plain", FALSE), Site(k, "a", "plain", FALSE)>> : k \in Kinds },
      f \in {NoFault} \cup {[op |-> o, name |-> n] : o \in {"resolve", "load"}, n \in {"a", "b", "m"}} }

\* errors in one file followed by other imports / retries (bad kinds + a retry)
RecoverWorlds ==
  { [placed |-> [n \in Names |-> {"root"}],
     fkind |-> [n \in Names |-> IF n = "a" THEN fk ELSE "json"],
     deps |-> [n \in Names |-> IF n = "b" THEN db ELSE <<>>],
     sites |-> ss, jlist |-> <<>>, env |-> <<>>, fault |-> NoFault]
    : fk \in {"json", "text", "bad"}, db \in {<<>>, <<Site("import", "b", "plain", FALSE)>>, <<Site("importbin", "a", "plain", FALSE)>>},
      ss \in { <<Site(k1, "a", "plain", FALSE), Site(k2, "a", "plain", FALSE)>> : k1 \in Kinds, k2 \in Kinds }
          \cup { <<Site("import", "b", "plain", FALSE)>> } }

Worlds == CASE Family = "layout" -> LayoutWorlds
            [] Family = "graph" -> GraphWorlds
            [] Family = "kinds" -> KindWorlds
            [] Family = "fault" -> FaultWorlds
            [] Family = "recover" -> RecoverWorlds

Init ==
  /\ \E w \in Worlds :
       /\ placed = w.placed /\ fkind = w.fkind /\ deps = w.deps /\ sites = w.sites
       /\ jlist = w.jlist /\ env = w.env /\ fault = w.fault
  /\ hasStr = {} /\ hasBytes = {} /\ parsed = {} /\ evaluating = {} /\ evaluated = << >>
  /\ loads = [p \in AllPaths |-> 0] /\ evals = [p \in AllPaths |-> 0]
  /\ failedLoads = [p \in AllPaths |-> 0] /\ failedEvals = [p \in AllPaths |-> 0]
  /\ stack = <<>> /\ pc = "idle" /\ pending = NoPending
  /\ faultLeft = fault /\ run = 0 /\ log = <<>> /\ outcome = [k |-> "none"] /\ hist = <<>>

\* ------------------------------------------------------------------ helpers
FaultHits(op, n) == faultLeft.op = op /\ faultLeft.name = n
KindOf(p) == IF p = Main THEN "json" ELSE fkind[p[2]]

\* an error unwinds every frame: each file under evaluation stops being "evaluating" and counts a
\* failed evaluation; nothing else in the cache changes
AbortWith(c, lg) ==
  LET running == {stack[i].p : i \in 1..Len(stack)} IN
  /\ evaluating' = evaluating \ running
  /\ failedEvals' = [p \in AllPaths |-> IF p \in running THEN failedEvals[p] + 1 ELSE failedEvals[p]]
  /\ stack' = <<>> /\ pending' = NoPending /\ pc' = "done"
  /\ outcome' = Err(c) /\ log' = lg

\* the value of a finished import is handed to the frame below (or is the outcome of the run)
Deliver(v, stk, lg) ==
  IF stk = <<>>
  THEN /\ stack' = <<>> /\ pc' = "done" /\ outcome' = [k |-> "val", v |-> v] /\ log' = lg /\ pending' = NoPending
  ELSE /\ stack' = <<[Head(stk) EXCEPT !.i = @ + 1, !.acc = Append(@, v)]>> \o Tail(stk)
       /\ pending' = NoPending /\ log' = lg /\ UNCHANGED <<pc, outcome>>

\* ------------------------------------------------------------------ actions
\* start (or restart) the evaluation of the main file on the same state
StartRun ==
  /\ pc = "idle" /\ run < MaxRuns
  /\ run' = run + 1
  /\ IF FaultHits("resolve", "m")
     THEN /\ faultLeft' = NoFault /\ pending' = NoPending /\ pc' = "done" /\ outcome' = Err("io")
          /\ log' = <<[op |-> "resolve", from |-> <<"default", "">>, name |-> "m", sp |-> "abs", res |-> "fault"]>>
          /\ UNCHANGED <<stack>>
     ELSE /\ pending' = [p |-> Main, kind |-> "import"] /\ pc' = "run"
          /\ log' = <<[op |-> "resolve", from |-> <<"default", "">>, name |-> "m", sp |-> "abs", res |-> Main]>>
          /\ UNCHANGED <<faultLeft, stack, outcome>>
  /\ UNCHANGED <<wvars, cvars, hist>>

\* the file on top of the stack evaluates its next (non-lazy) import: resolve it
Resolve ==
  /\ pc = "run" /\ pending = NoPending /\ stack # <<>>
  /\ LET f == Head(stack) ds == DepsOf(f.p) IN
     /\ f.i <= Len(ds)
     /\ LET s == ds[f.i] IN
        IF s.lazy
        THEN /\ stack' = <<[f EXCEPT !.i = @ + 1]>> \o Tail(stack)
             /\ UNCHANGED <<cvars, pending, faultLeft, pc, outcome, log>>
        ELSE LET ent == [op |-> "resolve", from |-> f.p, name |-> s.target, sp |-> s.sp] IN
             IF FaultHits("resolve", s.target)
             THEN /\ faultLeft' = NoFault
                  /\ AbortWith("io", Append(log, ent @@ [res |-> "fault"]))
                  /\ UNCHANGED <<hasStr, hasBytes, parsed, evaluated, loads, evals, failedLoads>>
             ELSE LET d == FirstDir(SearchDirs(f.p[1]), s.target) IN
                  IF d = "none"
                  THEN /\ AbortWith("notfound", Append(log, ent @@ [res |-> "err"]))
                       /\ UNCHANGED <<hasStr, hasBytes, parsed, evaluated, loads, evals, failedLoads, faultLeft>>
                  ELSE IF fkind[s.target] = "dir"
                  THEN /\ AbortWith("special", Append(log, ent @@ [res |-> "err"]))
                       /\ UNCHANGED <<hasStr, hasBytes, parsed, evaluated, loads, evals, failedLoads, faultLeft>>
                  ELSE /\ pending' = [p |-> P(d, s.target), kind |-> s.kind]
                       /\ log' = Append(log, ent @@ [res |-> P(d, s.target)])
                       /\ UNCHANGED <<cvars, stack, faultLeft, pc, outcome>>
  /\ UNCHANGED <<wvars, run, hist>>

\* a resolved import: read the file unless the state already holds it, then hand out contents or
\* evaluate (each path is evaluated at most once; a path under evaluation is a cycle)
Fetch ==
  /\ pc = "run" /\ pending # NoPending
  /\ LET p == pending.p k == pending.kind
         cached == p \in hasStr \/ p \in hasBytes
         needLoad == ~cached
         lg1 == IF needLoad THEN Append(log, [op |-> "load", p |-> p,
                                              res |-> IF FaultHits("load", p[2]) THEN "fault" ELSE "ok"])
                ELSE log
         fk == KindOf(p)
     IN
     IF needLoad /\ FaultHits("load", p[2])
     THEN /\ faultLeft' = NoFault
          /\ loads' = [loads EXCEPT ![p] = @ + 1] /\ failedLoads' = [failedLoads EXCEPT ![p] = @ + 1]
          /\ AbortWith("io", lg1)
          /\ UNCHANGED <<hasStr, hasBytes, parsed, evaluated, evals>>
     ELSE
     LET ld == IF needLoad THEN [loads EXCEPT ![p] = @ + 1] ELSE loads IN
     CASE k = "importbin" ->
            /\ hasBytes' = hasBytes \cup {p} /\ loads' = ld
            /\ Deliver(VBin(p), stack, lg1)
            /\ UNCHANGED <<hasStr, parsed, evaluating, evaluated, evals, failedLoads, failedEvals, faultLeft>>
       [] k \in {"importstr", "import"} /\ fk = "bad" ->
            \* not valid UTF-8: an error; bytes read for this attempt are not kept unless already held
            /\ loads' = ld /\ failedLoads' = IF needLoad THEN [failedLoads EXCEPT ![p] = @ + 1] ELSE failedLoads
            /\ AbortWith("badutf8", lg1)
            /\ UNCHANGED <<hasStr, hasBytes, parsed, evaluated, evals, faultLeft>>
       [] k = "importstr" /\ fk # "bad" ->
            /\ hasStr' = hasStr \cup {p} /\ loads' = ld
            /\ Deliver(VStr(p), stack, lg1)
            /\ UNCHANGED <<hasBytes, parsed, evaluating, evaluated, evals, failedLoads, failedEvals, faultLeft>>
       [] k = "import" /\ fk = "text" ->
            \* plain text is not a Jsonnet program: syntax error, the text stays cached
            /\ hasStr' = hasStr \cup {p} /\ loads' = ld
            /\ AbortWith("syntax", lg1)
            /\ UNCHANGED <<hasBytes, parsed, evaluated, evals, failedLoads, faultLeft>>
       [] k = "import" /\ fk = "json" ->
            IF p \in DOMAIN evaluated
            THEN /\ Deliver(evaluated[p], stack, lg1)
                 /\ UNCHANGED <<cvars, faultLeft>>
            ELSE IF p \in evaluating
            THEN /\ hasStr' = hasStr \cup {p} /\ loads' = ld
                 /\ AbortWith("infrec", lg1)
                 /\ UNCHANGED <<hasBytes, parsed, evaluated, evals, failedLoads, faultLeft>>
            ELSE /\ hasStr' = hasStr \cup {p} /\ parsed' = parsed \cup {p} /\ loads' = ld
                 /\ evaluating' = evaluating \cup {p}
                 /\ evals' = [evals EXCEPT ![p] = @ + 1]
                 /\ stack' = <<[p |-> p, i |-> 1, acc |-> <<>>]>> \o stack
                 /\ pending' = NoPending /\ log' = Append(lg1, [op |-> "eval", p |-> p])
                 /\ UNCHANGED <<hasBytes, evaluated, failedLoads, failedEvals, faultLeft, pc, outcome>>
  /\ UNCHANGED <<wvars, run, hist>>

\* all imports of the file on top of the stack are there: its value is complete and cached
Finish ==
  /\ pc = "run" /\ pending = NoPending /\ stack # <<>>
  /\ LET f == Head(stack) IN
     /\ f.i > Len(DepsOf(f.p))
     /\ LET v == VJson(f.p, f.acc) IN
        /\ evaluated' = [q \in DOMAIN evaluated \cup {f.p} |-> IF q = f.p THEN v ELSE evaluated[q]]
        /\ evaluating' = evaluating \ {f.p}
        /\ Deliver(v, Tail(stack), log)
  /\ UNCHANGED <<wvars, hasStr, hasBytes, parsed, loads, evals, failedLoads, failedEvals, faultLeft, run, hist>>

\* the run is over: record what an observer saw, get ready for a retry on the same state
EndRun ==
  /\ pc = "done"
  /\ hist' = Append(hist, [outcome |-> outcome, log |-> log])
  /\ pc' = "idle" /\ log' = <<>> /\ outcome' = [k |-> "none"]
  /\ UNCHANGED <<wvars, cvars, stack, pending, faultLeft, run>>

Next == StartRun \/ Resolve \/ Fetch \/ Finish \/ EndRun
Spec == Init /\ [][Next]_vars

\* ------------------------------------------------------------------ properties (C07)
\* each distinct file is read / evaluated at most once per state (plus failed attempts)
LoadOnce == \A p \in AllPaths : loads[p] <= 1 + failedLoads[p]
EvalOnce == \A p \in AllPaths : evals[p] <= 1 + failedEvals[p]
\* no "evaluating" marker survives an outcome
NoStaleFlag == pc \in {"idle", "done"} => evaluating = {}
EvaluatingIsStack == evaluating = {stack[i].p : i \in 1..Len(stack)}
\* a cached value belongs to a file that exists where the resolver found it
CacheSound == \A p \in DOMAIN evaluated : p = Main \/ Exists(p[1], p[2])
\* without faults and with the same world a retry gives the same outcome as the first run
RetrySame == (fault = NoFault /\ Len(hist) = 2) => hist[1].outcome = hist[2].outcome
\* after a fault has cleared, the retry succeeds exactly when the fault-free world succeeds: its
\* outcome carries no trace of the earlier failure (checked against the fault-free twin by the driver)

\* ------------------------------------------------------------------ replay generation
Done == pc = "idle" /\ run = MaxRuns
Emit == Done => PrintT("REPLAY " \o ToJson([fam |-> "imports." \o Family,
          world |-> [placed |-> placed, fkind |-> fkind, deps |-> deps, sites |-> sites,
                     jlist |-> jlist, env |-> env, fault |-> fault],
          runs |-> hist,
          loads |-> {[p |-> p, n |-> loads[p]] : p \in {q \in AllPaths : loads[q] > 0}},
          evals |-> {[p |-> p, n |-> evals[p]] : p \in {q \in AllPaths : evals[q] > 0}}]))
=============================================================================
