------------------------------ MODULE Interner ------------------------------
(***************************************************************************)
(* C18 (second half) — the string/byte interner.                           *)
(*                                                                         *)
(* Implementation-shaped model of crates/jrsonnet-interner: a thread-local *)
(* pool maps a content to ONE shared cell carrying a reference count and   *)
(* a "known UTF-8" flag; IStr/IBytes handles point to cells.  Each public  *)
(* operation is one action; the multi-step ones (intern = lookup/insert +  *)
(* clone, drop = maybe-unpool + decrement, casts = clone + drop of self)   *)
(* are composed exactly as the code composes them, so the reference-count  *)
(* protocol (`strong_count <= 2` means "only this handle and the pool")    *)
(* is part of the model and its invariants.                                *)
(***************************************************************************)
EXTENDS Naturals, Sequences, FiniteSets, TLC, Json

CONSTANTS MaxOps, MaxHandles

\* contents: byte sequences; "" , "a", e-acute (2 bytes), and a byte that is not UTF-8
Contents == { <<>>, <<97>>, <<195, 169>>, <<255>> }
IsUtf8(c) == c # <<255>>

VARIABLES
  pool,      \* content -> [rc, utf8] for pooled cells   (the thread-local POOL)
  cells,     \* content -> [rc, utf8] for cells that are alive but no longer pooled (must stay empty)
  handles,   \* id -> [c, kind]                          (live IStr / IBytes values)
  nextId,
  hist       \* sequence of [op, ..., expected observation]; not part of the VIEW

vars == <<pool, cells, handles, nextId, hist>>
view == <<pool, cells, handles, nextId>>

Live == DOMAIN handles
HandlesOf(c) == {h \in Live : handles[h].c = c}

\* ------------------------------------------------------------------ cell-level steps
\* lookup-or-insert followed by cloning the key into a new handle (intern_bytes)
InternCell(p, c, utf8) ==
  IF c \in DOMAIN p
  THEN [p EXCEPT ![c] = [rc |-> @.rc + 1, utf8 |-> @.utf8 \/ utf8]]
  ELSE [x \in DOMAIN p \cup {c} |-> IF x = c THEN [rc |-> 2, utf8 |-> utf8] ELSE p[x]]

\* Drop of one handle: `if strong_count <= 2 { pool.remove }` then decrement (and free at 0)
DropCell(p, c) ==
  IF p[c].rc <= 2
  THEN [x \in DOMAIN p \ {c} |-> p[x]]            \* unpooled, pool reference and ours released
  ELSE [p EXCEPT ![c].rc = @ - 1]

CloneCell(p, c) == [p EXCEPT ![c].rc = @ + 1]

\* ------------------------------------------------------------------ observation (what the harness sees)
Obs(p, hs) ==
  [pool   |-> Cardinality(DOMAIN p),
   pooled |-> {c \in Contents : c \in DOMAIN p},
   live   |-> {[h |-> h, kind |-> hs[h].kind, c |-> hs[h].c] : h \in DOMAIN hs}]

Record(op, p, hs) == hist' = Append(hist, [op |-> op, obs |-> Obs(p, hs)])

AddHandle(hs, id, c, kind) ==
  [x \in DOMAIN hs \cup {id} |-> IF x = id THEN [c |-> c, kind |-> kind] ELSE hs[x]]
DelHandle(hs, id) == [x \in DOMAIN hs \ {id} |-> hs[x]]

\* ------------------------------------------------------------------ actions
InternStr(c) ==
  /\ IsUtf8(c) /\ Cardinality(Live) < MaxHandles
  /\ LET p == InternCell(pool, c, TRUE)
         hs == AddHandle(handles, nextId, c, "str") IN
     /\ pool' = p /\ handles' = hs /\ nextId' = nextId + 1
     /\ Record([op |-> "intern_str", c |-> c], p, hs)
  /\ UNCHANGED cells

InternBytes(c) ==
  /\ Cardinality(Live) < MaxHandles
  /\ LET p == InternCell(pool, c, FALSE)
         hs == AddHandle(handles, nextId, c, "bytes") IN
     /\ pool' = p /\ handles' = hs /\ nextId' = nextId + 1
     /\ Record([op |-> "intern_bytes", c |-> c], p, hs)
  /\ UNCHANGED cells

Clone(h) ==
  /\ h \in Live /\ Cardinality(Live) < MaxHandles
  /\ LET c == handles[h].c
         p == CloneCell(pool, c)
         hs == AddHandle(handles, nextId, c, handles[h].kind) IN
     /\ pool' = p /\ handles' = hs /\ nextId' = nextId + 1
     /\ Record([op |-> "clone", h |-> h], p, hs)
  /\ UNCHANGED cells

Drop(h) ==
  /\ h \in Live
  /\ LET c == handles[h].c
         p == DropCell(pool, c)
         hs == DelHandle(handles, h) IN
     /\ pool' = p /\ handles' = hs
     /\ Record([op |-> "drop", h |-> h], p, hs)
  /\ UNCHANGED <<cells, nextId>>

\* IStr::cast_bytes(self): clone the cell into an IBytes, then self is dropped
CastBytes(h) ==
  /\ h \in Live /\ handles[h].kind = "str"
  /\ LET c == handles[h].c
         p == DropCell(CloneCell(pool, c), c)
         hs == AddHandle(DelHandle(handles, h), nextId, c, "bytes") IN
     /\ pool' = p /\ handles' = hs /\ nextId' = nextId + 1
     /\ Record([op |-> "cast_bytes", h |-> h], p, hs)
  /\ UNCHANGED cells

\* IBytes::cast_str(self): Some(clone) when the content is UTF-8 (flag cached), None otherwise;
\* self is dropped in both cases
CastStr(h) ==
  /\ h \in Live /\ handles[h].kind = "bytes"
  /\ LET c == handles[h].c IN
     IF IsUtf8(c)
     THEN LET p == DropCell(CloneCell([pool EXCEPT ![c].utf8 = TRUE], c), c)
              hs == AddHandle(DelHandle(handles, h), nextId, c, "str") IN
          /\ pool' = p /\ handles' = hs
          /\ Record([op |-> "cast_str", h |-> h, res |-> "ok"], p, hs)
     ELSE LET p == DropCell(pool, c)
              hs == DelHandle(handles, h) IN
          /\ pool' = p /\ handles' = hs
          /\ Record([op |-> "cast_str", h |-> h, res |-> "invalid"], p, hs)
  /\ nextId' = nextId + 1
  /\ UNCHANGED cells

\* interop::exit_thread immediately followed by reenter_thread: the pool is moved out (the thread's
\* pool is empty in between) and moved back
Handover ==
  /\ pool' = pool /\ UNCHANGED <<cells, handles, nextId>>
  /\ Record([op |-> "handover", between |-> 0], pool, handles)

Init ==
  /\ pool = << >> /\ cells = << >> /\ handles = << >> /\ nextId = 0 /\ hist = << >>

Next ==
  \/ \E c \in Contents : InternStr(c) \/ InternBytes(c)
  \/ \E h \in Live : Clone(h) \/ Drop(h) \/ CastBytes(h) \/ CastStr(h)
  \/ Handover

Spec == Init /\ [][Next]_vars

Bounded == Len(hist) < MaxOps

\* ------------------------------------------------------------------ properties (C18)
\* the pool is exactly the set of contents of live handles: a content whose last handle is
\* dropped leaves the pool, live handles keep theirs pooled
PoolExact == DOMAIN pool = {handles[h].c : h \in Live}
\* reference count = live handles + the pool's own reference
RefCounts == \A c \in DOMAIN pool : pool[c].rc = Cardinality(HandlesOf(c)) + 1
\* no cell survives outside the pool
NoOrphans == cells = << >>
\* one cell per content, hence pointer equality of handles is content equality (by construction
\* handles are identified with their content's cell; this states that the cell exists)
Canonical == \A h \in Live : handles[h].c \in DOMAIN pool
\* the cached flag never lies, and every IStr points to a flagged cell
Utf8Flag == /\ \A c \in DOMAIN pool : pool[c].utf8 => IsUtf8(c)
            /\ \A h \in Live : handles[h].kind = "str" => pool[handles[h].c].utf8
\* contents of live handles never change
ContentsStable == [][\A h \in Live \cap DOMAIN handles' : handles'[h] = handles[h]]_vars

\* ------------------------------------------------------------------ replay generation
\* printed for every transition TLC generates: the path to the source state plus this operation
EmitTransition == PrintT("REPLAY " \o ToJson([fam |-> "interner", ops |-> hist']))
=============================================================================
