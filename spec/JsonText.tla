------------------------------ MODULE JsonText ------------------------------
(***************************************************************************)
(* C05 — JSON manifestation.                                               *)
(*                                                                         *)
(* Writer(v, f): the text (sequence of code points) the documented JSON    *)
(* formats produce: std.manifestJsonEx(v, indent, newline, key_val_sep)    *)
(* ("std"), the command-line manifestation ("cli", empty containers as     *)
(* "[ ]" / "{ }"), std.manifestJsonMinified ("min") and std.toString /     *)
(* string concatenation ("tostring", one line, ", " and ": ").             *)
(* Reader(text): a recursive-descent RFC 8259 parser.  It is the           *)
(* independent JSON parser of the property: the binding accepts an         *)
(* implementation text exactly when Reader(text) = Visible(v); since       *)
(* Reader returns object members in textual order and Visible(v) is sorted *)
(* this also decides "keys ascending, hidden fields omitted".              *)
(*                                                                         *)
(* Model-level theorem checked by TLC on every enumerated value and        *)
(* format: Reader(Writer(v, f)) = Visible(v).                              *)
(***************************************************************************)
EXTENDS Values, Json

\* ------------------------------------------------------------------ Writer
EscapeChar(c) ==
  CASE c = 34 -> <<92, 34>>
    [] c = 92 -> <<92, 92>>
    [] c = 8  -> <<92, 98>>
    [] c = 9  -> <<92, 116>>
    [] c = 10 -> <<92, 110>>
    [] c = 12 -> <<92, 102>>
    [] c = 13 -> <<92, 114>>
    [] c < 32 -> <<92, 117, 48, 48, HexDigit(c \div 16), HexDigit(c % 16)>>
    [] OTHER  -> <<c>>

RECURSIVE EscapeBody(_)
EscapeBody(s) == IF s = <<>> THEN <<>> ELSE EscapeChar(Head(s)) \o EscapeBody(Tail(s))
WriteString(s) == <<34>> \o EscapeBody(s) \o <<34>>

\* alternative spelling used to exercise readers: every character as a four-hex-digit unicode
\* escape (astral code points as surrogate pairs), the solidus as backslash-solidus
Hex4Of(n) == <<HexDigit(n \div 4096), HexDigit((n \div 256) % 16), HexDigit((n \div 16) % 16), HexDigit(n % 16)>>
EscapeCharAlt(c) ==
  IF c = 47 THEN <<92, 47>>
  ELSE IF c < 65536 THEN <<92, 117>> \o Hex4Of(c)
  ELSE LET d == c - 65536 IN
       <<92, 117>> \o Hex4Of(55296 + (d \div 1024)) \o <<92, 117>> \o Hex4Of(56320 + (d % 1024))
RECURSIVE EscapeBodyAlt(_)
EscapeBodyAlt(s) == IF s = <<>> THEN <<>> ELSE EscapeCharAlt(Head(s)) \o EscapeBodyAlt(Tail(s))
WriteStringAlt(s) == <<34>> \o EscapeBodyAlt(s) \o <<34>>

\* formats: [kind |-> "std"|"cli"|"min"|"tostring", indent |-> Seq, nl |-> Seq, kv |-> Seq]
FmtStd(indent)  == [kind |-> "std", indent |-> indent, nl |-> <<10>>, kv |-> <<58, 32>>]
FmtStdEx(indent, nl, kv) == [kind |-> "std", indent |-> indent, nl |-> nl, kv |-> kv]
FmtCli(n)       == [kind |-> "cli", indent |-> Repeat(<<32>>, n), nl |-> <<10>>, kv |-> <<58, 32>>]
FmtMin          == [kind |-> "min", indent |-> <<>>, nl |-> <<>>, kv |-> <<58>>]
FmtAlt          == [kind |-> "alt", indent |-> <<>>, nl |-> <<>>, kv |-> <<32, 58, 10>>]
FmtToString     == [kind |-> "tostring", indent |-> <<>>, nl |-> <<>>, kv |-> <<58, 32>>]

RECURSIVE W(_, _, _)
\* cur = current indentation
W(v, f, cur) ==
  CASE v.t = "null" -> <<110, 117, 108, 108>>
    [] v.t = "bool" -> IF v.b THEN <<116, 114, 117, 101>> ELSE <<102, 97, 108, 115, 101>>
    [] v.t = "num"  -> IntDigits(v.n)
    [] v.t = "str"  -> IF f.kind = "alt" THEN WriteStringAlt(v.s) ELSE WriteString(v.s)
    [] v.t \in {"arr", "obj"} ->
         LET open  == IF v.t = "arr" THEN 91 ELSE 123
             close == IF v.t = "arr" THEN 93 ELSE 125
             inner == cur \o f.indent
             n     == IF v.t = "arr" THEN Len(v.a) ELSE Len(v.o)
             wkey(k) == IF f.kind = "alt" THEN WriteStringAlt(k) ELSE WriteString(k)
             item(i) == IF v.t = "arr" THEN W(v.a[i], f, inner)
                        ELSE wkey(v.o[i].k) \o f.kv \o W(v.o[i].v, f, inner)
             items == [i \in 1..n |-> item(i)]
         IN CASE f.kind = "min" -> <<open>> \o Join(<<44>>, items) \o <<close>>
              [] f.kind = "alt" -> <<32, open, 9>> \o Join(<<13, 10, 44, 32>>, items) \o <<10, close, 32>>
              [] f.kind = "tostring" ->
                   IF n = 0 THEN <<open, 32, close>>
                   ELSE <<open>> \o Join(<<44, 32>>, items) \o <<close>>
              [] f.kind = "cli" ->
                   IF n = 0 THEN <<open, 32, close>>
                   ELSE <<open>> \o f.nl \o inner \o Join(<<44>> \o f.nl \o inner, items)
                        \o f.nl \o cur \o <<close>>
              [] f.kind = "std" ->
                   \* std.manifestJsonEx: "[" nl (items joined by "," nl) nl cindent "]",
                   \* an empty container therefore is "[" nl nl cindent "]"
                   IF n = 0 THEN <<open>> \o f.nl \o f.nl \o cur \o <<close>>
                   ELSE <<open>> \o f.nl \o inner \o Join(<<44>> \o f.nl \o inner, items)
                        \o f.nl \o cur \o <<close>>

\* Writer refuses values containing a (visible) function
Writer(v, f) ==
  IF HasFunc(v) THEN [ok |-> FALSE, text |-> <<>>]
  ELSE [ok |-> TRUE, text |-> W(Visible(v), f, <<>>)]

\* ------------------------------------------------------------------ Reader (RFC 8259)
IsWs(c) == c \in {32, 9, 10, 13}
IsDigit(c) == c >= 48 /\ c <= 57
HexVal(c) == IF c >= 48 /\ c <= 57 THEN c - 48
             ELSE IF c >= 97 /\ c <= 102 THEN c - 87
             ELSE IF c >= 65 /\ c <= 70 THEN c - 55
             ELSE 0 - 1

Fail == [ok |-> FALSE]
Got(v, p) == [ok |-> TRUE, v |-> v, p |-> p]

RECURSIVE SkipWs(_, _)
SkipWs(s, i) == IF i <= Len(s) /\ IsWs(s[i]) THEN SkipWs(s, i + 1) ELSE i

At(s, i) == IF i >= 1 /\ i <= Len(s) THEN s[i] ELSE 0 - 1

Hex4(s, i) ==
  IF i + 3 > Len(s) THEN 0 - 1
  ELSE LET a == HexVal(s[i]) b == HexVal(s[i + 1]) c == HexVal(s[i + 2]) d == HexVal(s[i + 3])
       IN IF a < 0 \/ b < 0 \/ c < 0 \/ d < 0 THEN 0 - 1
          ELSE a * 4096 + b * 256 + c * 16 + d

RECURSIVE ReadStrBody(_, _, _)
\* i: position after the opening quote; acc: decoded code points so far
ReadStrBody(s, i, acc) ==
  LET c == At(s, i) IN
  IF c < 0 THEN Fail                                   \* unterminated
  ELSE IF c = 34 THEN Got(acc, i + 1)
  ELSE IF c < 32 THEN Fail                             \* raw control character
  ELSE IF c # 92 THEN ReadStrBody(s, i + 1, Append(acc, c))
  ELSE LET e == At(s, i + 1) IN
       CASE e = 34  -> ReadStrBody(s, i + 2, Append(acc, 34))
         [] e = 92  -> ReadStrBody(s, i + 2, Append(acc, 92))
         [] e = 47  -> ReadStrBody(s, i + 2, Append(acc, 47))
         [] e = 98  -> ReadStrBody(s, i + 2, Append(acc, 8))
         [] e = 102 -> ReadStrBody(s, i + 2, Append(acc, 12))
         [] e = 110 -> ReadStrBody(s, i + 2, Append(acc, 10))
         [] e = 114 -> ReadStrBody(s, i + 2, Append(acc, 13))
         [] e = 116 -> ReadStrBody(s, i + 2, Append(acc, 9))
         [] e = 117 ->
              LET h == Hex4(s, i + 2) IN
              IF h < 0 THEN Fail
              ELSE IF h >= 55296 /\ h <= 56319 THEN       \* high surrogate: needs a low one
                   IF At(s, i + 6) = 92 /\ At(s, i + 7) = 117
                   THEN LET l == Hex4(s, i + 8) IN
                        IF l >= 56320 /\ l <= 57343
                        THEN ReadStrBody(s, i + 12,
                               Append(acc, 65536 + (h - 55296) * 1024 + (l - 56320)))
                        ELSE Fail
                   ELSE Fail
              ELSE IF h >= 56320 /\ h <= 57343 THEN Fail  \* lone low surrogate
              ELSE ReadStrBody(s, i + 6, Append(acc, h))
         [] OTHER -> Fail

RECURSIVE ReadDigits(_, _, _)
\* returns [n, p, cnt] reading a (possibly empty) digit run; value saturates at 2^31-1
ReadDigits(s, i, acc) ==
  IF i <= Len(s) /\ IsDigit(s[i])
  THEN LET r == ReadDigits(s, i + 1, [n |-> IF acc.n > 200000000 THEN 2147483647
                                            ELSE acc.n * 10 + (s[i] - 48),
                                      cnt |-> acc.cnt + 1])
       IN r
  ELSE [n |-> acc.n, cnt |-> acc.cnt, p |-> i]

\* number: -? (0 | [1-9][0-9]*) (. [0-9]+)? ([eE] [+-]? [0-9]+)?
\* integer texts denote VNum(n); texts with fraction/exponent denote a "numtext" value carrying
\* the exact token (decided by the oracle-in-trace for doubles)
ReadNumber(s, i) ==
  LET neg == At(s, i) = 45
      j   == IF neg THEN i + 1 ELSE i
      int == ReadDigits(s, j, [n |-> 0, cnt |-> 0])
  IN IF int.cnt = 0 THEN Fail
     ELSE IF int.cnt > 1 /\ s[j] = 48 THEN Fail          \* leading zero
     ELSE LET afterInt == int.p
              hasFrac  == At(s, afterInt) = 46
              frac     == IF hasFrac THEN ReadDigits(s, afterInt + 1, [n |-> 0, cnt |-> 0])
                          ELSE [n |-> 0, cnt |-> 0, p |-> afterInt]
          IN IF hasFrac /\ frac.cnt = 0 THEN Fail
             ELSE LET afterFrac == frac.p
                      hasExp == At(s, afterFrac) \in {101, 69}
                      k  == IF hasExp /\ At(s, afterFrac + 1) \in {43, 45} THEN afterFrac + 2
                            ELSE afterFrac + 1
                      ex == IF hasExp THEN ReadDigits(s, k, [n |-> 0, cnt |-> 0])
                            ELSE [n |-> 0, cnt |-> 0, p |-> afterFrac]
                  IN IF hasExp /\ ex.cnt = 0 THEN Fail
                     ELSE IF ~hasFrac /\ ~hasExp /\ int.cnt <= 9
                          THEN Got(VNum(IF neg THEN 0 - int.n ELSE int.n), ex.p)
                          ELSE Got([t |-> "numtext", x |-> SubSeq(s, i, ex.p - 1)], ex.p)

Lit(s, i, word) == i + Len(word) - 1 <= Len(s) /\ SubSeq(s, i, i + Len(word) - 1) = word

RECURSIVE ReadValue(_, _, _), ReadElems(_, _, _, _), ReadMembers(_, _, _, _)
\* d bounds nesting (the texts checked here are shallow; RFC 8259 permits a limit)
ReadValue(s, i0, d) ==
  LET i == SkipWs(s, i0)
      c == At(s, i) IN
  IF d = 0 THEN Fail
  ELSE CASE c = 110 -> IF Lit(s, i, <<110, 117, 108, 108>>) THEN Got(VNull, i + 4) ELSE Fail
    [] c = 116 -> IF Lit(s, i, <<116, 114, 117, 101>>) THEN Got(VBool(TRUE), i + 4) ELSE Fail
    [] c = 102 -> IF Lit(s, i, <<102, 97, 108, 115, 101>>) THEN Got(VBool(FALSE), i + 5) ELSE Fail
    [] c = 34  -> LET r == ReadStrBody(s, i + 1, <<>>) IN
                  IF r.ok THEN Got(VStr(r.v), r.p) ELSE Fail
    [] c = 45 \/ IsDigit(c) -> ReadNumber(s, i)
    [] c = 91  -> LET j == SkipWs(s, i + 1) IN
                  IF At(s, j) = 93 THEN Got(VArr(<<>>), j + 1)
                  ELSE ReadElems(s, j, <<>>, d - 1)
    [] c = 123 -> LET j == SkipWs(s, i + 1) IN
                  IF At(s, j) = 125 THEN Got(VObj(<<>>), j + 1)
                  ELSE ReadMembers(s, j, <<>>, d - 1)
    [] OTHER -> Fail

ReadElems(s, i, acc, d) ==
  LET r == ReadValue(s, i, d) IN
  IF ~r.ok THEN Fail
  ELSE LET j == SkipWs(s, r.p) acc2 == Append(acc, r.v) IN
       IF At(s, j) = 44 THEN ReadElems(s, j + 1, acc2, d)
       ELSE IF At(s, j) = 93 THEN Got(VArr(acc2), j + 1)
       ELSE Fail

ReadMembers(s, i0, acc, d) ==
  LET i == SkipWs(s, i0) IN
  IF At(s, i) # 34 THEN Fail
  ELSE LET k == ReadStrBody(s, i + 1, <<>>) IN
       IF ~k.ok THEN Fail
       ELSE LET j == SkipWs(s, k.p) IN
            IF At(s, j) # 58 THEN Fail
            ELSE LET r == ReadValue(s, j + 1, d) IN
                 IF ~r.ok THEN Fail
                 ELSE LET m == SkipWs(s, r.p)
                          acc2 == Append(acc, Fld(k.v, FALSE, r.v)) IN
                      IF At(s, m) = 44 THEN ReadMembers(s, m + 1, acc2, d)
                      ELSE IF At(s, m) = 125 THEN Got(VObj(acc2), m + 1)
                      ELSE Fail

\* whole-text reader: one value, optional surrounding whitespace, nothing else
Reader(s) ==
  LET r == ReadValue(s, 1, 8) IN
  IF ~r.ok THEN Fail
  ELSE IF SkipWs(s, r.p) = Len(s) + 1 THEN [ok |-> TRUE, v |-> r.v] ELSE Fail

\* the acceptance predicate of the binding (C05): well-formed, same value, members ascending
\* (Visible(v) is sorted and duplicate-free by construction of the value families)
Accepts(v, text) == LET r == Reader(text) IN r.ok /\ r.v = Visible(v)
=============================================================================
