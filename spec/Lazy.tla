-------------------------------- MODULE Lazy --------------------------------
(***************************************************************************)
(* C03 — call-by-need: the memoisation protocol of a lazily evaluated cell *)
(* (thunk, array element, mapped element, object field cache entry).       *)
(*                                                                         *)
(* A cell is Waiting until first demanded; a demand turns it Pending and   *)
(* runs its body (which may demand other cells: explicit evaluation stack, *)
(* one micro-step per demand / return, as the implementation nests calls); *)
(* the body's outcome is stored (Computed / Errored) and every later       *)
(* demand replays the stored outcome without running the body; a demand    *)
(* that finds the cell Pending is a value depending on itself: "infinite   *)
(* recursion" error, nothing changes.                                      *)
(*                                                                         *)
(* The dependency graph and the set of failing bodies are chosen in Init,  *)
(* the external demand sequence is nondeterministic: TLC explores every    *)
(* graph (including cycles) x every demand order within the bounds.        *)
(***************************************************************************)
EXTENDS Naturals, Sequences, FiniteSets, TLC, Json

CONSTANTS N,            \* number of cells
          MaxDeps,      \* maximal number of dependencies of one body
          MaxDemands    \* length of the external demand sequence

Cells == 0..(N - 1)
DepSeqs == UNION {[1..k -> Cells] : k \in 0..MaxDeps}

VARIABLES
  deps,     \* Cells -> Seq(Cells): what each body demands, in order
  fails,    \* SUBSET Cells: bodies that end with their own error after their dependencies
  st,       \* Cells -> {"waiting","pending","computed","errored"}
  val,      \* Cells -> stored outcome ([k |-> "val", v] or [k |-> "err", e])
  runs,     \* Cells -> how many times the body was started
  stack,    \* evaluation stack: Seq([c, i, acc]) - cell, next dependency index, accumulated value
  ret,      \* outcome being returned to the frame below ("none" when nothing is in flight)
  log,      \* bodies started during the current external demand (order of starts)
  hist      \* finished external demands: Seq([c, out, runs])

vars == <<deps, fails, st, val, runs, stack, ret, log, hist>>

None == [k |-> "none"]
Val(v) == [k |-> "val", v |-> v]
Err(e) == [k |-> "err", e |-> e]

Init ==
  /\ deps \in [Cells -> DepSeqs]
  /\ fails \in SUBSET Cells
  /\ st = [c \in Cells |-> "waiting"]
  /\ val = [c \in Cells |-> None]
  /\ runs = [c \in Cells |-> 0]
  /\ stack = <<>> /\ ret = None /\ log = <<>> /\ hist = <<>>

\* ------------------------------------------------------------------ the demand of one cell
\* (used both for external demands and for dependencies of a running body)
\* Hit: replay the stored outcome
\* Reenter: Pending -> infinite recursion error
\* Start: Waiting -> Pending, push a frame, count the run
Demand(c) ==
  CASE st[c] \in {"computed", "errored"} ->
         /\ ret' = val[c] /\ UNCHANGED <<st, val, runs, stack, log>>
    [] st[c] = "pending" ->
         /\ ret' = Err(<<"infrec", 0>>) /\ UNCHANGED <<st, val, runs, stack, log>>
    [] st[c] = "waiting" ->
         /\ st' = [st EXCEPT ![c] = "pending"]
         /\ runs' = [runs EXCEPT ![c] = @ + 1]
         /\ stack' = <<[c |-> c, i |-> 1, acc |-> c]>> \o stack
         /\ log' = Append(log, c)
         /\ ret' = None /\ UNCHANGED val

\* external demand: only when quiescent
External(c) ==
  /\ stack = <<>> /\ ret = None /\ Len(hist) < MaxDemands
  /\ Demand(c)
  /\ hist' = Append(hist, [c |-> c])          \* completed by Deliver
  /\ UNCHANGED <<deps, fails>>

\* the running body demands its next dependency
CallDep ==
  /\ stack # <<>> /\ ret = None
  /\ LET f == Head(stack) IN
     /\ f.i <= Len(deps[f.c])
     /\ Demand(deps[f.c][f.i])
  /\ UNCHANGED <<deps, fails, hist>>

\* a dependency returned into the running body
Resume ==
  /\ stack # <<>> /\ ret # None
  /\ LET f == Head(stack) IN
     IF ret.k = "err"
     THEN \* the error propagates: the body fails with it (Finish below stores it)
          /\ st' = [st EXCEPT ![f.c] = "errored"]
          /\ val' = [val EXCEPT ![f.c] = ret]
          /\ stack' = Tail(stack)
          /\ UNCHANGED ret
     ELSE /\ stack' = <<[f EXCEPT !.i = @ + 1, !.acc = @ + 10 * ret.v]>> \o Tail(stack)
          /\ ret' = None /\ UNCHANGED <<st, val>>
  /\ UNCHANGED <<deps, fails, runs, log, hist>>

\* the body is done with its dependencies: store its own outcome
Finish ==
  /\ stack # <<>> /\ ret = None
  /\ LET f == Head(stack) IN
     /\ f.i > Len(deps[f.c])
     /\ LET out == IF f.c \in fails THEN Err(<<"fail", f.c>>) ELSE Val(f.acc) IN
        /\ st' = [st EXCEPT ![f.c] = IF out.k = "val" THEN "computed" ELSE "errored"]
        /\ val' = [val EXCEPT ![f.c] = out]
        /\ ret' = out
     /\ stack' = Tail(stack)
  /\ UNCHANGED <<deps, fails, runs, log, hist>>

\* the outcome reaches the external caller
Deliver ==
  /\ stack = <<>> /\ ret # None
  /\ hist' = [hist EXCEPT ![Len(hist)] = [c |-> @.c, out |-> ret, runs |-> log]]
  /\ ret' = None /\ log' = <<>>
  /\ UNCHANGED <<deps, fails, st, val, runs, stack>>

Next == (\E c \in Cells : External(c)) \/ CallDep \/ Resume \/ Finish \/ Deliver
Spec == Init /\ [][Next]_vars

\* ------------------------------------------------------------------ properties (C03)
AtMostOnce == \A c \in Cells : runs[c] <= 1
PendingIffRunning == \A c \in Cells : st[c] = "pending" <=> \E i \in 1..Len(stack) : stack[i].c = c
QuiescentClean == (stack = <<>>) => \A c \in Cells : st[c] # "pending"
StoredOutcome == \A c \in Cells : (st[c] = "computed" => val[c].k = "val") /\ (st[c] = "errored" => val[c].k = "err")
\* an outcome, once stored, never changes; a body never starts twice
Stable == [][\A c \in Cells : st[c] \in {"computed", "errored"} => (st'[c] = st[c] /\ val'[c] = val[c])]_vars
\* nothing unneeded runs: a body has run only if it was demanded externally or by a body that ran
OnlyNeeded ==
  \A c \in Cells : runs[c] > 0 =>
     \/ \E i \in 1..Len(hist) : hist[i].c = c
     \/ \E d \in Cells : runs[d] > 0 /\ \E j \in 1..Len(deps[d]) : deps[d][j] = c

\* ------------------------------------------------------------------ replay generation
Done == stack = <<>> /\ ret = None /\ Len(hist) = MaxDemands
Emit == Done => PrintT("REPLAY " \o ToJson([fam |-> "thunks",
                  nodes |-> [i \in 1..N |-> [deps |-> deps[i - 1], fail |-> (i - 1) \in fails]],
                  demands |-> hist]))
=============================================================================
