------------------------------ MODULE Lexical ------------------------------
(***************************************************************************)
(* C06 (literal decoding) — string escapes, verbatim strings, text blocks  *)
(* and number literals as the Jsonnet lexical grammar defines them.        *)
(*                                                                         *)
(* Strings are sequences of code points.  Each family is enumerated        *)
(* completely over a small piece alphabet; the result is the decoded value *)
(* (or Reject, or Unspec where Jsonnet leaves it open / jrsonnet documents *)
(* nothing) that both evaluator parsers must produce.                      *)
(***************************************************************************)
EXTENDS Naturals, Sequences, FiniteSets, TLC, Json

CONSTANTS Family, MaxPieces

Reject == [k |-> "reject"]
Unspec == [k |-> "unspec"]
Str(s) == [k |-> "str", s |-> s]

RECURSIVE Flat(_)
Flat(ss) == IF ss = <<>> THEN <<>> ELSE Head(ss) \o Flat(Tail(ss))

HexVal(c) == IF c >= 48 /\ c <= 57 THEN c - 48 ELSE IF c >= 97 /\ c <= 102 THEN c - 87
             ELSE IF c >= 65 /\ c <= 70 THEN c - 55 ELSE 99
Hex4(s, i) == IF i + 3 > Len(s) THEN 0 - 1
              ELSE LET a == HexVal(s[i]) b == HexVal(s[i + 1]) c == HexVal(s[i + 2]) d == HexVal(s[i + 3]) IN
                   IF a > 15 \/ b > 15 \/ c > 15 \/ d > 15 THEN 0 - 1 ELSE a * 4096 + b * 256 + c * 16 + d

\* ------------------------------------------------------------------ quoted strings "..." and '...'
RECURSIVE Decode(_, _, _, _)
\* body of a quoted literal (between the quotes), q = the quote character
Decode(s, i, q, acc) ==
  IF i > Len(s) THEN Str(acc)
  ELSE LET c == s[i] IN
  IF c = q THEN Unspec                                  \* an unescaped quote ends the literal early (not a literal test)
  ELSE IF c # 92 THEN Decode(s, i + 1, q, Append(acc, c))       \* any other character stands for itself (also newline)
  ELSE IF i = Len(s) THEN Unspec                                \* dangling backslash: escapes the closing quote
  ELSE LET e == s[i + 1] IN
       CASE e = 34  -> Decode(s, i + 2, q, Append(acc, 34))
         [] e = 39  -> Decode(s, i + 2, q, Append(acc, 39))
         [] e = 92  -> Decode(s, i + 2, q, Append(acc, 92))
         [] e = 47  -> Decode(s, i + 2, q, Append(acc, 47))
         [] e = 98  -> Decode(s, i + 2, q, Append(acc, 8))
         [] e = 102 -> Decode(s, i + 2, q, Append(acc, 12))
         [] e = 110 -> Decode(s, i + 2, q, Append(acc, 10))
         [] e = 114 -> Decode(s, i + 2, q, Append(acc, 13))
         [] e = 116 -> Decode(s, i + 2, q, Append(acc, 9))
         [] e = 117 ->
              LET h == Hex4(s, i + 2) IN
              IF h < 0 THEN Reject
              ELSE IF h >= 55296 /\ h <= 56319
                   THEN \* high surrogate followed by an escaped low surrogate is one astral code point;
                        \* anything else involving surrogates is left open by the Jsonnet specification
                        IF i + 11 <= Len(s) /\ s[i + 6] = 92 /\ s[i + 7] = 117
                        THEN LET l == Hex4(s, i + 8) IN
                             IF l >= 56320 /\ l <= 57343
                             THEN Decode(s, i + 12, q, Append(acc, 65536 + (h - 55296) * 1024 + (l - 56320)))
                             ELSE Unspec
                        ELSE Unspec
              ELSE IF h >= 56320 /\ h <= 57343 THEN Unspec
              ELSE Decode(s, i + 6, q, Append(acc, h))
         [] e = 120 -> Unspec                              \* \xHH: jrsonnet extension, not Jsonnet
         [] OTHER -> Reject                                \* unknown escape

A == <<97>>
StringPieces ==
  { A, <<233>>, <<32>>, <<47>>, <<10>>, <<9>>, <<92, 110>>, <<92, 34>>, <<92, 39>>, <<92, 92>>, <<92, 47>>,
    <<92, 98>>, <<92, 102>>, <<92, 114>>, <<92, 116>>, <<92, 117, 48, 48, 52, 49>>, <<92, 117, 48, 48, 101, 57>>,
    <<92, 117, 48, 48, 69, 57>>, <<92, 117, 100, 56, 51, 100>>, <<92, 117, 100, 101, 48, 48>>, <<92, 117, 48, 48, 52>>,
    <<92, 117, 48, 48, 52, 103>>, <<92, 120, 52, 49>>, <<92, 113>>, <<92, 48>>, <<92>>, <<34>>, <<39>>, <<128512>> }

\* ------------------------------------------------------------------ verbatim strings @"..." @'...'
RECURSIVE DecodeVerbatim(_, _, _, _)
DecodeVerbatim(s, i, q, acc) ==
  IF i > Len(s) THEN Str(acc)
  ELSE IF s[i] = q
       THEN IF i + 1 <= Len(s) /\ s[i + 1] = q THEN DecodeVerbatim(s, i + 2, q, Append(acc, q))
            ELSE Unspec                                \* a single quote ends the literal early
       ELSE DecodeVerbatim(s, i + 1, q, Append(acc, s[i]))
VerbatimPieces == { A, <<92>>, <<92, 110>>, <<34>>, <<39>>, <<34, 34>>, <<39, 39>>, <<10>>, <<233>> }

\* ------------------------------------------------------------------ text blocks
\* ||| [-] NL  line*  ws ||| ; the whitespace prefix of the first line is removed from every line,
\* blank lines stay blank, the block ends at the first line that does not start with the prefix
IsWs(c) == c \in {32, 9}
RECURSIVE WsPrefix(_)
WsPrefix(l) == IF l # <<>> /\ IsWs(Head(l)) THEN <<Head(l)>> \o WsPrefix(Tail(l)) ELSE <<>>
StartsWith(l, p) == Len(l) >= Len(p) /\ SubSeq(l, 1, Len(p)) = p
RECURSIVE BlockBody(_, _, _)
BlockBody(lines, prefix, acc) ==
  IF lines = <<>> THEN Str(acc)
  ELSE LET l == Head(lines) IN
       IF l = <<>> THEN BlockBody(Tail(lines), prefix, acc \o <<10>>)
       ELSE IF StartsWith(l, prefix) THEN BlockBody(Tail(lines), prefix, acc \o SubSeq(l, Len(prefix) + 1, Len(l)) \o <<10>>)
       ELSE Reject                                     \* text that is neither in the block nor its terminator
\* lines: the lines between the opening ||| and the terminator line; endWs: whitespace before the closing |||.
\* Blank lines before the first text line are part of the string (one newline each); the indentation of the block
\* is that of the first line that is not blank (go-jsonnet / C++ lexers: "process leading blank lines before
\* calculating the indent"); a block of blank lines only has no indented first line and is an error.
RECURSIVE LeadingBlanks(_)
LeadingBlanks(lines) == IF lines # <<>> /\ Head(lines) = <<>> THEN 1 + LeadingBlanks(Tail(lines)) ELSE 0
TextBlock(lines, chomp, endWs) ==
  LET nb == LeadingBlanks(lines)
      rest == SubSeq(lines, nb + 1, Len(lines)) IN
  IF rest = <<>> THEN Reject
  ELSE LET first == rest[1] prefix == WsPrefix(first) IN
       IF prefix = <<>> THEN Reject                    \* first text line must be indented
       ELSE IF StartsWith(endWs, prefix) THEN Unspec   \* terminator indented like the text: not decided here
       ELSE LET b == BlockBody(rest, prefix, [i \in 1..nb |-> 10]) IN
            IF b.k # "str" THEN b
            ELSE IF chomp THEN Str(SubSeq(b.s, 1, Len(b.s) - 1)) ELSE b
BlockLines == { <<32, 32, 97>>, <<32, 32, 32, 98>>, <<32, 99>>, <<>>, <<9, 97>>, <<32, 32, 124, 124, 124>>, <<32, 32, 92, 110>>, <<100>> }

\* ------------------------------------------------------------------ numbers
\* number  = int frac? exp? ; int = "0" | [1-9] (_? digit)* ; frac = "." digit (_? digit)* ;
\* exp = [eE] [+-]? digit (_? digit)*        (digit separators as adopted by Jsonnet 0.21)
IsDigit(c) == c >= 48 /\ c <= 57
RECURSIVE DigitRun(_, _)
\* longest run digit (_? digit)* starting at i: index after it (i itself when there is no digit)
DigitRun(s, i) ==
  IF i <= Len(s) /\ IsDigit(s[i])
  THEN IF i + 1 <= Len(s) /\ IsDigit(s[i + 1]) THEN DigitRun(s, i + 1)
       ELSE IF i + 2 <= Len(s) /\ s[i + 1] = 95 /\ IsDigit(s[i + 2]) THEN DigitRun(s, i + 2)
       ELSE i + 1
  ELSE i
\* the number token starting at i (i is at a digit), as the Jsonnet lexer scans it: once the integer part is
\* read, a "." commits to a fraction and an "e"/"E" commits to an exponent - if no digit follows, the text
\* is a lexical error ("junk after decimal point / exponent"), it is NOT re-read as `1` `.` `e`.
\* Result: index after the token, 0 for a lexical error, or -1 (as 1000000) when the token is followed by
\* an underscore (separator forms not decided here).
LexErr == 0
LexOpen == 1000000
NumberEnd(s, i) ==
  LET afterInt == IF s[i] = 48 THEN i + 1 ELSE DigitRun(s, i)
      hasDot == afterInt <= Len(s) /\ s[afterInt] = 46
      fracOk == hasDot /\ afterInt + 1 <= Len(s) /\ IsDigit(s[afterInt + 1])
      afterFrac == IF fracOk THEN DigitRun(s, afterInt + 1) ELSE afterInt
      e == afterFrac
      hasE == e <= Len(s) /\ s[e] \in {101, 69}
      signed == hasE /\ e + 1 <= Len(s) /\ s[e + 1] \in {43, 45}
      expStart == IF signed THEN e + 2 ELSE e + 1
      expOk == hasE /\ expStart <= Len(s) /\ IsDigit(s[expStart])
      afterExp == IF expOk THEN DigitRun(s, expStart) ELSE afterFrac
  IN IF hasDot /\ ~fracOk THEN LexErr
     ELSE IF hasE /\ ~expOk THEN LexErr
     ELSE IF afterExp <= Len(s) /\ s[afterExp] = 95 THEN LexOpen
     ELSE afterExp
IsIdStart(c) == c = 95 \/ (c >= 97 /\ c <= 122) \/ (c >= 65 /\ c <= 90)
IsIdChar(c) == IsIdStart(c) \/ IsDigit(c)
RECURSIVE IdEnd(_, _)
IdEnd(s, i) == IF i <= Len(s) /\ IsIdChar(s[i]) THEN IdEnd(s, i + 1) ELSE i

RECURSIVE Tokens(_, _, _)
\* tokens of a text made of digits, letters, "_", ".", "+", "-": [k, a, b] (kind, first, last+1) or reject
Tokens(s, i, acc) ==
  IF i > Len(s) THEN [ok |-> TRUE, toks |-> acc]
  ELSE LET c == s[i] IN
       IF IsDigit(c) THEN LET j == NumberEnd(s, i) IN
                          IF j = LexErr THEN [ok |-> FALSE, open |-> FALSE]
                          ELSE IF j = LexOpen THEN [ok |-> FALSE, open |-> TRUE]
                          ELSE Tokens(s, j, Append(acc, [k |-> "num", a |-> i, b |-> j]))
       ELSE IF IsIdStart(c) THEN LET j == IdEnd(s, i) IN Tokens(s, j, Append(acc, [k |-> "id", a |-> i, b |-> j]))
       ELSE IF c = 46 THEN Tokens(s, i + 1, Append(acc, [k |-> "dot", a |-> i, b |-> i + 1]))
       ELSE IF c \in {43, 45} THEN Tokens(s, i + 1, Append(acc, [k |-> "op", a |-> i, b |-> i + 1]))
       ELSE [ok |-> FALSE, open |-> FALSE]

\* the mini grammar of such texts:  operand (op operand)* ; operand = (num | id) (. id)* ; leading unary ops
RECURSIVE Operand(_, _), Chain(_, _)
Chain(toks, i) ==   \* (. id)*  -> index after
  IF i + 1 <= Len(toks) /\ toks[i].k = "dot" /\ toks[i + 1].k = "id" THEN Chain(toks, i + 2) ELSE i
Operand(toks, i) == \* -> index after the operand or 0
  IF i > Len(toks) THEN 0
  ELSE IF toks[i].k = "op" THEN Operand(toks, i + 1)
  ELSE IF toks[i].k \in {"num", "id"} THEN Chain(toks, i + 1) ELSE 0
RECURSIVE ExprOk(_, _)
ExprOk(toks, i) ==
  LET j == Operand(toks, i) IN
  IF j = 0 THEN FALSE
  ELSE IF j > Len(toks) THEN TRUE
  ELSE IF toks[j].k = "op" THEN ExprOk(toks, j + 1) ELSE FALSE

Keywords == { <<101, 114, 114, 111, 114>> }   \* not reachable with this alphabet except by construction
NumberText(s) ==
  LET t == Tokens(s, 1, <<>>) IN
  IF ~t.ok THEN (IF t.open THEN Unspec ELSE Reject)
  ELSE IF t.toks = <<>> THEN Reject
  ELSE IF ExprOk(t.toks, 1) THEN [k |-> "tokens", toks |-> t.toks] ELSE Reject
NumberPieces == { <<48>>, <<49>>, <<53>>, <<95>>, <<46>>, <<101>>, <<69>>, <<101, 43>>, <<101, 45>> }

\* ------------------------------------------------------------------ comments and blanks
\* Between tokens the lexer skips blanks, `#...` and `//...` up to the end of the line, and `/* ... */` up to the
\* FIRST `*/` that starts at or after the character following the opening `/*` (so `/*/` is not closed, `/***/`,
\* `/* a **/` and `/*/ */` are); a block comment without such a `*/` is a lexical error. What is left must be an
\* expression: here operands `1`.. / identifiers joined by `*` and `/` (left associative).
RECURSIVE CloseAt(_, _)
CloseAt(s, j) == IF j + 1 > Len(s) THEN 0 ELSE IF s[j] = 42 /\ s[j + 1] = 47 THEN j ELSE CloseAt(s, j + 1)
RECURSIVE LineEnd(_, _)
LineEnd(s, j) == IF j > Len(s) THEN j ELSE IF s[j] = 10 THEN j + 1 ELSE LineEnd(s, j + 1)
RECURSIVE CTokens(_, _, _)
CTokens(s, i, acc) ==
  IF i > Len(s) THEN [ok |-> TRUE, toks |-> acc]
  ELSE LET c == s[i] IN
       IF c \in {32, 10} THEN CTokens(s, i + 1, acc)
       ELSE IF c = 35 THEN CTokens(s, LineEnd(s, i + 1), acc)
       ELSE IF c = 47 /\ i + 1 <= Len(s) /\ s[i + 1] = 47 THEN CTokens(s, LineEnd(s, i + 2), acc)
       ELSE IF c = 47 /\ i + 1 <= Len(s) /\ s[i + 1] = 42
            THEN LET k == CloseAt(s, i + 2) IN
                 IF k = 0 THEN [ok |-> FALSE, toks |-> <<>>] ELSE CTokens(s, k + 2, acc)
       ELSE IF IsDigit(c) THEN LET j == DigitRun(s, i) IN CTokens(s, j, Append(acc, [k |-> "num", a |-> i, b |-> j]))
       ELSE IF IsIdStart(c) THEN LET j == IdEnd(s, i) IN CTokens(s, j, Append(acc, [k |-> "id", a |-> i, b |-> j]))
       ELSE IF c \in {42, 47} THEN CTokens(s, i + 1, Append(acc, [k |-> "op", a |-> i, b |-> i + 1]))
       ELSE [ok |-> FALSE, toks |-> <<>>]
RECURSIVE MulChain(_, _)
MulChain(toks, i) ==
  IF i > Len(toks) \/ toks[i].k \notin {"num", "id"} THEN FALSE
  ELSE IF i = Len(toks) THEN TRUE
  ELSE IF toks[i + 1].k = "op" THEN MulChain(toks, i + 2) ELSE FALSE
CommentText(s) ==
  LET t == CTokens(s, 1, <<>>) IN
  IF ~t.ok \/ t.toks = <<>> THEN Reject
  ELSE IF MulChain(t.toks, 1) THEN [k |-> "tokens", toks |-> t.toks] ELSE Reject
CommentPieces == { <<47>>, <<42>>, <<49>>, <<97>>, <<32>>, <<10>>, <<35>> }

\* ------------------------------------------------------------------ enumeration
Pieces == CASE Family = "dq" -> StringPieces [] Family = "sq" -> StringPieces
            [] Family \in {"vdq", "vsq"} -> VerbatimPieces [] Family = "num" -> NumberPieces
            [] Family = "block" -> BlockLines [] Family = "comment" -> CommentPieces

VARIABLE st
Init == st \in {[ps |-> <<p>>] : p \in Pieces}
Next == /\ Len(st.ps) < MaxPieces
        /\ \E p \in Pieces : st' = [ps |-> Append(st.ps, p)]

Result ==
  LET body == Flat(st.ps) IN
  CASE Family = "dq" -> Decode(body, 1, 34, <<>>)
    [] Family = "sq" -> Decode(body, 1, 39, <<>>)
    [] Family = "vdq" -> DecodeVerbatim(body, 1, 34, <<>>)
    [] Family = "vsq" -> DecodeVerbatim(body, 1, 39, <<>>)
    [] Family = "num" -> NumberText(body)
    [] Family = "comment" -> CommentText(body)
    [] Family = "block" -> [k |-> "blocks",
                            plain |-> TextBlock(st.ps, FALSE, <<>>), chomp |-> TextBlock(st.ps, TRUE, <<>>),
                            indented_end |-> TextBlock(st.ps, FALSE, <<32>>)]

Emit == PrintT("REPLAY " \o ToJson([fam |-> "lexical." \o Family, ps |-> st.ps, res |-> Result]))
=============================================================================
