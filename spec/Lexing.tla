------------------------------- MODULE Lexing -------------------------------
(***************************************************************************)
(* C17 (a) - source text is never lost.  The lexer is a cursor machine     *)
(* over a text of `len` bytes: every token starts where the previous one   *)
(* ended, is not empty, and the last one ends at the end of the text; the  *)
(* syntax tree built from the tokens (trivia re-attached by the event      *)
(* sink) spells the same `len` bytes.                                      *)
(***************************************************************************)
EXTENDS Naturals, Sequences, TLC
CONSTANT MaxLen
VARIABLES len, cursor, toks, phase
vars == <<len, cursor, toks, phase>>
Init == len \in 0..MaxLen /\ cursor = 0 /\ toks = <<>> /\ phase = "lexing"
Token(e) == /\ phase = "lexing" /\ e > cursor /\ e <= len
            /\ toks' = Append(toks, <<cursor, e>>) /\ cursor' = e /\ UNCHANGED <<len, phase>>
Finish == phase = "lexing" /\ cursor = len /\ phase' = "done" /\ UNCHANGED <<len, cursor, toks>>
Next == (\E e \in 1..MaxLen : Token(e)) \/ Finish
Spec == Init /\ [][Next]_vars

\* what a recorded token list must look like to be a run of this machine ending in Finish
Tiles(ts, n) == IF ts = <<>> THEN n = 0
                ELSE /\ ts[1][1] = 0 /\ ts[Len(ts)][2] = n
                     /\ \A i \in 1..Len(ts) : ts[i][2] > ts[i][1]
                     /\ \A i \in 1..(Len(ts) - 1) : ts[i + 1][1] = ts[i][2]
TilingInv == (phase = "done") => Tiles(toks, len)
Monotone == cursor <= len
=============================================================================
