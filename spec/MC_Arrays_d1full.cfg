CONSTANTS MaxDepth = 1
          SliceSet = "full"
INIT Init
NEXT Next
INVARIANTS RefinesInv Emit
CHECK_DEADLOCK FALSE
