CONSTANTS MaxDepth = 2
          SliceSet = "reduced"
INIT Init
NEXT Next
INVARIANTS RefinesInv Emit
CHECK_DEADLOCK FALSE
