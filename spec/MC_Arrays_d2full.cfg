CONSTANTS MaxDepth = 2
          SliceSet = "full"
INIT Init
NEXT Next
INVARIANTS RefinesInv Emit
CHECK_DEADLOCK FALSE
