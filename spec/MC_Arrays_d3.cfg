CONSTANTS MaxDepth = 3
          SliceSet = "reduced"
INIT Init
NEXT Next
INVARIANTS RefinesInv Emit
CHECK_DEADLOCK FALSE
