CONSTANTS MaxDepth = 0
          SliceSet = "reduced"
INIT InitLong
NEXT Next
INVARIANTS RefinesLong EmitLong
CHECK_DEADLOCK FALSE
