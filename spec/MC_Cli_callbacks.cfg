CONSTANT Family = "callbacks"
INIT CInit
NEXT CNext
INVARIANT Emit
CHECK_DEADLOCK FALSE
