CONSTANT Family = "config"
INIT CInit
NEXT CNext
INVARIANT Emit
CHECK_DEADLOCK FALSE
