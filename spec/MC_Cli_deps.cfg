CONSTANT Family = "deps"
INIT CInit
NEXT CNext
INVARIANT Emit
CHECK_DEADLOCK FALSE
