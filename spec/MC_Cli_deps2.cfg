CONSTANT Family = "deps2"
INIT CInit
NEXT CNext
INVARIANT Emit
CHECK_DEADLOCK FALSE
