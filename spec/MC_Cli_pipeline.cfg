CONSTANT Family = "config"
INIT PInit2
NEXT PNext
INVARIANT EnteredWhileEvaluating
CHECK_DEADLOCK FALSE
