------------------------------- MODULE MC_Core -------------------------------
(***************************************************************************)
(* Bounded program families for Core.tla and REPLAY generation (C01).      *)
(***************************************************************************)
EXTENDS Core

CONSTANTS Family, Part, Parts      \* Part/Parts: residue-class split of large families over TLC processes

\* ------------------------------------------------------------------ AST constructors
Num(n) == [t |-> "num", n |-> n]
Str(s) == [t |-> "str", s |-> s]
Var(x) == [t |-> "var", x |-> x]
Null == [t |-> "null"]
True == [t |-> "true"]
False == [t |-> "false"]
Self == [t |-> "self"]
Dollar == [t |-> "dollar"]
Arr(es) == [t |-> "arr", es |-> es]
Un(op, e) == [t |-> "un", op |-> op, e |-> e]
Bin(op, l, r) == [t |-> "bin", op |-> op, l |-> l, r |-> r]
If(c, a, b) == [t |-> "if", c |-> c, a |-> a, b |-> b]
B(x, e) == [x |-> x, e |-> e]
Local(binds, e) == [t |-> "local", binds |-> binds, e |-> e]
Par(x, d) == [x |-> x, d |-> d]
Fn(ps, b) == [t |-> "fn", ps |-> ps, b |-> b]
Na(x, e) == [x |-> x, e |-> e]
App(f, pos, named) == [t |-> "app", f |-> f, pos |-> pos, named |-> named]
Idx(e, i) == [t |-> "idx", e |-> e, i |-> i]
Dot(e, name) == Idx(e, Str(name))
Sup(name) == [t |-> "sup", i |-> Str(name)]
InSup(name) == [t |-> "insup", e |-> Str(name)]
Slice(e, a, b, c) == [t |-> "slice", e |-> e, a |-> a, b |-> b, c |-> c]
ErrE(e) == [t |-> "err", e |-> e]
AssertE(c, m, e) == [t |-> "assert", c |-> c, m |-> m, e |-> e]
Std(f, args) == [t |-> "std", f |-> f, args |-> args]
Comp(e, x, over, cond) == [t |-> "comp", e |-> e, x |-> x, over |-> over, cond |-> cond]
F(name, vis, plus, e) == [name |-> Str(name), vis |-> vis, plus |-> plus, e |-> e]
FDyn(nameE, e) == [name |-> nameE, vis |-> ":", plus |-> FALSE, e |-> e]
Obj(locals, asserts, fields) == [t |-> "obj", locals |-> locals, asserts |-> asserts, fields |-> fields]
O(fields) == Obj(<<>>, <<>>, fields)

sa == <<97>>
sb == <<98>>
sc == <<99>>

\* ------------------------------------------------------------------ family "ops": every operator on a typed pool
Pool == { Null, True, False, Num(0), Num(1), Num(0 - 1), Num(2), Str(<<>>), Str(sa), Str(sb),
          Arr(<<>>), Arr(<<Num(1)>>), Arr(<<Num(1), Num(2)>>), O(<<>>), O(<<F(sa, ":", FALSE, Num(1))>>),
          Fn(<<Par("x", NoE)>>, Var("x")) }
BinOps == {"*", "/", "%", "+", "-", "<<", ">>", "<", ">", "<=", ">=", "==", "!=", "in", "&", "^", "|", "&&", "||"}
OpsPrograms(u) == {Bin(op, x, y) : op \in BinOps, x \in Pool, y \in Pool}
               \cup {Un(op, x) : op \in {"-", "+", "!", "~"}, x \in Pool}
               \* short-circuit with erroring / ill-typed right operands
               \cup {Bin(op, x, ErrE(Str(sa))) : op \in {"&&", "||"}, x \in {True, False, Num(1)}}

\* ------------------------------------------------------------------ family "calls": signatures x call shapes
Sigs == { <<Par("x", NoE)>>, <<Par("x", Num(10))>>, <<Par("x", NoE), Par("y", NoE)>>,
          <<Par("x", NoE), Par("y", Var("x"))>>, <<Par("x", Var("y")), Par("y", Num(20))>>,
          <<Par("x", NoE), Par("y", Num(1)), Par("z", Bin("+", Var("x"), Var("y")))>>,
          <<Par("x", Num(1)), Par("y", Num(2)), Par("z", Num(3))>>,
          <<Par("x", Var("x"))>>, <<>> }
BodyOf(ps) == Arr([i \in 1..Len(ps) |-> Var(ps[i].x)])
PosArgs == {<<>>, <<Num(101)>>, <<Num(101), Num(102)>>, <<Num(101), Num(102), Num(103)>>,
            <<Num(101), Num(102), Num(103), Num(104)>>}
NamedArgs == { <<>>, <<Na("x", Num(201))>>, <<Na("y", Num(202))>>, <<Na("z", Num(203))>>, <<Na("w", Num(204))>>,
               <<Na("x", Num(201)), Na("y", Num(202))>>, <<Na("y", Num(202)), Na("x", Num(201))>>,
               <<Na("y", Num(202)), Na("z", Num(203))>>, <<Na("x", Num(201)), Na("z", Num(203))>>,
               <<Na("x", Num(201)), Na("y", Num(202)), Na("z", Num(203))>>, <<Na("x", Num(201)), Na("x", Num(205))>> }
CallPrograms(u) == {Local(<<B("f", Fn(ps, BodyOf(ps)))>>, App(Var("f"), pos, named)) :
                   ps \in Sigs, pos \in PosArgs, named \in NamedArgs}
\* the all-named twin of a call (model-level invariant: same outcome)
NamedTwin(p) ==
  LET ps == p.binds[1].e.ps call == p.e IN
  IF Len(call.pos) > Len(ps) THEN p
  ELSE Local(p.binds, App(call.f, <<>>, [i \in 1..Len(call.pos) |-> Na(ps[i].x, call.pos[i])] \o call.named))

\* ------------------------------------------------------------------ family "grammar": small typed-at-random expressions
Atoms == {Num(1), Num(2), Var("x"), Var("y"), True, Str(sa), Null}
Build(A, Bs) ==
  UNION { {Bin("+", p, q), Bin("<", p, q), Bin("==", p, q), Bin("&&", p, q), If(p, q, Num(7)), If(True, p, q),
           Local(<<B("x", p)>>, q), Local(<<B("y", Var("x")), B("x", p)>>, q),
           App(Fn(<<Par("x", NoE)>>, p), <<q>>, <<>>), App(Fn(<<Par("y", p)>>, q), <<>>, <<>>),
           Arr(<<p, q>>), Idx(Arr(<<p, Num(9)>>), q), Idx(p, q), ErrE(p), AssertE(p, NoE, q),
           Dot(O(<<F(sa, ":", FALSE, p), F(sb, "::", FALSE, q)>>), sa),
           O(<<F(sa, ":", FALSE, p), F(sb, ":", FALSE, Dot(Self, sa))>>),
           Comp(p, "x", Arr(<<q, Num(3)>>), NoE), Comp(Var("x"), "x", Arr(<<p, q>>), Bin("==", Var("x"), p)),
           Std("length", <<p>>), Std("type", <<p>>), Bin("+", Str(sb), p), Un("-", p), Un("!", p)}
          : p \in A, q \in Bs }
E1(u) == Atoms \cup Build(Atoms, Atoms)
PartAtom == CHOOSE s \in [1..7 -> Atoms] : \A i, j \in 1..7 : i # j => s[i] # s[j]
E2(u) == Build(E1(u), {PartAtom[Part]}) \cup Build({PartAtom[Part]}, E1(u))
Close(e) == Local(<<B("x", Num(10)), B("y", Num(20))>>, e)
GrammarPrograms(u) == {Close(e) : e \in E1(u)}
Grammar2Programs(u) == {Close(e) : e \in E2(u)}

\* ------------------------------------------------------------------ family "objects": objects inside the language
Bodies == { Num(1), Dot(Self, sa), Dot(Self, sb), Dot(Dollar, sa), Var("l"), Bin("+", Dot(Self, sb), Num(1)),
            O(<<F(sc, ":", FALSE, Dot(Dollar, sa))>>), O(<<F(sc, ":", FALSE, Dot(Self, sa))>>),
            O(<<F(sa, ":", FALSE, Num(5)), F(sc, ":", FALSE, Dot(Self, sa))>>), ErrE(Str(sb)) }
BaseObjs(u) == { Obj(<<B("l", Dot(Self, sb))>>, <<>>, <<F(sa, va, FALSE, x), F(sb, ":", FALSE, y)>>)
               : x \in Bodies, y \in {Num(2), Dot(Self, sa), Var("l")}, va \in {":", "::"} }
Exts == { O(<<>>), O(<<F(sa, ":", TRUE, Num(10))>>), O(<<F(sa, ":::", FALSE, Sup(sa))>>), O(<<F(sb, ":", FALSE, Num(20))>>),
          O(<<F(sc, ":", FALSE, Sup(sb)), F(sb, "::", TRUE, Num(1))>>), O(<<F(sc, ":", FALSE, InSup(sc))>>),
          Obj(<<>>, <<[c |-> Bin("==", Dot(Self, sb), Num(2)), m |-> NoE]>>, <<>>),
          O(<<FDyn(If(True, Str(sc), Null), Num(3)), FDyn(Null, ErrE(Str(sa)))>>),
          O(<<FDyn(Bin("+", Str(sa), Str(<<>>)), Num(4))>>), O(<<F(sa, ":", FALSE, Num(1)), F(sa, ":", FALSE, Num(2))>>) }
ObjectPrograms(u) == {Bin("+", o, x) : o \in BaseObjs(u), x \in Exts}
                  \cup {Dot(Bin("+", o, x), f) : o \in BaseObjs(u), x \in Exts, f \in {sa, sb, sc}}
                  \cup {Std("objectFields", <<Bin("+", o, x)>>) : o \in BaseObjs(u), x \in Exts}

\* ------------------------------------------------------------------ family "index": indexing and slicing
Seqs == {Arr(<<>>), Arr(<<Num(1), Num(2), Num(3)>>), Str(<<>>), Str(<<97, 233, 128512>>)}
IdxVals == {Num(i) : i \in (0 - 1)..4} \cup {Str(sa), Null, True}
SliceVals == {NoE, Null} \cup {Num(i) : i \in (0 - 2)..4}
IndexPrograms(u) == {Idx(s, i) : s \in Seqs, i \in IdxVals}
                 \cup {Slice(s, x, y, z) : s \in Seqs, x \in SliceVals, y \in SliceVals, z \in {NoE, Null, Num(0), Num(1), Num(2), Num(0 - 1)}}
                 \cup {Slice(s, Str(sa), NoE, NoE) : s \in Seqs}
                 \cup {Idx(O(<<F(sa, ":", FALSE, Num(1)), F(sb, "::", FALSE, Num(2))>>), i) : i \in {Str(sa), Str(sb), Str(sc), Num(0), Null}}

\* ------------------------------------------------------------------ family "scope": hand-written scope / recursion / laziness programs
Fib == Fn(<<Par("n", NoE)>>, If(Bin("<", Var("n"), Num(2)), Var("n"),
            Bin("+", App(Var("fib"), <<Bin("-", Var("n"), Num(1))>>, <<>>), App(Var("fib"), <<Bin("-", Var("n"), Num(2))>>, <<>>))))
ScopePrograms(u) == {
  Local(<<B("x", Num(1))>>, Local(<<B("x", Num(2))>>, Var("x"))),
  Local(<<B("x", Num(1))>>, Local(<<B("f", Fn(<<>>, Var("x")))>>, Local(<<B("x", Num(2))>>, App(Var("f"), <<>>, <<>>)))),
  Local(<<B("a", Bin("+", Var("b"), Num(1))), B("b", Num(1))>>, Var("a")),
  Local(<<B("fib", Fib)>>, App(Var("fib"), <<Num(6)>>, <<>>)),
  Local(<<B("x", Var("x"))>>, Num(1)),
  Local(<<B("x", ErrE(Str(sa)))>>, Num(1)),
  Local(<<B("even", Fn(<<Par("n", NoE)>>, If(Bin("==", Var("n"), Num(0)), True, App(Var("odd"), <<Bin("-", Var("n"), Num(1))>>, <<>>)))),
          B("odd", Fn(<<Par("n", NoE)>>, If(Bin("==", Var("n"), Num(0)), False, App(Var("even"), <<Bin("-", Var("n"), Num(1))>>, <<>>))))>>,
        Arr(<<App(Var("even"), <<Num(4)>>, <<>>), App(Var("odd"), <<Num(4)>>, <<>>)>>)),
  Comp(App(Var("f"), <<Num(0)>>, <<>>), "f", Comp(Fn(<<Par("y", NoE)>>, Bin("+", Var("x"), Var("y"))), "x", Arr(<<Num(1), Num(2)>>), NoE), NoE),
  Local(<<B("f", Fn(<<Par("x", NoE)>>, Fn(<<Par("y", NoE)>>, Bin("-", Var("x"), Var("y")))))>>, App(App(Var("f"), <<Num(5)>>, <<>>), <<Num(3)>>, <<>>)),
  Local(<<B("f", Fn(<<Par("x", NoE), Par("y", Var("x"))>>, Arr(<<Var("x"), Var("y")>>)))>>, Local(<<B("x", Num(50))>>, App(Var("f"), <<Num(1)>>, <<>>))),
  Local(<<B("y", Num(5))>>, Local(<<B("f", Fn(<<Par("x", Var("y"))>>, Var("x")))>>, Local(<<B("y", Num(6))>>, App(Var("f"), <<>>, <<>>)))),
  Std("length", <<Arr(<<ErrE(Str(sa)), ErrE(Str(sb))>>)>>),
  Idx(Arr(<<ErrE(Str(sa)), Num(2)>>), Num(1)),
  Std("foldl", <<Fn(<<Par("p", NoE), Par("q", NoE)>>, Bin("+", Var("p"), Var("q"))), Arr(<<Num(1), Num(2), Num(3)>>), Num(0)>>),
  Std("map", <<Fn(<<Par("p", NoE)>>, Bin("*", Var("p"), Num(2))), Std("range", <<Num(1), Num(3)>>)>>),
  Std("makeArray", <<Num(3), Fn(<<Par("i", NoE)>>, Bin("*", Var("i"), Var("i")))>>),
  Std("toString", <<Arr(<<Num(1), Str(sa), O(<<F(sa, ":", FALSE, Null)>>), Arr(<<>>)>>)>>),
  Bin("+", Str(sa), O(<<F(sa, ":", FALSE, Arr(<<True>>))>>)),
  If(Num(1), Num(2), Num(3)),
  If(False, Num(2), NoE),
  AssertE(False, Str(sa), Num(1)),
  AssertE(True, ErrE(Str(sa)), Num(1)),
  ErrE(O(<<F(sa, ":", FALSE, Num(1))>>)),
  App(Num(1), <<>>, <<>>),
  Local(<<B("o", O(<<F(sa, ":", FALSE, Num(1)), F(sb, ":", FALSE, O(<<F(sc, ":", FALSE, Dot(Dollar, sa)), F(sa, ":", FALSE, Num(2)), F(sb, ":", FALSE, Dot(Self, sa))>>))>>))>>, Var("o")),
  Local(<<B("o", O(<<F(sa, ":", FALSE, Num(1))>>))>>, Bin("==", Bin("+", Var("o"), O(<<F(sb, "::", FALSE, Num(2))>>)), Var("o"))),
  Bin("<", Arr(<<Num(1), Str(sa)>>), Arr(<<Num(1), Str(sb)>>)),
  Bin("<", Arr(<<Num(1), Str(sa)>>), Arr(<<Num(1), Num(2)>>)),
  Bin("==", Arr(<<Num(1), ErrE(Str(sa))>>), Arr(<<Num(2), Num(2)>>)),
  Bin("==", Arr(<<Num(1), ErrE(Str(sa))>>), Arr(<<Num(1), Num(2)>>)),
  Bin("==", O(<<F(sa, ":", FALSE, Num(1)), F(sb, "::", FALSE, ErrE(Str(sa)))>>), O(<<F(sa, ":", FALSE, Num(1))>>)) }

\* ------------------------------------------------------------------ family "prec": operator nesting, printed with minimal parentheses
UnOps == {"-", "+", "!", "~"}
PrecOperands == <<Num(5), Num(3), Num(2)>>
PrecPrograms(u) ==
  {Bin(o, Un(w, Num(5)), Num(3)) : o \in BinOps \ {"in"}, w \in {"-", "+", "~"}}
  \cup {Bin(o, Num(5), Un(w, Num(3))) : o \in BinOps \ {"in"}, w \in {"-", "+", "~"}}
  \cup {Bin(o, Un("!", True), False) : o \in {"&&", "||", "==", "!="}}
  \cup {Un(w, Bin(o, Num(5), Num(3))) : o \in BinOps \ {"in"}, w \in UnOps}
  \cup {Bin(o2, Bin(o1, Num(5), Num(3)), Num(2)) : o1 \in BinOps \ {"in"}, o2 \in BinOps \ {"in"}}
  \cup {Bin(o1, Num(5), Bin(o2, Num(3), Num(2))) : o1 \in BinOps \ {"in"}, o2 \in BinOps \ {"in"}}
  \cup {Bin("in", Bin("+", Str(sa), Str(<<>>)), O(<<F(sa, ":", FALSE, Num(1))>>)),
        Bin("==", Bin("in", Str(sa), O(<<>>)), False),
        Un("!", Bin("in", Str(sa), O(<<>>))),
        Bin("+", Un("-", Idx(Arr(<<Num(1), Num(2)>>), Num(1))), Num(1)),
        Un("-", App(Fn(<<Par("x", NoE)>>, Var("x")), <<Num(4)>>, <<>>)),
        If(True, Num(1), Bin("+", Num(2), Num(3))),
        Bin("+", Num(1), If(True, Num(2), Num(3))),
        Bin("*", Local(<<B("x", Num(2))>>, Var("x")), Num(3)),
        Bin("+", Num(1), Local(<<B("x", Num(2))>>, Bin("*", Var("x"), Num(3)))),
        Bin("+", Num(1), ErrE(Bin("+", Str(sa), Str(sb)))),
        Local(<<B("q", Arr(<<ErrE(Str(sa))>>))>>, Bin("==", Var("q"), Var("q"))),
        Local(<<B("q", O(<<F(sa, ":", FALSE, ErrE(Str(sa)))>>))>>, Bin("==", Var("q"), Var("q"))),
        Local(<<B("q", Arr(<<ErrE(Str(sa))>>))>>, Bin("!=", Var("q"), Var("q"))),
        Local(<<B("q", Arr(<<Num(1)>>))>>, Bin("==", Var("q"), Var("q"))),
        Dot(O(<<F(sa, ":", FALSE, [t |-> "insup", e |-> ErrE(Str(sb))])>>), sa),
        Dot(O(<<F(sa, ":", FALSE, InSup(sa))>>), sa),
        Dot(O(<<F(sa, ":", FALSE, Sup(sa))>>), sa) }

Programs(u) == CASE Family = "ops" -> OpsPrograms(u)
              [] Family = "prec" -> PrecPrograms(u)
              [] Family = "calls" -> CallPrograms(u)
              [] Family = "grammar" -> GrammarPrograms(u)
              [] Family = "grammar2" -> Grammar2Programs(u)
              [] Family = "objects" -> ObjectPrograms(u)
              [] Family = "index" -> IndexPrograms(u)
              [] Family = "scope" -> ScopePrograms(u)

FuelOf == IF Family \in {"scope"} THEN 60 ELSE IF Family = "objects" THEN 30 ELSE 18
Run(e) == RunF(e, FuelOf)

VARIABLE st
Init == st = [ph |-> "seed"]
Next == /\ st.ph = "seed"
        /\ \E p \in Programs(0) : st' = [ph |-> "case", p |-> p]

\* model-level invariant of the "calls" family: positional and named binding agree
TwinAgree == (st.ph = "case" /\ Family = "calls") => Run(st.p) = Run(NamedTwin(st.p))

Emit == st.ph = "case" => PrintT("REPLAY " \o ToJson([fam |-> "core." \o Family, p |-> st.p, out |-> Run(st.p)]))
=============================================================================
