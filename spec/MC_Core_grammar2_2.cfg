CONSTANTS Family = "grammar2"
          Part = 2
          Parts = 7
INIT Init
NEXT Next
INVARIANTS TwinAgree Emit
CHECK_DEADLOCK FALSE
