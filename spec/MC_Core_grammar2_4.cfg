CONSTANTS Family = "grammar2"
          Part = 4
          Parts = 7
INIT Init
NEXT Next
INVARIANTS TwinAgree Emit
CHECK_DEADLOCK FALSE
