CONSTANTS Family = "ops"
          Part = 1
          Parts = 1
INIT Init
NEXT Next
INVARIANTS TwinAgree Emit
CHECK_DEADLOCK FALSE
