CONSTANT Family = "array"
INIT Init
NEXT Next
INVARIANTS Laws Emit
CHECK_DEADLOCK FALSE
