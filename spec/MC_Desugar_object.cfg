CONSTANT Family = "object"
INIT Init
NEXT Next
INVARIANTS Laws Emit
CHECK_DEADLOCK FALSE
