CONSTANTS Programs = {"p1", "p2"}
          Configs = {"c1", "c2"}
          Outputs = {"o1", "o2"}
          MaxObs = 5
SPECIFICATION Spec
INVARIANT TypeOK
PROPERTY Functional
CHECK_DEADLOCK FALSE
