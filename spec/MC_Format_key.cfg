CONSTANT Family = "key"
INIT Init
NEXT Next
INVARIANTS WidthHonoured Emit
CHECK_DEADLOCK FALSE
