CONSTANT Family = "star"
INIT Init
NEXT Next
INVARIANTS WidthHonoured Emit
CHECK_DEADLOCK FALSE
