CONSTANT Family = "full"
INIT Init
NEXT Next
INVARIANTS Emit Laws
CHECK_DEADLOCK FALSE
