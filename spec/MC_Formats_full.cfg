CONSTANT Family = "full"
CONSTANT MaxLook = 0
INIT Init
NEXT Next
INVARIANTS Emit Laws
CHECK_DEADLOCK FALSE
