CONSTANT Family = "lookalike"
CONSTANT MaxLook = 3
INIT Init
NEXT Next
INVARIANTS Emit Laws
CHECK_DEADLOCK FALSE
