CONSTANT Family = "lookalike"
CONSTANT MaxLook = 4
INIT Init
NEXT Next
INVARIANTS Emit Laws
CHECK_DEADLOCK FALSE
