CONSTANTS Texts = {"t1", "t2", "t3"}
 Meanings = {"m1", "m2"}
 Indents = {"tabs", "two"}
SPECIFICATION Spec
INVARIANTS MeaningKept TestAccepts NeverFormatsInvalid
CHECK_DEADLOCK FALSE
