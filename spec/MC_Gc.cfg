CONSTANT MaxAlloc = 3
SPECIFICATION Spec
INVARIANTS Reclaimed NothingHeldAfterDrop
CHECK_DEADLOCK FALSE
