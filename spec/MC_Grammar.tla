----------------------------- MODULE MC_Grammar -----------------------------
(* All token sequences up to MaxLen over a family alphabet, each parsed by Grammar.Parse.  *)
EXTENDS Grammar, Json

CONSTANTS Family, MaxLen

Alphabet ==
  CASE Family = "expr"    -> {"1", "x", "+", "*", "-", "!", "(", ")", "<", "==", "&&", "in"}
    [] Family = "postfix" -> {"x", "1", ".", "[", "]", "(", ")", ":", "::", ",", "=", "'a'", "{", "}", "tailstrict"}
    [] Family = "keyword" -> {"if", "then", "else", "local", "x", "=", ";", "1", "function", "(", ")", "error", "assert", ":", "+", ","}
    [] Family = "object"  -> {"{", "}", "x", ":", "::", ":::", "+", ",", "1", "local", "=", "assert", "(", ")", "[", "]", "for", "in", "'a'", "if"}
    [] Family = "array"   -> {"[", "]", "x", ",", "1", "for", "in", "if", "y", "(", ")"}
    [] Family = "misc"    -> {"super", ".", "[", "]", "x", "in", "self", "$", "import", "'a'", "1", "~", "||", "{", "}", ":"}

\* operator pairs in both nestings (no parentheses): precedence and associativity of every pair
OpTriples == {<<"1", o1, "2", o2, "3">> : o1 \in BinOps, o2 \in BinOps}
             \cup {<<u, "1", o, "2">> : u \in UnOps, o \in BinOps}
             \cup {<<"1", o, u, "2">> : u \in UnOps, o \in BinOps}
             \cup {<<u, v, "1">> : u \in UnOps, v \in UnOps}
             \cup {<<u, "x", p>> : u \in UnOps, p \in {".", "("}} \cup {<<u, "x", ".", "y">> : u \in UnOps}
             \cup {<<u, "x", "(", ")">> : u \in UnOps} \cup {<<u, "x", "[", "1", "]">> : u \in UnOps}
             \cup {<<"1", o, k, "x", "then", "2", "else", "3", o2, "1">> : o \in {"+", "*", "=="}, k \in {"if"}, o2 \in {"+", "*", "&&"}}
             \cup {<<"1", o, "local", "x", "=", "2", ";", "x", o2, "3">> : o \in {"+", "*", "=="}, o2 \in {"+", "*", "&&"}}
             \cup {<<"1", o, "function", "(", "x", ")", "x", o2, "3">> : o \in {"+", "*"}, o2 \in {"+", "*"}}
             \cup {<<"1", o, "error", "'a'", o2, "3">> : o \in {"+", "*"}, o2 \in {"+", "*"}}
             \cup {<<u, "if", "x", "then", "1", "else", "2", "+", "3">> : u \in UnOps}

\* chains of up to three suffixes after a base (longer than the exhaustive token-sequence bound reaches): index / field / call /
\* every slice form / object extension in every order
Suffixes == {<<".", "y">>, <<"[", "1", "]">>, <<"[", ":", "1", "]">>, <<"[", "1", ":", "]">>, <<"[", "::", "1", "]">>, <<"[", ":", "]">>,
             <<"[", "1", ":", "2", ":", "1", "]">>, <<"(", ")">>, <<"(", "1", ")">>, <<"(", "1", ")", "tailstrict">>, <<"{", "}">>}
Bases == {<<"x">>, <<"'a'">>, <<"(", "x", ")">>, <<"-", "x">>, <<"super", ".", "y">>}
Chains == {b \o s1 : b \in Bases, s1 \in Suffixes} \cup {b \o s1 \o s2 : b \in Bases, s1 \in Suffixes, s2 \in Suffixes}
          \cup {<<"x">> \o s1 \o s2 \o s3 : s1 \in Suffixes, s2 \in Suffixes, s3 \in Suffixes}

VARIABLE st
Init == IF Family = "chains" THEN st \in {[ts |-> t] : t \in Chains}
        ELSE IF Family = "ops" THEN st \in {[ts |-> t] : t \in OpTriples}
        ELSE st \in {[ts |-> <<t>>] : t \in Alphabet}
Next == /\ Family \notin {"ops", "chains"} /\ Len(st.ts) < MaxLen
        /\ \E t \in Alphabet : st' = [ts |-> Append(st.ts, t)]

Emit == PrintT("REPLAY " \o ToJson([fam |-> "grammar." \o Family, ts |-> st.ts, res |-> Parse(st.ts)]))
=============================================================================
