CONSTANTS Family = "chains"
          MaxLen = 4
INIT Init
NEXT Next
INVARIANT Emit
CHECK_DEADLOCK FALSE
