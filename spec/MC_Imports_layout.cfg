CONSTANTS Family = "layout"
          MaxRuns = 2
SPECIFICATION Spec
INVARIANTS LoadOnce EvalOnce NoStaleFlag EvaluatingIsStack CacheSound RetrySame Emit
CHECK_DEADLOCK FALSE
