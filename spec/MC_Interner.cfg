CONSTANTS MaxOps = 5
          MaxHandles = 3
SPECIFICATION Spec
VIEW view
CONSTRAINT Bounded
INVARIANTS PoolExact RefCounts NoOrphans Canonical Utf8Flag
PROPERTY ContentsStable
CHECK_DEADLOCK FALSE
