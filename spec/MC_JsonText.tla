----------------------------- MODULE MC_JsonText -----------------------------
(***************************************************************************)
(* Bounded enumeration for JsonText: value families, the model-level       *)
(* round-trip theorem, and REPLAY generation for the conformance harness.  *)
(***************************************************************************)
EXTENDS JsonText

CONSTANTS Family        \* which value family this run enumerates (string)

\* ------------------------------------------------------------------ value families
\* code points chosen for their role in JSON text: NUL, BS, TAB, LF, FF, CR, US, space, quote,
\* slash, backslash, DEL, C1 control, e-acute, LINE SEPARATOR, U+FFFF, first astral, emoji, 'a'
AlphaFull == {0, 8, 9, 10, 12, 13, 31, 32, 34, 47, 92, 127, 128, 233, 8232, 65535, 65536, 128512, 97}
AlphaSmall == {10, 34, 92, 97, 233, 128512}
Ints == {0, 1, 0 - 1, 42, 999999999, 0 - 999999999}     \* the Reader decides integer texts of up to 9 digits

Scalars == {VNull, VBool(TRUE), VBool(FALSE)} \cup {VNum(n) : n \in Ints}
           \cup {VStr(s) : s \in SeqsUpTo({34, 97}, 1)}
SmallScalars == {VNull, VBool(TRUE), VNum(0 - 1), VStr(<<>>), VStr(<<34, 97>>)}

KeyOrder == << <<>>, <<34>>, <<97>>, <<97, 98>>, <<233>> >>     \* ascending by code point
\* all objects over a sub-sequence of KeyOrder[1..nk] with values from Vs and hidden flags from Hs
ObjsOver(nk, Vs, Hs) ==
  LET Sel == SUBSET (1..nk) IN
  UNION { LET idx == CHOOSE q \in [1..Cardinality(S) -> S] :
                        \A a, b \in 1..Cardinality(S) : a < b => q[a] < q[b]
          IN { VObj([i \in 1..Cardinality(S) |-> Fld(KeyOrder[idx[i]], hv[i][1], hv[i][2])])
               : hv \in [1..Cardinality(S) -> Hs \X Vs] }
        : S \in Sel }

Depth1(Vs) == {VArr(xs) : xs \in SeqsUpTo(Vs, 2)} \cup ObjsOver(2, Vs, {FALSE})

FamilyValues ==
  CASE Family = "strings" -> {VStr(s) : s \in SeqsUpTo(AlphaFull, 2)}
    [] Family = "strings3" -> {VStr(s) : s \in SeqsUpTo(AlphaSmall, 3)}
    [] Family = "scalars" -> Scalars
    [] Family = "flat"    -> Depth1(Scalars)
    [] Family = "hidden"  -> ObjsOver(3, SmallScalars, {FALSE, TRUE})
    [] Family = "nested"  -> {VArr(xs) : xs \in SeqsUpTo(Depth1(SmallScalars) \cup {VNull}, 2)}
                             \cup ObjsOver(2, {VArr(<<>>), VObj(<<>>), VNum(1),
                                   VArr(<<VObj(<<Fld(<<97>>, FALSE, VArr(<<>>))>>)>>),
                                   VObj(<<Fld(<<233>>, TRUE, VNum(1)), Fld(<<97, 98>>, FALSE, VObj(<<>>))>>)},
                                  {FALSE, TRUE})
    [] Family = "func"    -> {VFunc(0), VArr(<<VNum(1), VFunc(1)>>),
                              VObj(<<Fld(<<97>>, FALSE, VFunc(0))>>),
                              VObj(<<Fld(<<97>>, TRUE, VFunc(0))>>),
                              VObj(<<Fld(<<97>>, FALSE, VArr(<<VFunc(2)>>))>>)}

Formats == {FmtMin, FmtAlt, FmtToString, FmtCli(3), FmtCli(1), FmtStd(<<32, 32, 32, 32>>), FmtStd(<<>>),
            FmtStd(<<9>>), FmtStdEx(<<32>>, <<13, 10>>, <<58>>), FmtStdEx(<<32, 32>>, <<32>>, <<32, 58, 9>>)}

\* ------------------------------------------------------------------ the enumeration as a state machine
\* Init has one seed state; Next fans out to one state per value, so that the (expensive)
\* evaluation of the invariants happens in TLC's parallel workers.
VARIABLE st
Init == st = [ph |-> "seed"]
Next == /\ st.ph = "seed"
        /\ \E v \in FamilyValues : st' = [ph |-> "case", v |-> v]

\* model-level refinement: for every format, what Writer writes Reader reads back as Visible(v);
\* values containing a visible function are refused
RoundTrip ==
  st.ph = "case" =>
    \A f \in Formats :
      LET w == Writer(st.v, f) IN
      IF HasFunc(st.v) THEN ~w.ok
      ELSE w.ok /\ Accepts(st.v, w.text)

\* Reader is not trivially permissive: a few damaged texts are rejected
Damage(text) == { SubSeq(text, 1, Len(text) - 1),              \* truncated
                  text \o <<44>>,                                \* trailing comma
                  <<91>> \o text }                               \* unbalanced
ReaderStrict ==
  st.ph = "case" /\ ~HasFunc(st.v) =>
    LET w == Writer(st.v, FmtMin) IN
    \A d \in Damage(w.text) : ~Accepts(st.v, d) \/ st.v.t = "num"   \* "12" truncated is still a number

Emit ==
  st.ph = "case" =>
    PrintT("REPLAY " \o ToJson([fam |-> Family, v |-> st.v, func |-> HasFunc(st.v),
            vis |-> IF HasFunc(st.v) THEN VNull ELSE Visible(st.v),
            exp |-> [min |-> Writer(st.v, FmtMin).text,
                     tostring |-> Writer(st.v, FmtToString).text,
                     cli3 |-> Writer(st.v, FmtCli(3)).text,
                     std4 |-> Writer(st.v, FmtStd(<<32, 32, 32, 32>>)).text,
                     alt |-> Writer(st.v, FmtAlt).text]]))
=============================================================================
