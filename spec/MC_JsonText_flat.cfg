CONSTANT Family = "flat"
INIT Init
NEXT Next
INVARIANT RoundTrip
INVARIANT ReaderStrict
CHECK_DEADLOCK FALSE
