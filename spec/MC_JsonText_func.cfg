CONSTANT Family = "func"
INIT Init
NEXT Next
INVARIANT RoundTrip
INVARIANT ReaderStrict
CHECK_DEADLOCK FALSE
