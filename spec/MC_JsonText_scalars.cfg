CONSTANT Family = "scalars"
INIT Init
NEXT Next
INVARIANT RoundTrip
INVARIANT ReaderStrict
CHECK_DEADLOCK FALSE
