CONSTANT Family = "strings3"
INIT Init
NEXT Next
INVARIANT RoundTrip
INVARIANT ReaderStrict
CHECK_DEADLOCK FALSE
