CONSTANTS N = 2
          MaxDeps = 2
          MaxDemands = 3
SPECIFICATION Spec
INVARIANTS AtMostOnce PendingIffRunning QuiescentClean StoredOutcome OnlyNeeded Emit
PROPERTY Stable
CHECK_DEADLOCK FALSE
