CONSTANTS N = 3
          MaxDeps = 1
          MaxDemands = 3
SPECIFICATION Spec
INVARIANTS AtMostOnce PendingIffRunning QuiescentClean StoredOutcome OnlyNeeded Emit
PROPERTY Stable
CHECK_DEADLOCK FALSE
