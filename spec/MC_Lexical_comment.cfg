CONSTANTS Family = "comment"
          MaxPieces = 6
INIT Init
NEXT Next
INVARIANT Emit
CHECK_DEADLOCK FALSE
