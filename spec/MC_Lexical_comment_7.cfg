CONSTANTS Family = "comment"
          MaxPieces = 7
INIT Init
NEXT Next
INVARIANT Emit
CHECK_DEADLOCK FALSE
