CONSTANTS Family = "num"
          MaxPieces = 5
INIT Init
NEXT Next
INVARIANT Emit
CHECK_DEADLOCK FALSE
