CONSTANTS Family = "vdq"
          MaxPieces = 4
INIT Init
NEXT Next
INVARIANT Emit
CHECK_DEADLOCK FALSE
