CONSTANT MaxLen = 6
SPECIFICATION Spec
INVARIANTS TilingInv Monotone
CHECK_DEADLOCK FALSE
