CONSTANTS Family = "triples"
          NRanks = 27
INIT Init
NEXT Next
INVARIANTS Laws BitLaws Emit
CHECK_DEADLOCK FALSE
