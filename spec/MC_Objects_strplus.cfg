CONSTANT Family = "strplus"
INIT Init
NEXT Next
INVARIANTS RefinesInv ConsistentInv Emit
CHECK_DEADLOCK FALSE
