CONSTANTS Family = "locate"
 MaxLen = 5
INIT Init
NEXT Next
INVARIANTS Laws Emit
CHECK_DEADLOCK FALSE
