CONSTANTS Family = "locate"
 MaxLen = 6
INIT Init
NEXT Next
INVARIANTS Laws Emit
CHECK_DEADLOCK FALSE
