CONSTANTS Family = "planted"
 MaxLen = 0
INIT Init
NEXT Next
INVARIANTS Laws Emit
CHECK_DEADLOCK FALSE
