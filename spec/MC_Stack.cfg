CONSTANT MaxLimit = 4
SPECIFICATION Spec
INVARIANT Bounded
PROPERTY Balanced
CHECK_DEADLOCK FALSE
