---------------------------- MODULE MC_StdArrays ----------------------------
(* Bounded enumeration of standard-library array/set/higher-order calls for StdArrays.tla (C10). *)
EXTENDS StdArrays

CONSTANTS Family, MaxLen

N(i) == VNum(i)
S(c) == VStr(<<c>>)
E == {N(0), N(1), N(2), S(97), S(98), VArr(<<N(1)>>), VArr(<<>>), VNull, VBool(TRUE)}
ENum == {N(0), N(1), N(2), N(3)}
ESmall == {N(0), N(1), N(2), VArr(<<N(1)>>), S(97)}
Arrs(Es, n) == SeqsUpTo(Es, n)
KeyFs == {"id", "neg", "mod2", "const", "len", "partial"}
NoX == VNull
C(f, a, x, g, b, n) == [f |-> f, a |-> a, x |-> x, g |-> g, b |-> b, n |-> n]

\* sets under keyF, produced by the model itself from arbitrary arrays (so that they are valid sets)
SetsUnder(g) == {SetOf(xs, g).v.a : xs \in Arrs(ENum, 3)}

CallsOf(f) ==
  CASE f \in {"sort", "uniq", "set"} -> {C(f, a, NoX, g, <<>>, 0) : a \in Arrs(E, MaxLen), g \in KeyFs}
    [] f \in {"setUnion", "setInter", "setDiff"} ->
         UNION {{C(f, a, NoX, g, b, 0) : a \in SetsUnder(g), b \in SetsUnder(g)} : g \in {"id", "neg", "mod2"}}
         \cup {C(f, <<N(2), N(1)>>, NoX, "id", <<N(1)>>, 0), C(f, <<N(1)>>, NoX, "id", <<N(1), N(1)>>, 0)}
    [] f = "setMember" ->
         UNION {{C(f, a, x, g, <<>>, 0) : a \in SetsUnder(g), x \in ENum \cup {N(4), S(97)}} : g \in {"id", "neg", "mod2"}}
    [] f \in {"member", "contains", "find", "count", "remove"} -> {C(f, a, x, "id", <<>>, 0) : a \in Arrs(E, 2), x \in E}
         \cup {C(f, <<N(1), x, N(1), x>>, x, "id", <<>>, 0) : x \in E}
    [] f = "removeAt" -> {C(f, a, NoX, "id", <<>>, i) : a \in Arrs(ESmall, 3), i \in (0 - 3)..6}
    [] f \in {"flattenArrays", "flattenDeepArray"} ->
         {C(f, a, NoX, "id", <<>>, 0) : a \in Arrs({VArr(<<>>), VArr(<<N(1)>>), VArr(<<N(1), VArr(<<N(2), VArr(<<>>)>>)>>), N(5), S(97)}, 3)}
    [] f \in {"foldl", "foldr"} -> {C(f, a, x, g, <<>>, 0) : a \in Arrs(ESmall, MaxLen), x \in {N(0), VArr(<<>>)}, g \in {"add", "pair", "first", "sub"}}
    [] f = "map" -> {C(f, a, NoX, g, <<>>, 0) : a \in Arrs(ESmall, MaxLen), g \in {"id", "neg", "wrap", "partial", "len"}}
    [] f = "mapWithIndex" -> {C(f, a, NoX, "id", <<>>, 0) : a \in Arrs(ESmall, MaxLen)}
    [] f \in {"filter", "filterMap"} -> {C(f, a, NoX, g, <<>>, 0) : a \in Arrs(ESmall, MaxLen), g \in {"isnum", "gt1", "true", "one"}}
    [] f = "flatMap" -> {C(f, a, NoX, g, <<>>, 0) : a \in Arrs(ESmall, MaxLen), g \in {"wrap", "dup", "id", "neg"}}
    [] f = "join" -> {C(f, a, x, "id", <<>>, 0) : a \in Arrs({S(97), S(98), VStr(<<>>), VNull, VArr(<<N(1)>>), VArr(<<>>), N(1)}, MaxLen),
                                                  x \in {VStr(<<>>), VStr(<<44, 32>>), VArr(<<>>), VArr(<<N(0)>>), N(1)}}
    [] f = "lines" -> {C(f, a, NoX, "id", <<>>, 0) : a \in Arrs({S(97), VStr(<<>>), VNull, N(1)}, MaxLen)}
    [] f = "deepJoin" -> {C(f, a, NoX, "id", <<>>, 0) : a \in Arrs({S(97), VStr(<<>>), VArr(<<S(98), VArr(<<S(99)>>)>>), VArr(<<>>), N(1), VNull}, MaxLen)}
    [] f \in {"any", "all"} -> {C(f, a, NoX, "id", <<>>, 0) : a \in Arrs({VBool(TRUE), VBool(FALSE), N(1)}, MaxLen)}
    [] f \in {"sum", "avg"} -> {C(f, a, NoX, "id", <<>>, 0) : a \in Arrs({N(0), N(1), N(2), N(0 - 3), S(97)}, MaxLen)}
    [] f \in {"minArray", "maxArray"} -> {C(f, a, x, g, <<>>, 0) : a \in Arrs({N(0), N(1), N(2), N(0 - 1), S(97), VArr(<<N(1)>>)}, MaxLen),
                                                  x \in {N(99)}, g \in {"id", "neg", "mod2", "len"}}
    [] f = "minArray0" -> {C(f, a, NoX, "id", <<>>, 0) : a \in Arrs({N(0), N(1), N(0 - 1)}, 2)}
    [] f = "range" -> {C(f, <<>>, N(i), "id", <<>>, j) : i \in (0 - 2)..3, j \in (0 - 2)..4}
    [] f = "repeat" -> {C(f, <<>>, x, "id", <<>>, i) : x \in {VArr(<<>>), VArr(<<N(1), N(2)>>), VStr(<<>>), VStr(<<97, 233>>), N(1)}, i \in (0 - 1)..3}
    [] f = "makeArray" -> {C(f, <<>>, NoX, g, <<>>, i) : g \in {"id", "neg", "wrap", "partial", "const"}, i \in (0 - 1)..3}

Functions ==
  CASE Family = "sort" -> {"sort", "uniq", "set"}
    [] Family = "sets" -> {"setUnion", "setInter", "setDiff", "setMember"}
    [] Family = "search" -> {"member", "contains", "find", "count", "remove", "removeAt", "flattenArrays", "flattenDeepArray"}
    [] Family = "higher" -> {"foldl", "foldr", "map", "mapWithIndex", "filter", "filterMap", "flatMap"}
    [] Family = "agg" -> {"join", "lines", "deepJoin", "any", "all", "sum", "avg", "minArray", "maxArray", "minArray0",
                          "range", "repeat", "makeArray"}

VARIABLE st
Init == st \in {[ph |-> "seed", f |-> f] : f \in Functions}
Next == /\ st.ph = "seed"
        /\ \E c \in CallsOf(st.f) : st' = [ph |-> "case", c |-> c]

\* model-level check: Sort's result is the stable ordered permutation of its input
SortIsStablePermutation ==
  (st.ph = "case" /\ st.c.f = "sort") =>
     LET r == Call(st.c) IN
     IsOk(r) => LET k == KeysOf(st.c.g, st.c.a).v IN
                SortedStable(st.c.a, k, [xs |-> r.v.a, ks |-> KeysOf(st.c.g, r.v.a).v])
\* set laws on valid sets
SetLaws ==
  (st.ph = "case" /\ st.c.f = "setUnion") =>
     LET u == Call(st.c) i == Call([st.c EXCEPT !.f = "setInter"]) d == Call([st.c EXCEPT !.f = "setDiff"]) IN
     (IsOk(u) /\ IsOk(i) /\ IsOk(d)) =>
        /\ IsSet(u.v.a, st.c.g) /\ IsSet(i.v.a, st.c.g) /\ IsSet(d.v.a, st.c.g)
        /\ Len(i.v.a) + Len(d.v.a) = Len(st.c.a)
        /\ Len(u.v.a) = Len(d.v.a) + Len(st.c.b)

Emit == st.ph = "case" => PrintT("REPLAY " \o ToJson([fam |-> "stdarrays." \o Family, c |-> st.c, res |-> Call(st.c)]))
=============================================================================
