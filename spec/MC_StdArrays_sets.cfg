CONSTANTS Family = "sets"
          MaxLen = 3
INIT Init
NEXT Next
INVARIANTS SortIsStablePermutation SetLaws Emit
CHECK_DEADLOCK FALSE
