---------------------------- MODULE MC_StdObjects ----------------------------
(* Part B enumeration for StdObjects.tla. *)
EXTENDS StdObjects
CONSTANTS Family

A == <<97>>
B == <<98>>
Scal == {VNull, VBool(TRUE), VBool(FALSE), VNum(0), VNum(1), VStr(<<>>), VStr(A)}
SmallObjs == {VObj(<<>>), VObj(<<Fld(A, FALSE, VNum(1))>>), VObj(<<Fld(A, TRUE, VNum(1))>>), VObj(<<Fld(A, FALSE, VNull)>>),
              VObj(<<Fld(A, FALSE, VNum(1)), Fld(B, FALSE, VNum(2))>>), VObj(<<Fld(A, FALSE, VNum(2)), Fld(B, TRUE, VNum(3))>>),
              VObj(<<Fld(B, FALSE, VNull)>>), VObj(<<Fld(A, FALSE, VObj(<<Fld(B, FALSE, VNum(1))>>))>>),
              VObj(<<Fld(A, FALSE, VObj(<<Fld(B, FALSE, VNull)>>))>>), VObj(<<Fld(A, FALSE, VObj(<<>>)), Fld(B, FALSE, VArr(<<>>))>>),
              VObj(<<Fld(A, FALSE, VArr(<<VNull, VNum(1)>>))>>), VObj(<<Fld(A, TRUE, VObj(<<Fld(B, FALSE, VNull)>>)), Fld(B, FALSE, VNum(7))>>)}
Arrs == {VArr(<<>>), VArr(<<VNum(1)>>), VArr(<<VNull>>), VArr(<<VArr(<<>>), VObj(<<>>), VNull, VNum(0)>>),
         VArr(<<VObj(<<Fld(A, FALSE, VNull)>>), VStr(<<>>)>>)}
Funcs == {VFunc(0), VFunc(1), VFunc(2)}
Vals == Scal \cup SmallObjs \cup Arrs
TN(v) == [v EXCEPT !.t = v.t] @@ [tn |-> TypeOf(v)]
C(f, x, y) == [f |-> f, x |-> x, y |-> y]

Calls ==
  CASE Family = "types" -> {C("type", TN(v), VNull) : v \in Vals \cup Funcs} \cup {C("length", v, VNull) : v \in Vals \cup Funcs}
                           \cup {C(f, x, y) : f \in {"xor", "xnor"}, x \in {VBool(TRUE), VBool(FALSE), VNum(1), VNull}, y \in {VBool(TRUE), VBool(FALSE), VStr(A)}}
    [] Family = "equals" -> {C(f, x, y) : f \in {"equals", "primitiveEquals", "assertEqual"}, x \in Vals, y \in Vals}
    [] Family = "merge"  -> {C("mergePatch", x, y) : x \in Vals, y \in Vals} \cup {C("prune", x, VNull) : x \in Vals}
                            \cup {C("prune", VArr(<<x, y>>), VNull) : x \in Vals, y \in SmallObjs}

VARIABLE st
Init == st = [ph |-> "seed"]
Next == st.ph = "seed" /\ \E c \in Calls : st' = [ph |-> "case", c |-> c]

\* RFC 7396 laws: patching with {} changes nothing visible of an object; patching with a scalar replaces; idempotence
MergeLaws ==
  (st.ph = "case" /\ st.c.f = "mergePatch") =>
     LET r == MergePatch(st.c.x, st.c.y) IN
     /\ (st.c.y.t # "obj" => r = st.c.y)
     /\ MergePatch(r, st.c.y) = r
     /\ (st.c.x.t = "obj" => MergePatch(st.c.x, VObj(<<>>)) = Visible(VObj(VisFields(st.c.x))))
PruneLaws == (st.ph = "case" /\ st.c.f = "prune") => LET r == Prune(st.c.x) IN Prune(r) = r

Emit == st.ph = "case" => PrintT("REPLAY " \o ToJson([fam |-> "stdobjects." \o Family, c |-> st.c, res |-> CallB(st.c)]))
=============================================================================
