-------------------------- MODULE MC_StdObjectsChain --------------------------
(* Part A of C13: the object-inspection functions of the standard library on the chains of Objects.tla. *)
EXTENDS Objects

Default == 77
NumOrErr(r) == r                                        \* Num / Err / Absent records of Objects.tla
SortedNames(S) == IF S = {} THEN <<>> ELSE IF S = {"a"} THEN <<"a">> ELSE IF S = {"b"} THEN <<"b">> ELSE <<"a", "b">>

\* values of the given names in order: a sequence of outcomes
ValuesOf(c, names) == [i \in 1..Len(names) |-> Get(c, names[i], Top(c), Fuel)]

\* std.get(o, f, default, inc_hidden)
StdGet(c, f, inc) ==
  IF (inc /\ HasAll(c, f, Top(c))) \/ (~inc /\ Visible(c, f)) THEN Get(c, f, Top(c), Fuel) ELSE Num(Default)

RemoveKey(c, f) == c \o <<Omit(f, Len(c))>>

StdObs(c) ==
  [ fields |-> SortedNames(VisNames(c)), fieldsAll |-> SortedNames(AllNames(c)),
    values |-> ValuesOf(c, SortedNames(VisNames(c))), valuesAll |-> ValuesOf(c, SortedNames(AllNames(c))),
    has |-> [f \in Names |-> Visible(c, f)], hasAll |-> [f \in Names |-> HasAll(c, f, Top(c))],
    get |-> [f \in Names |-> [inc |-> StdGet(c, f, TRUE), vis |-> StdGet(c, f, FALSE)]],
    length |-> Cardinality(VisNames(c)),
    removed |-> [f \in Names |-> [fields |-> SortedNames(VisNames(RemoveKey(c, f))),
                                  fieldsAll |-> SortedNames(AllNames(RemoveKey(c, f))),
                                  other |-> Get(RemoveKey(c, f), IF f = "a" THEN "b" ELSE "a", Len(c) + 2, Fuel)]] ]

EmitStd == st.ph = "case" => PrintT("REPLAY " \o ToJson([fam |-> "stdobjects.chain." \o Family, chain |-> st.c, obs |-> StdObs(st.c)]))
=============================================================================
