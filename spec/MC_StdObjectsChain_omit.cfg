CONSTANT Family = "omit"
INIT Init
NEXT Next
INVARIANT EmitStd
CHECK_DEADLOCK FALSE
