CONSTANT Family = "plus"
INIT Init
NEXT Next
INVARIANT EmitStd
CHECK_DEADLOCK FALSE
