CONSTANT Family = "vis"
INIT Init
NEXT Next
INVARIANT EmitStd
CHECK_DEADLOCK FALSE
