CONSTANT Family = "equals"
INIT Init
NEXT Next
INVARIANTS MergeLaws PruneLaws Emit
CHECK_DEADLOCK FALSE
