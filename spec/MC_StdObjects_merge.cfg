CONSTANT Family = "merge"
INIT Init
NEXT Next
INVARIANTS MergeLaws PruneLaws Emit
CHECK_DEADLOCK FALSE
