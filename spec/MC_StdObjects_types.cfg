CONSTANT Family = "types"
INIT Init
NEXT Next
INVARIANTS MergeLaws PruneLaws Emit
CHECK_DEADLOCK FALSE
