CONSTANTS Pool1 = 30
          Pool3 = 12
INIT Init
NEXT Next
INVARIANT Emit
CHECK_DEADLOCK FALSE
