---------------------------- MODULE MC_StdStrings ----------------------------
(* Bounded enumeration of string / encoding / parsing calls for StdStrings.tla (C11). *)
EXTENDS StdStrings

CONSTANTS Family, MaxLen

Chars == {97, 98, 44, 32, 233, 128512}
EscChars == {97, 34, 39, 92, 36, 60, 38, 62, 10, 233, 0, 127}
Strs(A, n) == SeqsUpTo(A, n)
C0 == [f |-> "", s |-> <<>>, p |-> <<>>, q |-> <<>>, n |-> 0, m |-> 0, bs |-> <<>>]
C(f, s, p, q, n, m, bs) == [f |-> f, s |-> s, p |-> p, q |-> q, n |-> n, m |-> m, bs |-> bs]

Unary == {"length", "trim", "asciiUpper", "asciiLower", "stringChars", "codepoint", "isEmpty", "encodeUTF8", "base64"}
Escapes == {"escapeStringJson", "escapeStringPython", "escapeStringBash", "escapeStringDollars", "escapeStringXML"}
Binary == {"split", "findSubstr", "startsWith", "endsWith", "stripChars", "lstripChars", "rstripChars", "equalsIgnoreCase"}
Pats == Strs({97, 44, 233}, 2) \cup {<<97, 97, 97>>, <<65>>}

CallsOf(f) ==
  CASE f \in Unary -> {C(f, s, <<>>, <<>>, 0, 0, <<>>) : s \in Strs(Chars \cup {65, 9, 160}, MaxLen)}
    [] f \in Escapes -> {C(f, s, <<>>, <<>>, 0, 0, <<>>) : s \in Strs(EscChars, MaxLen)}
    [] f \in Binary -> {C(f, s, p, <<>>, 0, 0, <<>>) : s \in Strs({97, 44, 233, 65}, MaxLen + 1), p \in Pats}
    [] f \in {"splitLimit", "splitLimitR"} -> {C(f, s, p, <<>>, n, 0, <<>>) : s \in Strs({97, 44}, MaxLen + 1), p \in {<<44>>, <<97, 44>>, <<>>, <<44, 44>>}, n \in (0 - 2)..3}
    [] f = "strReplace" -> {C(f, s, p, q, 0, 0, <<>>) : s \in Strs({97, 98, 233}, MaxLen + 1), p \in {<<97>>, <<97, 97>>, <<>>, <<97, 98>>, <<233>>}, q \in {<<>>, <<120>>, <<97, 97>>, <<128512>>}}
    [] f = "substr" -> {C(f, s, <<>>, <<>>, n, m, <<>>) : s \in Strs({97, 233, 128512}, MaxLen), n \in (0 - 1)..4, m \in (0 - 1)..4}
    [] f = "char" -> {C(f, <<>>, <<>>, <<>>, n, 0, <<>>) : n \in {0 - 1, 0, 65, 233, 55295, 55296, 57343, 57344, 65535, 65536, 128512, 1114111, 1114112}}
    [] f \in {"parseInt", "parseOctal", "parseHex"} -> {C(f, s, <<>>, <<>>, 0, 0, <<>>) : s \in Strs({48, 49, 55, 56, 57, 97, 70, 71, 45, 43, 32, 47, 58, 63, 64, 96, 103}, MaxLen)}   \* incl. the ASCII neighbours of 0-9, A-F, a-f
    [] f = "decodeUTF8" -> {C(f, <<>>, <<>>, <<>>, 0, 0, bs) : bs \in Strs({0, 65, 128, 195, 169, 255, 224}, MaxLen)
                                 \cup {<<240, 159, 152, 128>>, <<226, 130, 172>>, <<240, 159, 152>>, <<237, 160, 128>>, <<192, 128>>, <<65, 226, 130, 172, 66>>}}
    [] f = "base64Bytes" -> {C(f, <<>>, <<>>, <<>>, 0, 0, bs) : bs \in Strs({0, 65, 255, 128}, MaxLen)}
    [] f \in {"base64Decode", "base64DecodeBytes"} ->
         {C(f, s, <<>>, <<>>, 0, 0, <<>>) : s \in Strs({81, 85, 61, 69, 45}, 4) \cup {B64Encode(bs) : bs \in Strs({0, 65, 255, 128}, MaxLen)}
                                               \cup {<<81, 85, 69, 61, 81, 81, 61, 61>>, <<81, 81, 61, 61, 81, 85, 69, 61>>, <<81, 86, 61, 61>>}}
    [] f \in {"parseJson", "parseYaml"} -> {C(f, s, <<>>, <<>>, 0, 0, <<>>) : s \in Strs({91, 93, 49, 44, 32, 34, 97, 123, 125, 58}, 4)
                                               \cup {<<123, 34, 97, 34, 58, 49, 125>>, <<123, 34, 97, 34, 58, 32, 91, 49, 44, 32, 34, 97, 34, 93, 125>>, <<91, 49, 44, 32, 123, 34, 97, 34, 58, 32, 123, 125, 125, 44, 32, 91, 93, 93>>, <<123, 34, 97, 34, 58, 123, 34, 97, 34, 58, 34, 97, 34, 125, 125>>, <<91, 91, 49, 44, 49, 93, 44, 91, 49, 93, 93>>, <<123, 34, 97, 34, 58, 91, 93, 44, 34, 97, 97, 34, 58, 123, 125, 125>>}}   \* a few whole documents: {"a":1}  {"a": [1, "a"]}  [1, {"a": {}}, []]  {"a":{"a":"a"}}  [[1,1],[1]]  {"a":[],"aa":{}}

Functions ==
  CASE Family = "unary" -> Unary \cup Escapes
    [] Family = "binary" -> Binary \cup {"splitLimit", "splitLimitR", "strReplace", "substr"}
    [] Family = "codec" -> {"char", "parseInt", "parseOctal", "parseHex", "decodeUTF8", "base64Bytes", "base64Decode",
                            "base64DecodeBytes", "parseJson", "parseYaml"}

VARIABLE st
Init == st \in {[ph |-> "seed", f |-> f] : f \in Functions}
Next == /\ st.ph = "seed"
        /\ \E c \in CallsOf(st.f) : st' = [ph |-> "case", c |-> c]

\* model-level laws: encoders and decoders are mutually inverse on their domains
CodecLaws ==
  st.ph = "case" =>
    /\ (st.c.f = "encodeUTF8" => LET d == DecodeUtf8(EncodeUtf8(st.c.s)) IN d.ok /\ d.s = st.c.s)
    /\ (st.c.f = "base64Bytes" => LET d == B64Decode(B64Encode(st.c.bs)) IN d.ok /\ d.bs = st.c.bs)
    /\ (st.c.f = "base64DecodeBytes" => LET d == B64Decode(st.c.s) IN d.ok => B64Encode(d.bs) = st.c.s)
    /\ (st.c.f = "decodeUTF8" => LET d == DecodeUtf8(st.c.bs) IN d.ok => EncodeUtf8(d.s) = st.c.bs)
\* split and join are inverse; splitLimit never yields more than n + 1 pieces
SplitLaws ==
  (st.ph = "case" /\ st.c.f \in {"splitLimit", "splitLimitR"} /\ st.c.p # <<>> /\ st.c.n >= 0 - 1) =>
     LET r == IF st.c.f = "splitLimit" \/ st.c.n = 0 - 1 THEN SplitL(st.c.s, st.c.p, st.c.n, <<>>) ELSE SplitR(st.c.s, st.c.p, st.c.n) IN
     /\ Join(st.c.p, r) = st.c.s
     /\ (st.c.n >= 0 => Len(r) <= st.c.n + 1)

Emit == st.ph = "case" => PrintT("REPLAY " \o ToJson([fam |-> "stdstrings." \o Family, c |-> st.c, res |-> Call(st.c)]))
=============================================================================
