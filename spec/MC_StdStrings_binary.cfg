CONSTANTS Family = "binary"
          MaxLen = 3
INIT Init
NEXT Next
INVARIANTS CodecLaws SplitLaws Emit
CHECK_DEADLOCK FALSE
