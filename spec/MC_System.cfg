CONSTANTS Programs <- MCPrograms
 Files <- MCFiles
 MaxRuns = 3
 MaxDepth = 1
 Unreadable = {"bad", "missing"}
 Failing = {"err"}
 ErrPrograms = {"p6", "p7"}
 ImportsOf <- MCImportsOf
SPECIFICATION Spec
INVARIANTS IdleClean ReadOnce EnteredWhileRunning
PROPERTIES Functional Reclaimed CacheMonotone
CHECK_DEADLOCK FALSE
