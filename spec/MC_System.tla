------------------------------ MODULE MC_System ------------------------------
(* the world used both for model checking System and for validating system traces of the implementation:          *)
(*   a imports b; p1 = import a; p2 = [import a, import b, importstr d]; p3 = import bad (a directory);           *)
(*   p4 = import missing; p5 = import err (evaluates to an error); p6 exceeds the stack limit; p7 fails an object *)
(*   assertion while manifesting; p8 is a plain value                                                             *)
EXTENDS System, Json
MCPrograms == {"p1", "p2", "p3", "p4", "p5", "p6", "p7", "p8"}
MCFiles == {"a", "b", "d", "bad", "missing", "err"}
MCImportsOf == [p \in MCPrograms |-> CASE p = "p1" -> {"a", "b"} [] p = "p2" -> {"a", "b", "d"} [] p = "p3" -> {"bad"}
                                       [] p = "p4" -> {"missing"} [] p = "p5" -> {"err"} [] OTHER -> {}]
=============================================================================
