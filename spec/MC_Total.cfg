CONSTANT MaxHistory = 3
SPECIFICATION Spec
INVARIANTS IdleClean Emit
CHECK_DEADLOCK FALSE
