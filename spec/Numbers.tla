------------------------------ MODULE Numbers ------------------------------
(***************************************************************************)
(* C09 — numbers: coherent comparison, finiteness, bitwise operators.      *)
(*                                                                         *)
(* Part 1 (order): the harness owns an exactly sorted list of doubles; the *)
(* model sees only ranks (0.0 and -0.0 share a rank).  For ranks i, j      *)
(* exactly one of <, ==, > holds and != <= >= std.sort std.set std.uniq    *)
(* std.setMember std.min std.max std.minArray std.maxArray agree with it.  *)
(* Part 2 (finiteness): trace spec Trace_Numbers - an operation fails iff  *)
(* the IEEE result is not finite, otherwise it returns the oracle's bits.  *)
(* Part 3 (bitwise): 64-bit two's complement bit vectors (functions        *)
(* 0..63 -> {0,1}; TLC integers are too small for 2^53).  & | ^ << >> act  *)
(* on the integer value of their operands and fail for operands outside    *)
(* the safe-integer range, negative shift counts and overflowing left      *)
(* shifts.                                                                 *)
(***************************************************************************)
EXTENDS Naturals, Integers, Sequences, FiniteSets, TLC, Json

CONSTANTS Family, NRanks

\* ================================================================== part 1: order on ranks
Ranks == 0..(NRanks - 1)
PairObs(i, j) == [lt |-> i < j, le |-> i <= j, eq |-> i = j, ne |-> i # j, ge |-> i >= j, gt |-> i > j,
                  min |-> IF i < j THEN i ELSE j, max |-> IF i > j THEN i ELSE j]
RECURSIVE InsSorted(_, _)
InsSorted(x, s) == IF s = <<>> THEN <<x>> ELSE IF x < Head(s) THEN <<x>> \o s ELSE <<Head(s)>> \o InsSorted(x, Tail(s))
RECURSIVE SortR(_)
SortR(s) == IF s = <<>> THEN <<>> ELSE InsSorted(Head(s), SortR(Tail(s)))
RECURSIVE UniqR(_)
UniqR(s) == IF Len(s) <= 1 THEN s ELSE IF s[1] = s[2] THEN UniqR(Tail(s)) ELSE <<s[1]>> \o UniqR(Tail(s))
TripleObs(t) == [sort |-> SortR(t), set |-> UniqR(SortR(t)), uniq |-> UniqR(t),
                 member |-> t[1] = t[2] \/ t[1] = t[3],                 \* setMember(t1, set([t2, t3]))
                 minArray |-> SortR(t)[1], maxArray |-> SortR(t)[3]]
\* coherence laws of the model itself (trichotomy, derived operators)
OrderLaws(i, j) == LET o == PairObs(i, j) IN
  /\ Cardinality({x \in {"lt", "eq", "gt"} : o[x]}) = 1
  /\ o.ne = ~o.eq /\ o.le = (o.lt \/ o.eq) /\ o.ge = (o.gt \/ o.eq)

\* ================================================================== part 3: bit vectors
Bits == 0..63
BV == [Bits -> {0, 1}]
Zero == [b \in Bits |-> 0]
FromSet(S) == [b \in Bits |-> IF b \in S THEN 1 ELSE 0]             \* non-negative value with these bits set
IsNeg(v) == v[63] = 1
And(a, b) == [i \in Bits |-> IF a[i] = 1 /\ b[i] = 1 THEN 1 ELSE 0]
Or(a, b)  == [i \in Bits |-> IF a[i] = 1 \/ b[i] = 1 THEN 1 ELSE 0]
Xor(a, b) == [i \in Bits |-> IF a[i] # b[i] THEN 1 ELSE 0]
Not(a)    == [i \in Bits |-> 1 - a[i]]
\* a + 1 (ripple carry): bit i flips iff all lower bits are 1
Inc(a) == [i \in Bits |-> IF \A j \in 0..(i - 1) : a[j] = 1 THEN 1 - a[i] ELSE a[i]]
Neg(a) == Inc(Not(a))                                                 \* two's complement negation
Abs(a) == IF IsNeg(a) THEN Neg(a) ELSE a
\* |a| <= 2^53 - 1  (bits 53..63 of the magnitude are clear); -2^63 is its own negation and is unsafe
Safe(a) == LET m == Abs(a) IN \A i \in 53..63 : m[i] = 0
\* logical shift left by k, arithmetic shift right by k (0 <= k <= 63)
Shl(a, k) == [i \in Bits |-> IF i >= k THEN a[i - k] ELSE 0]
Shr(a, k) == [i \in Bits |-> IF i + k <= 63 THEN a[i + k] ELSE a[63]]
\* a << k overflows the signed 64-bit range iff bits are lost or the sign changes:
\* the k+1 top bits of a are not all equal
ShlOverflows(a, k) == \E i \in (63 - k)..63 : a[i] # a[63]

\* operands: [neg |-> BOOLEAN, bits |-> set of bit positions of the magnitude, frac |-> BOOLEAN (has a fractional part)]
ValOf(x) == IF x.neg THEN Neg(FromSet(x.bits)) ELSE FromSet(x.bits)
SetBits(v) == {i \in Bits : v[i] = 1}
Res(v) == [k |-> "val", neg |-> IsNeg(v), bits |-> SetBits(Abs(v))]
Err == [k |-> "err"]
Unspec == [k |-> "unspec"]

BitOp(op, x, y) ==
  \* operands act through their integer value (a fractional part is truncated: x.frac marks value + 0.5)
  LET a == ValOf(x) b == ValOf(y) IN
       IF ~Safe(a) \/ ~Safe(b) THEN Err                               \* both within the safe-integer range
       ELSE CASE op = "&" -> Res(And(a, b))
              [] op = "|" -> Res(Or(a, b))
              [] op = "^" -> Res(Xor(a, b))
              [] op \in {"<<", ">>"} ->
                   IF IsNeg(b) THEN Err                               \* negative shift count
                   ELSE IF \E i \in 6..63 : b[i] = 1 THEN Unspec      \* count >= 64: not decided
                   ELSE LET k == b[0] + 2 * b[1] + 4 * b[2] + 8 * b[3] + 16 * b[4] + 32 * b[5] IN
                        IF op = "<<" THEN (IF ShlOverflows(a, k) THEN Err ELSE Res(Shl(a, k)))
                        ELSE Res(Shr(a, k))

\* ------------------------------------------------------------------ enumeration
Mag == { {}, {0}, {1}, {0, 1}, {2}, {31}, {32}, {0, 32}, {52}, {0, 52}, 0..52, {53}, {0, 53}, {62}, 0..62 }
Operands == {[neg |-> n, bits |-> m, frac |-> FALSE] : n \in BOOLEAN, m \in Mag}
            \cup {[neg |-> FALSE, bits |-> {0}, frac |-> TRUE], [neg |-> TRUE, bits |-> {}, frac |-> TRUE]}   \* 1.5, -0.5
Counts == {[neg |-> FALSE, bits |-> m, frac |-> FALSE] : m \in { {}, {0}, {1}, {0, 1, 2, 3, 4}, {5}, {2, 4, 5}, {1, 2, 3, 4, 5}, 0..5, {6}, {0, 6}, {10}, {53}, {0, 53}, {62} }}
          \cup {[neg |-> TRUE, bits |-> {0}, frac |-> FALSE], [neg |-> FALSE, bits |-> {}, frac |-> TRUE]}

VARIABLE st
Init == \/ (Family = "pairs" /\ st \in {[ph |-> "case", i |-> i, j |-> j] : i \in Ranks, j \in Ranks})
        \/ (Family = "triples" /\ st \in {[ph |-> "seed", i |-> i] : i \in Ranks})
        \/ (Family = "bits" /\ st \in {[ph |-> "seed", op |-> op] : op \in {"&", "|", "^", "<<", ">>"}})
\* triples: a structured subset (every pair of positions equal, neighbours, and a spread)
TripleOk(i, j, k) == j = i \/ k = i \/ k = j \/ j = i + 1 \/ k = j + 1 \/ (i + j + k) % 7 = 0
Next == /\ st.ph = "seed"
        /\ \/ (Family = "triples" /\ \E j \in Ranks, k \in Ranks : TripleOk(st.i, j, k) /\ st' = [ph |-> "case", t |-> <<st.i, j, k>>])
           \/ (Family = "bits" /\ \E x \in Operands, y \in (IF st.op \in {"<<", ">>"} THEN Counts ELSE Operands) :
                                      st' = [ph |-> "case", op |-> st.op, x |-> x, y |-> y])

Laws == (Family = "pairs" /\ st.ph = "case") => OrderLaws(st.i, st.j)
\* bit-vector sanity: x ^ x = 0, x & ~x = 0, negation is an involution, shifting left then right restores when nothing overflows
BitLaws == (Family = "bits" /\ st.ph = "case") =>
             LET a == ValOf(st.x) IN
             /\ Xor(a, a) = Zero /\ And(a, Not(a)) = Zero /\ Neg(Neg(a)) = a
             /\ \A k \in {1, 7} : ~ShlOverflows(a, k) => Shr(Shl(a, k), k) = a

Emit == st.ph = "case" =>
  PrintT("REPLAY " \o ToJson(
    CASE Family = "pairs" -> [fam |-> "numbers.pairs", i |-> st.i, j |-> st.j, obs |-> PairObs(st.i, st.j)]
      [] Family = "triples" -> [fam |-> "numbers.triples", t |-> st.t, obs |-> TripleObs(st.t)]
      [] Family = "bits" -> [fam |-> "numbers.bits", op |-> st.op, x |-> st.x, y |-> st.y, res |-> BitOp(st.op, st.x, st.y)]))
=============================================================================
