------------------------------- MODULE Objects -------------------------------
(***************************************************************************)
(* C02 — object inheritance, late binding and visibility.                  *)
(*                                                                         *)
(* A chain is the sequence of layers of a composed object `l1 + l2 + ...`  *)
(* (equivalently `l1 { ... } { ... }`).  A layer either defines members or *)
(* is the pseudo-layer Omit(f, k) that std.objectRemoveKey puts on top of  *)
(* an object of k layers.  Part 1 is the declarative object model of the   *)
(* Jsonnet specification; part 2 transcribes the single-pass lookup of the *)
(* implementation (saturating skip counter, +: stack, visibility merge).   *)
(* TLC checks that part 2 refines part 1 on every enumerated chain and     *)
(* emits the observations of part 1 as replay cases.                       *)
(***************************************************************************)
EXTENDS Naturals, Integers, Sequences, FiniteSets, TLC, Json

CONSTANTS Family

Names == {"a", "b"}
Fuel == 12                       \* bound on nested member evaluations (self-reference loops)

\* ------------------------------------------------------------------ members
\* body: [k |-> kind, g |-> referenced name, n |-> constant]
BK(n)        == [k |-> "const", g |-> "", n |-> n]          \* n
BSelf(g)     == [k |-> "self", g |-> g, n |-> 0]            \* self.g
BDollar(g)   == [k |-> "dollar", g |-> g, n |-> 0]          \* $.g
BLocal(g)    == [k |-> "local", g |-> g, n |-> 0]           \* object-level local l = self.g; ... : l
BSuper(g)    == [k |-> "super", g |-> g, n |-> 0]           \* super.g
BSuperPlus(g, n) == [k |-> "superplus", g |-> g, n |-> n]   \* super.g + n
BInSuper(g)  == [k |-> "insuper", g |-> g, n |-> 0]         \* "g" in super   (0 / 1 as number: if .. then 1 else 0)
BSelfPlus(g, n) == [k |-> "selfplus", g |-> g, n |-> n]     \* self.g + n
BStr         == [k |-> "conststr", g |-> "", n |-> 0]       \* "x"

NoM == [p |-> FALSE, vis |-> ":", plus |-> FALSE, b |-> BK(0)]
M(vis, plus, b) == [p |-> TRUE, vis |-> vis, plus |-> plus, b |-> b]

\* layer: ordinary [omit |-> FALSE, ms |-> [Names -> member], as |-> assertion]   or
\*        removed key [omit |-> TRUE, f |-> name, k |-> number of layers of the object it was removed from]
\* assertion: "none" | [k |-> "eq", g, n]  (assert self.g == n) | [k |-> "has", g] (assert "g" in self)
NoA == [k |-> "none", g |-> "", n |-> 0]
Layer(ms, as) == [omit |-> FALSE, ms |-> ms, as |-> as, f |-> "", k |-> 0]
Omit(f, k) == [omit |-> TRUE, ms |-> [x \in Names |-> NoM], as |-> NoA, f |-> f, k |-> k]

\* outcomes of evaluating a member / reading a field
Num(n) == [k |-> "num", n |-> n]
Err(c) == [k |-> "err", c |-> c]
Absent == [k |-> "absent"]

\* ================================================================== part 1: declarative model
Defines(c, j, f) == ~c[j].omit /\ c[j].ms[f].p
\* definition j is masked for a lookup bounded by s when an Omit of f between j and s reaches down to j
Masked(c, j, f, s) == \E i \in (j + 1)..(s - 1) : c[i].omit /\ c[i].f = f /\ i - c[i].k <= j
\* layers below s with a definition of f the lookup can see
Defs(c, f, s) == {j \in 1..(s - 1) : Defines(c, j, f) /\ ~Masked(c, j, f, s)}
Max(S) == CHOOSE x \in S : \A y \in S : y <= x
HasAll(c, f, s) == Defs(c, f, s) # {}

\* visibility merge: the right-most explicit :: or ::: decides, plain : inherits
RECURSIVE VisOf(_, _, _)
VisOf(c, f, s) ==
  LET D == Defs(c, f, s) IN
  IF D = {} THEN "absent"
  ELSE LET j == Max(D) v == c[j].ms[f].vis IN
       IF v = "::" THEN "hidden"
       ELSE IF v = ":::" THEN "visible"
       ELSE LET below == VisOf(c, f, j) IN IF below = "absent" THEN "visible" ELSE below
Top(c) == Len(c) + 1
Visible(c, f) == VisOf(c, f, Top(c)) = "visible"

\* `+` on field values: numbers add; as soon as a string takes part the result is the concatenation of the operands'
\* texts (a number is written in decimal) - which is not associative: (1 + 2) + "x" = "3x", 1 + (2 + "x") = "12x", so
\* the order in which a chain of `+:` values is folded is observable (family strplus)
Str(sq) == [k |-> "str", s |-> sq]                 \* characters: 0..9 the digits, 10 the letter x
RECURSIVE Digits(_)
Digits(n) == IF n < 10 THEN <<n>> ELSE Digits(n \div 10) \o <<n % 10>>
ToS(v) == IF v.k = "str" THEN v.s ELSE Digits(v.n)
Add(x, y) == IF x.k = "err" THEN x ELSE IF y.k = "err" THEN y
             ELSE IF x.k = "num" /\ y.k = "num" THEN Num(x.n + y.n) ELSE Str(ToS(x) \o ToS(y))

RECURSIVE Get(_, _, _, _), EvalBody(_, _, _, _), AssertsOk(_, _)
\* value of field f for a lookup bounded by s (s = Top(c): obj.f / self.f; s = j: super.f from layer j)
Get(c, f, s, fuel) ==
  IF fuel = 0 THEN Err("fuel")
  ELSE LET D == Defs(c, f, s) IN
       IF D = {} THEN Absent
       ELSE LET j == Max(D) m == c[j].ms[f] v == EvalBody(c, j, m.b, fuel - 1) IN
            IF ~m.plus THEN v
            ELSE LET inh == Get(c, f, j, fuel - 1) IN
                 IF inh.k = "absent" THEN v ELSE Add(inh, v)

\* field read as an expression: a missing field is an error
Read(c, f, s, fuel) == LET r == Get(c, f, s, fuel) IN IF r.k = "absent" THEN Err("nofield") ELSE r

EvalBody(c, j, b, fuel) ==
  IF fuel = 0 THEN Err("fuel")
  ELSE CASE b.k = "const"     -> Num(b.n)
         [] b.k = "conststr"  -> Str(<<10>>)
         [] b.k \in {"self", "dollar", "local"} -> Read(c, b.g, Top(c), fuel)
         [] b.k = "selfplus"  -> Add(Read(c, b.g, Top(c), fuel), Num(b.n))
         [] b.k = "super"     -> Read(c, b.g, j, fuel)
         [] b.k = "superplus" -> Add(Read(c, b.g, j, fuel), Num(b.n))
         [] b.k = "insuper"   -> Num(IF HasAll(c, b.g, j) THEN 1 ELSE 0)

\* object assertions: all layers' assertions hold (evaluated against the final object)
AssertHolds(c, a, fuel) ==
  CASE a.k = "none" -> Num(1)
    [] a.k = "eq"   -> LET r == Read(c, a.g, Top(c), fuel) IN
                       IF r.k = "err" THEN r ELSE Num(IF r.n = a.n THEN 1 ELSE 0)
    [] a.k = "has"  -> Num(IF HasAll(c, a.g, Top(c)) THEN 1 ELSE 0)
AssertsOk(c, fuel) ==
  \A j \in 1..Len(c) : LET r == AssertHolds(c, c[j].as, fuel) IN r.k = "num" /\ r.n = 1
HasAsserts(c) == \E j \in 1..Len(c) : c[j].as.k # "none"

\* what an observer sees when reading a field of the composed object: assertions first
Observe(c, f) ==
  IF HasAsserts(c) /\ ~AssertsOk(c, Fuel) THEN Err("assert") ELSE Get(c, f, Top(c), Fuel)

AllNames(c) == {f \in Names : HasAll(c, f, Top(c))}
VisNames(c) == {f \in Names : Visible(c, f)}

\* manifestation: every visible field's value, an error if any of them (or an assertion) fails
Manifest(c) ==
  IF HasAsserts(c) /\ ~AssertsOk(c, Fuel) THEN Err("assert")
  ELSE IF \E f \in VisNames(c) : Get(c, f, Top(c), Fuel).k = "err" THEN Err("field")
  ELSE [k |-> "obj", fs |-> {[f |-> f, n |-> LET r == Get(c, f, Top(c), Fuel) IN IF r.k = "str" THEN r.s ELSE r.n] : f \in VisNames(c)}]

\* ------------------------------------------------------------------ call by need: the definitions a read runs
\* Used(c, f, s): the member definitions <<layer, name>> whose bodies are evaluated when field f is read with
\* bound s - the top-most unmasked definition, what its body reads, and for `+:` the inherited value. Every other
\* definition of the chain (overridden, masked by a removed key, of another field) is never evaluated, so it may
\* hold an error without the read noticing (C03). Meaningful when the read yields a number.
RECURSIVE Used(_, _, _, _), UsedBody(_, _, _, _)
Used(c, f, s, fuel) ==
  IF fuel = 0 THEN {}
  ELSE LET D == Defs(c, f, s) IN
       IF D = {} THEN {}
       ELSE LET j == Max(D) m == c[j].ms[f] IN
            {<<j, f>>} \cup UsedBody(c, j, m.b, fuel - 1) \cup (IF m.plus THEN Used(c, f, j, fuel - 1) ELSE {})
UsedBody(c, j, b, fuel) ==
  IF fuel = 0 THEN {}
  ELSE CASE b.k \in {"self", "dollar", "local", "selfplus"} -> Used(c, b.g, Top(c), fuel)
         [] b.k \in {"super", "superplus"} -> Used(c, b.g, j, fuel)
         [] OTHER -> {}

\* ================================================================== part 2: implementation-shaped
\* cores are visited from the top; an Omit core sets skip := max(skip, k + 1); skip saturates at 0
Dec(n) == IF n = 0 THEN 0 ELSE n - 1
MaxN(a, b) == IF a > b THEN a ELSE b

RECURSIVE HasImplFrom(_, _, _, _)
\* has_field_include_hidden_idx: scan i = s-1 down to 1
HasImplFrom(c, f, i, skip) ==
  IF i = 0 THEN FALSE
  ELSE IF c[i].omit /\ c[i].f = f
       THEN HasImplFrom(c, f, i - 1, Dec(MaxN(skip, c[i].k + 1)))
       ELSE IF Defines(c, i, f) /\ skip = 0 THEN TRUE
       ELSE HasImplFrom(c, f, i - 1, Dec(skip))
HasImpl(c, f, s) == HasImplFrom(c, f, s - 1, 0)

RECURSIVE VisImplFrom(_, _, _, _, _)
\* field_visibility_idx: first explicit ::/::: wins, otherwise "exists" is remembered
VisImplFrom(c, f, i, skip, exists) ==
  IF i = 0 THEN (IF exists THEN "visible" ELSE "absent")
  ELSE IF c[i].omit /\ c[i].f = f
       THEN VisImplFrom(c, f, i - 1, Dec(MaxN(skip, c[i].k + 1)), exists)
       ELSE IF Defines(c, i, f) /\ skip = 0
            THEN LET v == c[i].ms[f].vis IN
                 IF v = "::" THEN "hidden" ELSE IF v = ":::" THEN "visible"
                 ELSE VisImplFrom(c, f, i - 1, Dec(skip), TRUE)
            ELSE VisImplFrom(c, f, i - 1, Dec(skip), exists)
VisImpl(c, f, s) == VisImplFrom(c, f, s - 1, 0, FALSE)

RECURSIVE CollectFrom(_, _, _, _, _, _)
\* get_idx_uncached: collect the values of +: members from the top down to the first plain member
\* (acc is in top-down order); the result is folded from the bottom
CollectFrom(c, f, i, skip, acc, fuel) ==
  IF i = 0 THEN acc
  ELSE IF c[i].omit /\ c[i].f = f
       THEN CollectFrom(c, f, i - 1, Dec(MaxN(skip, c[i].k + 1)), acc, fuel)
       ELSE IF Defines(c, i, f) /\ skip = 0
            THEN LET v == EvalBody(c, i, c[i].ms[f].b, fuel) IN
                 IF c[i].ms[f].plus THEN CollectFrom(c, f, i - 1, Dec(skip), Append(acc, v), fuel)
                 ELSE Append(acc, v)
            ELSE CollectFrom(c, f, i - 1, Dec(skip), acc, fuel)
RECURSIVE FoldUp(_)
\* acc top-down = <<v_top, ..., v_bottom>>  ->  ((v_bottom + ...) + v_top)
FoldUp(acc) == IF Len(acc) = 1 THEN acc[1] ELSE Add(FoldUp(Tail(acc)), acc[1])
GetImpl(c, f, s, fuel) ==
  LET acc == CollectFrom(c, f, s - 1, 0, <<>>, fuel) IN
  IF acc = <<>> THEN Absent ELSE FoldUp(acc)

\* the refinement: the single-pass algorithms compute the declarative notions, for lookups from the
\* top and from every layer (super)
Refines(c) ==
  \A f \in Names : \A s \in 1..Top(c) :
     /\ HasImpl(c, f, s) = HasAll(c, f, s)
     /\ VisImpl(c, f, s) = VisOf(c, f, s)
     /\ LET d == Get(c, f, s, Fuel) i == GetImpl(c, f, s, Fuel - 1) IN
        \* identical unless the evaluation ran out of fuel on one side (self-reference loops)
        d = i \/ d = Err("fuel") \/ i = Err("fuel") \/ (d.k = "err" /\ i.k = "err")

\* ------------------------------------------------------------------ consistency of the declarative notions
Consistent(c) ==
  /\ VisNames(c) \subseteq AllNames(c)
  /\ \A f \in Names : (Get(c, f, Top(c), Fuel).k = "absent") <=> (f \notin AllNames(c))

\* ================================================================== enumeration
VisSet == {":", "::", ":::"}
\* members of name a / b allowed in each family
MembersA ==
  CASE Family = "vis"  -> {NoM} \cup {M(v, FALSE, BK(1)) : v \in VisSet} \cup {M(":", TRUE, BK(1))}
    [] Family = "plus" -> {NoM, M(":", FALSE, BK(1)), M(":", TRUE, BK(2)), M("::", TRUE, BK(4)),
                           M(":", TRUE, BSuperPlus("a", 8)), M(":", FALSE, BSuperPlus("a", 8))}
    [] Family = "strplus" -> {NoM, M(":", FALSE, BK(1)), M(":", TRUE, BK(2)), M(":", TRUE, BStr), M(":", FALSE, BStr),
                              M(":", TRUE, BSuperPlus("a", 8))}
    [] Family = "refs" -> {NoM, M(":", FALSE, BK(1)), M(":", FALSE, BSelf("b")), M(":", FALSE, BSuper("a")),
                           M(":", FALSE, BSuperPlus("a", 10)), M(":", FALSE, BInSuper("a")), M(":", FALSE, BLocal("b")),
                           M(":", TRUE, BSelfPlus("b", 100)), M("::", FALSE, BDollar("b"))}
    [] Family = "locals" -> {NoM, M(":", FALSE, BK(1)), M(":", FALSE, BLocal("b")), M(":", FALSE, BSuperPlus("a", 10)), M(":", TRUE, BK(2))}
    [] Family \in {"omit", "assert"} -> {NoM, M(":", FALSE, BK(1)), M(":", TRUE, BK(2)), M("::", FALSE, BSuperPlus("a", 10))}
MembersB ==
  CASE Family = "vis"  -> {NoM} \cup {M(v, FALSE, BK(5)) : v \in VisSet}
    [] Family \in {"plus", "strplus"} -> {NoM, M(":", FALSE, BSelf("a"))}
    [] Family = "refs" -> {NoM, M(":", FALSE, BK(5)), M(":", FALSE, BSelfPlus("a", 1000)), M("::", FALSE, BSuper("b")),
                           M(":", FALSE, BInSuper("a"))}
    [] Family = "locals" -> {NoM, M(":", FALSE, BK(5)), M(":", FALSE, BLocal("a")), M(":", FALSE, BSuperPlus("b", 100)), M(":", FALSE, BInSuper("a"))}
    [] Family = "omit" -> {NoM, M(":", FALSE, BK(5))}
    [] Family = "assert" -> {NoM, M(":", FALSE, BK(5)), M(":", FALSE, BSelfPlus("a", 100))}
Asserts == IF Family = "assert"
           THEN {NoA, [k |-> "eq", g |-> "a", n |-> 1], [k |-> "eq", g |-> "b", n |-> 5], [k |-> "has", g |-> "a", n |-> 0]}
           ELSE {NoA}

Layers == {Layer([x \in Names |-> IF x = "a" THEN ma ELSE mb], as) : ma \in MembersA, mb \in MembersB, as \in Asserts}
NonEmptyLayers == {l \in Layers : l.ms["a"].p \/ l.ms["b"].p \/ l.as.k # "none"}

PlainChains(n) == UNION {[1..k -> NonEmptyLayers] : k \in 1..n}
Opt1 == {<<>>} \cup PlainChains(1)

\* The enumeration is split into seeds (one TLC state each) that are expanded by Next, so that the
\* expensive invariants are evaluated by all workers.
Seeds == IF Family = "omit" THEN PlainChains(2) ELSE NonEmptyLayers

ExpandPlain(l1, n) ==
  {<<l1>>} \cup (IF n >= 2 THEN {<<l1, l2>> : l2 \in NonEmptyLayers} ELSE {})
           \cup (IF n >= 3 THEN {<<l1, l2, l3>> : l2 \in NonEmptyLayers, l3 \in NonEmptyLayers} ELSE {})
           \cup (IF n >= 4 THEN {<<l1, l2, l3, l4>> : l2 \in NonEmptyLayers, l3 \in NonEmptyLayers, l4 \in NonEmptyLayers} ELSE {})
\* refs: three layers only with a middle layer that does not define b (keeps the family tractable)
ExpandRefs(l1) ==
  {<<l1>>} \cup {<<l1, l2>> : l2 \in NonEmptyLayers}
           \cup {<<l1, l2, l3>> : l2 \in {l \in NonEmptyLayers : ~l.ms["b"].p}, l3 \in NonEmptyLayers}
\* chains with removed keys: base ++ (obj ++ Omit(f, |obj|)) ++ top, and a key removed twice /
\* removed, re-added and removed again
ExpandOmit(obj) ==
  { base \o obj \o <<Omit(f, Len(obj))>> \o top : base \in Opt1, f \in Names, top \in Opt1 }
  \cup (IF Len(obj) = 1
        THEN { obj \o <<Omit("a", 1)>> \o o2 \o <<Omit(f, 2 + Len(o2))>> : o2 \in Opt1, f \in Names }
        ELSE {})

Expand(s) == CASE Family = "omit" -> ExpandOmit(s)
               [] Family = "refs" -> ExpandRefs(s)
               [] Family = "assert" -> ExpandPlain(s, 2)
               [] Family = "strplus" -> ExpandPlain(s, 4)
               [] OTHER -> ExpandPlain(s, 3)

VARIABLE st
Init == st \in {[ph |-> "seed", s |-> x] : x \in Seeds}
Next == /\ st.ph = "seed"
        /\ \E ch \in Expand(st.s) : st' = [ph |-> "case", c |-> ch]

RefinesInv == st.ph = "case" => Refines(st.c)
ConsistentInv == st.ph = "case" => Consistent(st.c)

SuperProbes(c) ==
  {[j |-> j, f |-> f, has |-> HasAll(c, f, j), get |-> Get(c, f, j, Fuel)] : j \in 1..Len(c), f \in Names}

Emit ==
  st.ph = "case" =>
    LET c == st.c IN
    PrintT("REPLAY " \o ToJson([fam |-> "objects." \o Family, chain |-> c,
      obs |-> [f \in Names |-> [get |-> Observe(c, f), vis |-> VisOf(c, f, Top(c)), has |-> HasAll(c, f, Top(c))]],
      fields |-> VisNames(c), fieldsAll |-> AllNames(c),
      manifest |-> Manifest(c), asserts |-> HasAsserts(c), super |-> SuperProbes(c),
      used |-> [f \in Names |-> Used(c, f, Top(c), Fuel)]]))
=============================================================================
