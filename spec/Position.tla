------------------------------ MODULE Position ------------------------------
(***************************************************************************)
(* C17 (b) - reported positions are accurate.                              *)
(* A text is a sequence of characters, each with a UTF-8 width; offsets    *)
(* are bytes, lines and columns count characters.  LineCol(t, k) is the    *)
(* position of the character boundary k (k characters precede it).         *)
(* Family "locate": every text up to MaxLen over the character classes and *)
(* every boundary (bound to Source::map_source_locations).                 *)
(* Family "planted": layouts of a program with one offending construct at  *)
(* a position the model computes from the layout alone (bound to the       *)
(* formatted error trace / TRACE line of a rendered program).              *)
(***************************************************************************)
EXTENDS Naturals, Sequences, FiniteSets, TLC, Json

CONSTANTS Family, MaxLen

\* ------------------------------------------------------------------ texts and boundaries
Classes == {"a", "e2", "e3", "e4", "nl", "cr"}
Width(c) == CASE c = "e2" -> 2 [] c = "e3" -> 3 [] c = "e4" -> 4 [] OTHER -> 1
Ascii(c) == Width(c) = 1
RECURSIVE ByteLen(_)
ByteLen(t) == IF t = <<>> THEN 0 ELSE Width(Head(t)) + ByteLen(Tail(t))
Off(t, k) == ByteLen(SubSeq(t, 1, k))
Max(S) == CHOOSE x \in S : \A y \in S : y <= x
LineStart(t, k) == Max({0} \cup {i \in 1..k : t[i] = "nl"})      \* characters up to and including the last newline before k
Line(t, k) == 1 + Cardinality({i \in 1..k : t[i] = "nl"})
Col(t, k) == 1 + (k - LineStart(t, k))
AsciiBefore(t, k) == \A i \in (LineStart(t, k) + 1)..k : Ascii(t[i])
Loc(t, k) == [off |-> Off(t, k), line |-> Line(t, k), col |-> Col(t, k), exact |-> AsciiBefore(t, k)]

\* model laws: boundaries are strictly increasing byte offsets; the position is monotone in the boundary
LocLaws(t) == \A k \in 0..(Len(t) - 1) :
                /\ Off(t, k) < Off(t, k + 1)
                /\ Line(t, k) <= Line(t, k + 1)
                /\ (Line(t, k) = Line(t, k + 1) => Col(t, k + 1) = Col(t, k) + 1)
                /\ (t[k + 1] = "nl" => Line(t, k + 1) = Line(t, k) + 1 /\ Col(t, k + 1) = 1)

\* ------------------------------------------------------------------ planted constructs
LineKinds == {"blank", "cmt", "cmt8", "str8", "blk2", "blk8"}
LinesOf(kd) == IF kd \in {"blk2", "blk8"} THEN 2 ELSE 1           \* block comments spanning two lines
Prefixes == {"none", "sp2", "tab", "arr", "blk", "str8", "blk8"}
\* characters (= columns) the prefix occupies on the construct's own line, and whether it is ASCII
PrefixLen(p) == CASE p = "none" -> 0 [] p = "sp2" -> 2 [] p = "tab" -> 1 [] p = "arr" -> 4 [] p = "blk" -> 8
                  [] p = "str8" -> 6 [] p = "blk8" -> 8
PrefixAscii(p) == p \notin {"str8", "blk8"}
Constructs == {"error", "assert", "nofield", "undefvar", "call", "mlcall", "builtin", "syntax", "trace"}   \* mlcall: a call whose arguments continue on the next line
\* characters from the start of the construct to the position that is reported
Delta(c) == CASE c = "assert" -> 7 [] c = "nofield" -> 3 [] c \in {"call", "mlcall"} -> 17 [] c = "builtin" -> 10 [] c = "syntax" -> 4 [] OTHER -> 0
Afters == {"none", "cmt8", "blank"}
Eols == {"lf", "crlf"}
RECURSIVE SumLines(_)
SumLines(b) == IF b = <<>> THEN 0 ELSE LinesOf(Head(b)) + SumLines(Tail(b))
Planted(b, p, c) == [line |-> 1 + SumLines(b), col |-> 1 + PrefixLen(p) + Delta(c), exact |-> PrefixAscii(p)]
Befores == {<<>>} \cup {<<x>> : x \in LineKinds} \cup {<<x, y>> : x \in LineKinds, y \in LineKinds}

\* ------------------------------------------------------------------ enumeration
TextsOf(n) == UNION {[1..m -> Classes] : m \in 0..n}
VARIABLE st
Init == \/ (Family = "locate" /\ st \in {[ph |-> "seed", t |-> t] : t \in TextsOf(2)})
        \/ (Family = "planted" /\ st \in {[ph |-> "seed", b |-> b] : b \in Befores})
Next == /\ st.ph = "seed"
        /\ \/ (Family = "locate" /\ \E s \in (IF Len(st.t) = 2 THEN TextsOf(MaxLen - 2) ELSE {<<>>}) :
                                      st' = [ph |-> "case", t |-> st.t \o s])
           \/ (Family = "planted" /\ \E p \in Prefixes, c \in Constructs, a \in Afters, e \in Eols :
                                      st' = [ph |-> "case", b |-> st.b, p |-> p, c |-> c, a |-> a, eol |-> e])
Laws == (Family = "locate" /\ st.ph = "case") => LocLaws(st.t)
Emit == st.ph = "case" =>
  PrintT("REPLAY " \o ToJson(
    IF Family = "locate"
    THEN [fam |-> "position.locate", t |-> st.t, locs |-> [k \in 1..(Len(st.t) + 1) |-> Loc(st.t, k - 1)]]
    ELSE [fam |-> "position.planted", b |-> st.b, p |-> st.p, c |-> st.c, a |-> st.a, eol |-> st.eol,
          plen |-> PrefixLen(st.p), delta |-> Delta(st.c), exp |-> Planted(st.b, st.p, st.c)]))
=============================================================================
