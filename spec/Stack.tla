-------------------------------- MODULE Stack --------------------------------
(***************************************************************************)
(* C04 / C16 — the evaluation frame counter.                               *)
(* depth counts the frames of ordinary (non-tailstrict) calls, field and   *)
(* element evaluations currently in progress on a thread; limit is the     *)
(* absolute bound.  A frame is entered only below the limit (Push),        *)
(* otherwise the evaluation fails with a stack-overflow error (PushFail)   *)
(* and unwinds; every frame that was entered is left again (Pop) whatever  *)
(* the outcome; an embedder may lower/raise the limit relative to the      *)
(* current depth for the duration of a call (Override / Restore).          *)
(***************************************************************************)
EXTENDS Naturals, Sequences

CONSTANTS MaxLimit                    \* model bound on the configured limit

VARIABLES depth, limit, saved, failing, entry
vars == <<depth, limit, saved, failing, entry>>

Init == depth = 0 /\ limit \in 1..MaxLimit /\ saved = <<>> /\ failing = FALSE /\ entry = 0

Push     == ~failing /\ depth < limit /\ depth' = depth + 1 /\ UNCHANGED <<limit, saved, failing, entry>>
PushFail == ~failing /\ depth = limit /\ failing' = TRUE /\ UNCHANGED <<depth, limit, saved, entry>>     \* "stack overflow" error raised
Pop      == depth > entry /\ depth' = depth - 1 /\ UNCHANGED <<limit, saved, failing, entry>>
\* the error (or the value) has reached the caller of the evaluation: everything entered has been left
Outcome  == depth = entry /\ failing' = FALSE /\ UNCHANGED <<depth, limit, saved, entry>>
\* limit_stack_depth(n): limit := depth + n until the guard is dropped
Override(n) == ~failing /\ Len(saved) < 2 /\ saved' = Append(saved, [limit |-> limit, entry |-> entry])
               /\ limit' = depth + n /\ entry' = depth /\ UNCHANGED <<depth, failing>>
Restore  == ~failing /\ saved # <<>> /\ depth = entry
            /\ limit' = saved[Len(saved)].limit /\ entry' = saved[Len(saved)].entry
            /\ saved' = SubSeq(saved, 1, Len(saved) - 1) /\ UNCHANGED <<depth, failing>>

Next == Push \/ PushFail \/ Pop \/ Outcome \/ (\E n \in 1..MaxLimit : Override(n)) \/ Restore
Spec == Init /\ [][Next]_vars

Bounded == depth <= limit /\ depth >= entry
\* after an outcome nothing stays entered
Balanced == [][Outcome => depth' = entry]_vars
\* recursion of n levels with at most k frames per level fits when k * n < limit, and cannot fit when n > limit
MustSucceed(n, k, lim) == k * n < lim
MustFail(n, lim) == n > lim
=============================================================================
