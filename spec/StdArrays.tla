----------------------------- MODULE StdArrays -----------------------------
(***************************************************************************)
(* C10 — array, set and higher-order standard-library functions, written   *)
(* from their documented definitions (std.jsonnet reference semantics)     *)
(* over the tagged values of Values.tla.  Each Call(f, args) yields        *)
(*   [k |-> "val", v |-> value] | [k |-> "err"] | [k |-> "unspec"]         *)
(* "unspec": the documentation does not determine the outcome for this     *)
(* argument shape (only crash-freedom is required of the implementation).  *)
(***************************************************************************)
EXTENDS Values, Json

Ok(v) == [k |-> "val", v |-> v]
Err == [k |-> "err"]
Unspec == [k |-> "unspec"]
IsOk(r) == r.k = "val"

\* ------------------------------------------------------------------ ordering of values (as `<` defines it)
Orderable(v) == v.t \in {"num", "str", "arr"}
RECURSIVE Cmp(_, _)
\* -1 / 0 / 1, or 2 = incomparable
Cmp(x, y) ==
  IF x.t = "num" /\ y.t = "num" THEN (IF x.n < y.n THEN 0 - 1 ELSE IF x.n = y.n THEN 0 ELSE 1)
  ELSE IF x.t = "str" /\ y.t = "str" THEN (IF x.s = y.s THEN 0 ELSE IF SeqLess(x.s, y.s) THEN 0 - 1 ELSE 1)
  ELSE IF x.t = "arr" /\ y.t = "arr" THEN
       LET F[i \in 1..(Len(x.a) + 1)] ==
             IF i > Len(x.a) THEN (IF Len(x.a) < Len(y.a) THEN 0 - 1 ELSE 0)
             ELSE IF i > Len(y.a) THEN 1
             ELSE LET c == Cmp(x.a[i], y.a[i]) IN IF c = 0 THEN F[i + 1] ELSE c
       IN F[1]
  ELSE 2

\* ------------------------------------------------------------------ the pool of user functions
\* unary: applied to one value
Apply1(f, x) ==
  CASE f = "id"      -> Ok(x)
    [] f = "neg"     -> IF x.t = "num" THEN Ok(VNum(0 - x.n)) ELSE Err
    [] f = "mod2"    -> IF x.t = "num" THEN Ok(VNum(IF x.n >= 0 THEN x.n % 2 ELSE 0 - ((0 - x.n) % 2))) ELSE Err
    [] f = "const"   -> Ok(VNum(0))
    [] f = "len"     -> IF x.t = "str" THEN Ok(VNum(Len(x.s))) ELSE IF x.t = "arr" THEN Ok(VNum(Len(x.a))) ELSE Err
    [] f = "partial" -> IF x = VNum(1) THEN Err ELSE Ok(x)
    [] f = "wrap"    -> Ok(VArr(<<x>>))
    [] f = "dup"     -> Ok(VArr(<<x, x>>))
    [] f = "isnum"   -> Ok(VBool(x.t = "num"))
    [] f = "gt1"     -> IF x.t = "num" THEN Ok(VBool(x.n > 1)) ELSE Err
    [] f = "true"    -> Ok(VBool(TRUE))
    [] f = "one"     -> Ok(VNum(1))
\* binary: foldl calls func(acc, x), foldr calls func(x, acc)
Apply2(f, p, q) ==
  CASE f = "add"   -> IF p.t = "num" /\ q.t = "num" THEN Ok(VNum(p.n + q.n))
                      ELSE IF p.t = "arr" /\ q.t = "arr" THEN Ok(VArr(p.a \o q.a)) ELSE Unspec
    [] f = "pair"  -> Ok(VArr(<<p, q>>))
    [] f = "first" -> Ok(p)
    [] f = "sub"   -> IF p.t = "num" /\ q.t = "num" THEN Ok(VNum(p.n - q.n)) ELSE Err

RECURSIVE MapSeq(_, _)
\* apply f to every element: Ok(<<...>>) or the first failure
MapSeq(f, xs) ==
  IF xs = <<>> THEN Ok(<<>>)
  ELSE LET h == Apply1(f, Head(xs)) IN
       IF ~IsOk(h) THEN h
       ELSE LET t == MapSeq(f, Tail(xs)) IN IF ~IsOk(t) THEN t ELSE Ok(<<h.v>> \o t.v)

\* ------------------------------------------------------------------ sorting (stable, by key)
\* keys mutually comparable?
AllComparable(ks) == \A i, j \in 1..Len(ks) : Cmp(ks[i], ks[j]) # 2
RECURSIVE InsertBy(_, _, _, _)
\* insert (x, kx) after all elements with key <= kx : stable insertion
InsertBy(x, kx, xs, ks) ==
  IF xs = <<>> THEN [xs |-> <<x>>, ks |-> <<kx>>]
  ELSE IF Cmp(kx, Head(ks)) < 0 THEN [xs |-> <<x>> \o xs, ks |-> <<kx>> \o ks]
  ELSE LET r == InsertBy(x, kx, Tail(xs), Tail(ks)) IN [xs |-> <<Head(xs)>> \o r.xs, ks |-> <<Head(ks)>> \o r.ks]
RECURSIVE SortBy(_, _)
SortBy(xs, ks) ==
  IF xs = <<>> THEN [xs |-> <<>>, ks |-> <<>>]
  ELSE LET r == SortBy(SubSeq(xs, 1, Len(xs) - 1), SubSeq(ks, 1, Len(ks) - 1)) IN
       InsertBy(xs[Len(xs)], ks[Len(ks)], r.xs, r.ks)
\* The result of sorting is THE stable ordered permutation; its defining property, checked by TLC:
SortedStable(xs, ks, res) ==
  /\ Len(res.xs) = Len(xs)
  /\ \A i \in 1..(Len(res.ks) - 1) : Cmp(res.ks[i], res.ks[i + 1]) <= 0
  /\ \E p \in [1..Len(xs) -> 1..Len(xs)] :
       /\ \A i, j \in 1..Len(xs) : i # j => p[i] # p[j]
       /\ \A i \in 1..Len(xs) : res.xs[i] = xs[p[i]] /\ res.ks[i] = ks[p[i]]
       /\ \A i, j \in 1..Len(xs) : (i < j /\ Cmp(res.ks[i], res.ks[j]) = 0) => p[i] < p[j]

\* keys of xs under keyF; decided only when the keys are all numbers, all strings or all arrays
KeysOf(keyF, xs) == MapSeq(keyF, xs)
SortDecided(ks) == Len(ks) <= 1 \/ (\A i \in 1..Len(ks) : Orderable(ks[i]))
Sort(xs, keyF) ==
  LET k == KeysOf(keyF, xs) IN
  IF Len(xs) <= 1 THEN (IF IsOk(k) THEN Ok(VArr(xs)) ELSE Unspec)   \* nothing to compare
  ELSE IF ~IsOk(k) THEN Err
  ELSE IF ~SortDecided(k.v) THEN Unspec
  ELSE IF ~AllComparable(k.v) THEN Err
  ELSE Ok(VArr(SortBy(xs, k.v).xs))

RECURSIVE UniqBy(_, _)
\* drop elements whose key equals the key of the previous kept element
UniqBy(xs, ks) ==
  IF Len(xs) <= 1 THEN [xs |-> xs, ks |-> ks]
  ELSE LET r == UniqBy(SubSeq(xs, 1, Len(xs) - 1), SubSeq(ks, 1, Len(ks) - 1)) IN
       IF r.ks[Len(r.ks)] = ks[Len(ks)] THEN r
       ELSE [xs |-> Append(r.xs, xs[Len(xs)]), ks |-> Append(r.ks, ks[Len(ks)])]
Uniq(xs, keyF) ==
  LET k == KeysOf(keyF, xs) IN
  IF ~IsOk(k) THEN (IF Len(xs) <= 1 THEN Unspec ELSE Err) ELSE Ok(VArr(UniqBy(xs, k.v).xs))
SetOf(xs, keyF) ==
  LET s == Sort(xs, keyF) IN
  IF ~IsOk(s) THEN s ELSE Uniq(s.v.a, keyF)

\* is xs a set under keyF (keys strictly ascending)?
IsSet(xs, keyF) ==
  LET k == KeysOf(keyF, xs) IN
  IsOk(k) /\ SortDecided(k.v) /\ AllComparable(k.v) /\ \A i \in 1..(Len(k.v) - 1) : Cmp(k.v[i], k.v[i + 1]) < 0

\* set operations on sets a, b under keyF (undecided on inputs that are not sets)
SetOp(op, a, b, keyF) ==
  IF ~IsSet(a, keyF) \/ ~IsSet(b, keyF) THEN Unspec
  ELSE LET ka == KeysOf(keyF, a).v kb == KeysOf(keyF, b).v
           inB(i) == \E j \in 1..Len(kb) : kb[j] = ka[i]
           inA(j) == \E i \in 1..Len(ka) : ka[i] = kb[j]
           selA(P(_)) == LET idx == SelectSeq([i \in 1..Len(a) |-> i], P) IN [i \in 1..Len(idx) |-> a[idx[i]]]
       IN CASE op = "inter" -> Ok(VArr(selA(LAMBDA i : inB(i))))
            [] op = "diff"  -> Ok(VArr(selA(LAMBDA i : ~inB(i))))
            [] op = "union" ->
                 \* all of a plus the elements of b whose key is not in a, ordered by key
                 LET bIdx == SelectSeq([j \in 1..Len(b) |-> j], LAMBDA j : ~inA(j))
                     extra == [i \in 1..Len(bIdx) |-> b[bIdx[i]]]
                     all == a \o extra
                     keys == KeysOf(keyF, all) IN
                 IF ~AllComparable(keys.v) THEN Err ELSE Ok(VArr(SortBy(all, keys.v).xs))
SetMember(x, s, keyF) ==
  IF ~IsSet(s, keyF) THEN Unspec
  ELSE LET kx == Apply1(keyF, x) IN
       IF ~IsOk(kx) THEN Err
       ELSE LET ks == KeysOf(keyF, s).v IN
            IF Len(ks) > 0 /\ Cmp(kx.v, ks[1]) = 2 THEN Unspec      \* key of another type than the set's
            ELSE Ok(VBool(\E i \in 1..Len(ks) : ks[i] = kx.v))

\* ------------------------------------------------------------------ searching / removing
Count(xs, x) == Cardinality({i \in 1..Len(xs) : xs[i] = x})
Find(x, xs) == LET idx == SelectSeq([i \in 1..Len(xs) |-> i], LAMBDA i : xs[i] = x) IN [i \in 1..Len(idx) |-> VNum(idx[i] - 1)]
RemoveAtSeq(xs, i) == IF i < 0 \/ i >= Len(xs) THEN xs ELSE SubSeq(xs, 1, i) \o SubSeq(xs, i + 2, Len(xs))
RemoveFirst(xs, x) == IF \E i \in 1..Len(xs) : xs[i] = x
                      THEN RemoveAtSeq(xs, (CHOOSE i \in 1..Len(xs) : xs[i] = x /\ \A j \in 1..(i - 1) : xs[j] # x) - 1)
                      ELSE xs
RECURSIVE IsSubAt(_, _, _)
IsSubAt(s, p, i) == i + Len(p) - 1 <= Len(s) /\ SubSeq(s, i, i + Len(p) - 1) = p

\* ------------------------------------------------------------------ flattening / joining
RECURSIVE FlattenDeep(_)
FlattenDeep(v) == IF v.t = "arr" THEN Concat([i \in 1..Len(v.a) |-> FlattenDeep(v.a[i])]) ELSE <<v>>
RECURSIVE DeepJoin(_)
DeepJoin(v) ==
  IF v.t = "str" THEN Ok(v.s)
  ELSE IF v.t = "arr"
       THEN LET parts == [i \in 1..Len(v.a) |-> DeepJoin(v.a[i])] IN
            IF \E i \in 1..Len(parts) : ~IsOk(parts[i]) THEN Err ELSE Ok(Concat([i \in 1..Len(parts) |-> parts[i].v]))
       ELSE Err
\* std.join(sep, arr): null elements are skipped; all others must have the type of sep
JoinV(sep, xs) ==
  LET keep == SelectSeq(xs, LAMBDA x : x.t # "null") IN
  IF sep.t = "str"
  THEN IF \E i \in 1..Len(keep) : keep[i].t # "str" THEN Err
       ELSE Ok(VStr(Join(sep.s, [i \in 1..Len(keep) |-> keep[i].s])))
  ELSE IF sep.t = "arr"
  THEN IF \E i \in 1..Len(keep) : keep[i].t # "arr" THEN Err
       ELSE Ok(VArr(Join(sep.a, [i \in 1..Len(keep) |-> keep[i].a])))
  ELSE Err

\* ------------------------------------------------------------------ folds and maps with user functions
RECURSIVE Foldl(_, _, _), Foldr(_, _, _)
Foldl(f, xs, acc) ==
  IF xs = <<>> THEN Ok(acc)
  ELSE LET r == Apply2(f, acc, Head(xs)) IN IF ~IsOk(r) THEN r ELSE Foldl(f, Tail(xs), r.v)
Foldr(f, xs, acc) ==
  IF xs = <<>> THEN Ok(acc)
  ELSE LET r == Apply2(f, xs[Len(xs)], acc) IN IF ~IsOk(r) THEN r ELSE Foldr(f, SubSeq(xs, 1, Len(xs) - 1), r.v)
RECURSIVE FilterSeq(_, _)
FilterSeq(p, xs) ==
  IF xs = <<>> THEN Ok(<<>>)
  ELSE LET h == Apply1(p, Head(xs)) IN
       IF ~IsOk(h) THEN h
       ELSE IF h.v.t # "bool" THEN Err
       ELSE LET t == FilterSeq(p, Tail(xs)) IN
            IF ~IsOk(t) THEN t ELSE Ok((IF h.v.b THEN <<Head(xs)>> ELSE <<>>) \o t.v)

AllNums(xs) == \A i \in 1..Len(xs) : xs[i].t = "num"
RECURSIVE SumSeq(_)
SumSeq(xs) == IF xs = <<>> THEN 0 ELSE Head(xs).n + SumSeq(Tail(xs))
\* minimum / maximum by key: the first element whose key is minimal (maximal)
Extreme(xs, keyF, sign) ==
  LET k == KeysOf(keyF, xs) IN
  IF ~IsOk(k) THEN Err
  ELSE IF ~SortDecided(k.v) THEN Unspec
  ELSE IF ~AllComparable(k.v) THEN Err
  ELSE LET best == CHOOSE i \in 1..Len(xs) :
                     /\ \A j \in 1..Len(xs) : sign * Cmp(k.v[i], k.v[j]) <= 0
                     /\ \A j \in 1..(i - 1) : Cmp(k.v[i], k.v[j]) # 0
       IN Ok(xs[best])

\* ------------------------------------------------------------------ the calls
\* c = [f |-> function name, a |-> array argument (sequence), x |-> value argument, g |-> user function tag,
\*      b |-> second array, n |-> integer argument]
Call(c) ==
  CASE c.f = "sort"  -> Sort(c.a, c.g)
    [] c.f = "uniq"  -> Uniq(c.a, c.g)
    [] c.f = "set"   -> SetOf(c.a, c.g)
    [] c.f = "setMember" -> SetMember(c.x, c.a, c.g)
    [] c.f = "setUnion"  -> SetOp("union", c.a, c.b, c.g)
    [] c.f = "setInter"  -> SetOp("inter", c.a, c.b, c.g)
    [] c.f = "setDiff"   -> SetOp("diff", c.a, c.b, c.g)
    [] c.f = "member"    -> Ok(VBool(Count(c.a, c.x) > 0))
    [] c.f = "contains"  -> Ok(VBool(Count(c.a, c.x) > 0))
    [] c.f = "find"      -> Ok(VArr(Find(c.x, c.a)))
    [] c.f = "count"     -> Ok(VNum(Count(c.a, c.x)))
    [] c.f = "remove"    -> Ok(VArr(RemoveFirst(c.a, c.x)))
    [] c.f = "removeAt"  -> Ok(VArr(RemoveAtSeq(c.a, c.n)))
    [] c.f = "flattenArrays" ->
         IF \E i \in 1..Len(c.a) : c.a[i].t # "arr" THEN Err
         ELSE Ok(VArr(Concat([i \in 1..Len(c.a) |-> c.a[i].a])))
    [] c.f = "flattenDeepArray" -> Ok(VArr(FlattenDeep(VArr(c.a))))
    [] c.f = "foldl"     -> Foldl(c.g, c.a, c.x)
    [] c.f = "foldr"     -> Foldr(c.g, c.a, c.x)
    [] c.f = "map"       -> LET r == MapSeq(c.g, c.a) IN IF IsOk(r) THEN Ok(VArr(r.v)) ELSE r
    [] c.f = "mapWithIndex" ->     \* function(i, x) [i, x]
         Ok(VArr([i \in 1..Len(c.a) |-> VArr(<<VNum(i - 1), c.a[i]>>)]))
    [] c.f = "filter"    -> LET r == FilterSeq(c.g, c.a) IN IF IsOk(r) THEN Ok(VArr(r.v)) ELSE r
    [] c.f = "filterMap" ->        \* filter by c.g then map with "wrap"
         LET r == FilterSeq(c.g, c.a) IN
         IF ~IsOk(r) THEN r ELSE Ok(VArr([i \in 1..Len(r.v) |-> VArr(<<r.v[i]>>)]))
    [] c.f = "flatMap"   ->        \* c.g must return arrays ("wrap", "dup") or null
         LET r == MapSeq(c.g, c.a) IN
         IF ~IsOk(r) THEN r
         ELSE IF \E i \in 1..Len(r.v) : r.v[i].t \notin {"arr"} THEN Err
         ELSE Ok(VArr(Concat([i \in 1..Len(r.v) |-> r.v[i].a])))
    [] c.f = "join"      -> JoinV(c.x, c.a)
    [] c.f = "lines"     -> JoinV(VStr(<<10>>), c.a \o <<VStr(<<>>)>>)
    [] c.f = "deepJoin"  -> LET r == DeepJoin(VArr(c.a)) IN IF IsOk(r) THEN Ok(VStr(r.v)) ELSE r
    [] c.f = "any"       -> IF \E i \in 1..Len(c.a) : c.a[i].t # "bool" THEN Unspec
                            ELSE Ok(VBool(\E i \in 1..Len(c.a) : c.a[i].b))
    [] c.f = "all"       -> IF \E i \in 1..Len(c.a) : c.a[i].t # "bool" THEN Unspec
                            ELSE Ok(VBool(\A i \in 1..Len(c.a) : c.a[i].b))
    [] c.f = "sum"       -> IF AllNums(c.a) THEN Ok(VNum(SumSeq(c.a))) ELSE Err
    [] c.f = "avg"       -> IF ~AllNums(c.a) \/ c.a = <<>> THEN Err
                            ELSE IF SumSeq(c.a) % Len(c.a) = 0 THEN Ok(VNum(SumSeq(c.a) \div Len(c.a))) ELSE Unspec
    [] c.f = "minArray"  -> IF c.a = <<>> THEN Ok(c.x) ELSE Extreme(c.a, c.g, 1)     \* c.x = onEmpty
    [] c.f = "maxArray"  -> IF c.a = <<>> THEN Ok(c.x) ELSE Extreme(c.a, c.g, 0 - 1)
    [] c.f = "minArray0" -> IF c.a = <<>> THEN Err ELSE Extreme(c.a, c.g, 1)          \* no onEmpty given
    [] c.f = "range"     -> Ok(VArr(IF c.n < c.x.n THEN <<>> ELSE [i \in 1..(c.n - c.x.n + 1) |-> VNum(c.x.n + i - 1)]))
    [] c.f = "repeat"    -> IF c.n < 0 THEN Err
                            ELSE IF c.x.t = "arr" THEN Ok(VArr(Concat([i \in 1..c.n |-> c.x.a])))
                            ELSE IF c.x.t = "str" THEN Ok(VStr(Concat([i \in 1..c.n |-> c.x.s])))
                            ELSE Err
    [] c.f = "makeArray" -> IF c.n < 0 THEN Err
                            ELSE LET r == MapSeq(c.g, [i \in 1..c.n |-> VNum(i - 1)]) IN IF IsOk(r) THEN Ok(VArr(r.v)) ELSE r
=============================================================================
