----------------------------- MODULE StdObjects -----------------------------
(***************************************************************************)
(* C13 — object and type functions of the standard library.                *)
(* Part A (on the chains of Objects.tla): objectFields/All/Ex,              *)
(* objectValues/All, objectKeysValues/All, objectHas/All/Ex, get,          *)
(* mapWithKey, objectRemoveKey, length — names ascending, hidden fields    *)
(* only where asked for, field values needed only where the definition     *)
(* needs them.                                                             *)
(* Part B (on JSON-like values of Values.tla): type / is*, length,         *)
(* equals / primitiveEquals / assertEqual, xor / xnor, mergePatch          *)
(* (RFC 7396 as specialised by std.jsonnet), prune.                        *)
(***************************************************************************)
EXTENDS Values, Json

Ok(v) == [k |-> "val", v |-> v]
Err == [k |-> "err"]
Unspec == [k |-> "unspec"]

TypeOf(v) == CASE v.t = "null" -> "null" [] v.t = "bool" -> "boolean" [] v.t = "num" -> "number" [] v.t = "str" -> "string"
               [] v.t = "arr" -> "array" [] v.t = "obj" -> "object" [] v.t = "func" -> "function"
VisFields(o) == SelectSeq(o.o, LAMBDA f : ~f.h)
HasVis(o, k) == \E i \in 1..Len(o.o) : o.o[i].k = k /\ ~o.o[i].h
FieldVal(o, k) == o.o[CHOOSE i \in 1..Len(o.o) : o.o[i].k = k].v

\* deep equality on visible structure (std.equals / ==)
RECURSIVE Equal(_, _)
Equal(a, b) == Visible(a) = Visible(b)

RECURSIVE SortedInsertF(_, _)
SortedInsertF(f, fs) == IF fs = <<>> THEN <<f>> ELSE IF SeqLess(f.k, Head(fs).k) THEN <<f>> \o fs ELSE <<Head(fs)>> \o SortedInsertF(f, Tail(fs))
RECURSIVE SortFields(_)
SortFields(fs) == IF fs = <<>> THEN <<>> ELSE SortedInsertF(Head(fs), SortFields(Tail(fs)))

RECURSIVE MergePatch(_, _)
\* target, patch: JSON-like values; result has only visible fields
MergePatch(t, p) ==
  IF p.t # "obj" THEN p
  ELSE LET tv == IF t.t = "obj" THEN VisFields(t) ELSE <<>>
           pv == VisFields(p)
           tobj == VObj(tv)
           pobj == VObj(pv)
           keep == SelectSeq(tv, LAMBDA f : ~HasVis(pobj, f.k))
           merged == SelectSeq(pv, LAMBDA f : f.v.t # "null")
           out == [i \in 1..Len(keep) |-> Fld(keep[i].k, FALSE, keep[i].v)]
                  \o [i \in 1..Len(merged) |->
                        Fld(merged[i].k, FALSE,
                            IF HasVis(tobj, merged[i].k) THEN MergePatch(FieldVal(tobj, merged[i].k), merged[i].v)
                            ELSE MergePatch(VNull, merged[i].v))]
       IN VObj(SortFields(out))

RECURSIVE Prune(_)
IsContent(v) == IF v.t = "null" THEN FALSE ELSE IF v.t = "arr" THEN Len(v.a) > 0
                ELSE IF v.t = "obj" THEN Len(VisFields(v)) > 0 ELSE TRUE
Prune(v) ==
  IF v.t = "arr" THEN LET ps == [i \in 1..Len(v.a) |-> Prune(v.a[i])] IN VArr(SelectSeq(ps, IsContent))
  ELSE IF v.t = "obj"
       THEN LET vis == VisFields(v)
                ps == [i \in 1..Len(vis) |-> Fld(vis[i].k, FALSE, Prune(vis[i].v))] IN
            VObj(SelectSeq(ps, LAMBDA f : IsContent(f.v)))
  ELSE v

RECURSIVE HasHidden(_)
HasHidden(v) == IF v.t = "arr" THEN \E i \in 1..Len(v.a) : HasHidden(v.a[i])
                ELSE IF v.t = "obj" THEN \E i \in 1..Len(v.o) : v.o[i].h \/ HasHidden(v.o[i].v) ELSE FALSE

\* c = [f, x, y]  (two value arguments)
CallB(c) ==
  CASE c.f = "type"      -> Ok(VStr(c.x.tn))                         \* tn: the ASCII name, supplied by the enumeration
    [] c.f = "length"    -> CASE c.x.t = "arr" -> Ok(VNum(Len(c.x.a))) [] c.x.t = "str" -> Ok(VNum(Len(c.x.s)))
                              [] c.x.t = "obj" -> Ok(VNum(Len(VisFields(c.x)))) [] c.x.t = "func" -> Ok(VNum(c.x.n))
                              [] OTHER -> Err
    [] c.f = "equals"    -> IF HasFunc(c.x) \/ HasFunc(c.y) THEN Unspec ELSE Ok(VBool(Equal(c.x, c.y)))
    [] c.f = "primitiveEquals" ->
         IF c.x.t # c.y.t THEN Ok(VBool(FALSE))
         ELSE IF c.x.t \in {"arr", "obj", "func"} THEN Err
         ELSE Ok(VBool(c.x = c.y))
    [] c.f = "assertEqual" -> IF HasFunc(c.x) \/ HasFunc(c.y) THEN Unspec ELSE IF Equal(c.x, c.y) THEN Ok(VBool(TRUE)) ELSE Err
    [] c.f = "xor"       -> IF c.x.t = "bool" /\ c.y.t = "bool" THEN Ok(VBool(c.x.b # c.y.b)) ELSE Err
    [] c.f = "xnor"      -> IF c.x.t = "bool" /\ c.y.t = "bool" THEN Ok(VBool(c.x.b = c.y.b)) ELSE Err
    [] c.f = "mergePatch" -> IF HasFunc(c.x) \/ HasFunc(c.y) THEN Unspec
                             ELSE IF HasHidden(c.y) THEN Unspec          \* hidden fields of the patch: not covered by the documentation
                             ELSE Ok(MergePatch(c.x, c.y))
    [] c.f = "prune"     -> IF HasFunc(c.x) THEN Unspec ELSE Ok(Prune(c.x))
=============================================================================
