-------------------------------- MODULE StdSig --------------------------------
(* C04: every tuple of boundary-value kinds for standard-library calls of arity 1..3.  The pool indexes   *)
(* refer to the boundary values owned by the driver; TLC supplies the cross product so that every         *)
(* function (taken from the implementation's own std object) meets every combination.                     *)
EXTENDS Naturals, Sequences, TLC, Json
CONSTANTS Pool1, Pool3           \* sizes of the full pool (arity 1, 2) and of the reduced pool (arity 3)
VARIABLE st
Init == st \in {[n |-> 1, a |-> <<i>>] : i \in 1..Pool1}
Next == \/ (st.n = 1 /\ \E j \in 1..Pool1 : st' = [n |-> 2, a |-> <<st.a[1], j>>])
        \/ (st.n = 2 /\ st.a[1] <= Pool3 /\ st.a[2] <= Pool3 /\ \E j \in 1..Pool3 : st' = [n |-> 3, a |-> <<st.a[1], st.a[2], j>>])
Emit == PrintT("REPLAY " \o ToJson([fam |-> "stdsig", n |-> st.n, a |-> st.a]))
===============================================================================
