----------------------------- MODULE StdStrings -----------------------------
(***************************************************************************)
(* C11 — string, encoding and parsing functions of the standard library,   *)
(* written from their documented definitions.  Strings are sequences of    *)
(* Unicode code points: every count and index is in code points.           *)
(* Call(c) yields [k |-> "val", v] | [k |-> "err"] | [k |-> "unspec"] |    *)
(* [k |-> "anyval"] (must be a value, which one is not decided).           *)
(***************************************************************************)
EXTENDS JsonText

Ok(v) == [k |-> "val", v |-> v]
Err == [k |-> "err"]
Unspec == [k |-> "unspec"]
AnyVal == [k |-> "anyval"]

StartsWithAt(s, p, i) == i + Len(p) - 1 <= Len(s) /\ SubSeq(s, i, i + Len(p) - 1) = p
Min(a, b) == IF a < b THEN a ELSE b

\* ------------------------------------------------------------------ splitting / replacing / searching
RECURSIVE SplitL(_, _, _, _)
\* split s at separator c, at most n times from the left (n < 0: unlimited); cur = current piece
SplitL(s, c, n, cur) ==
  IF s = <<>> THEN <<cur>>
  ELSE IF n # 0 /\ StartsWithAt(s, c, 1)
       THEN <<cur>> \o SplitL(SubSeq(s, Len(c) + 1, Len(s)), c, IF n < 0 THEN n ELSE n - 1, <<>>)
       ELSE SplitL(Tail(s), c, n, Append(cur, Head(s)))
RECURSIVE RevSeq(_)
RevSeq(s) == IF s = <<>> THEN <<>> ELSE RevSeq(Tail(s)) \o <<Head(s)>>
\* at most n splits from the right: split the reversed string by the reversed separator
SplitR(s, c, n) == LET r == SplitL(RevSeq(s), RevSeq(c), n, <<>>) IN [i \in 1..Len(r) |-> RevSeq(r[Len(r) + 1 - i])]

RECURSIVE Replace(_, _, _)
\* all non-overlapping occurrences, left to right
Replace(s, from, to) ==
  IF s = <<>> THEN <<>>
  ELSE IF StartsWithAt(s, from, 1) THEN to \o Replace(SubSeq(s, Len(from) + 1, Len(s)), from, to)
  ELSE <<Head(s)>> \o Replace(Tail(s), from, to)

\* all (also overlapping) start indexes, 0-based
FindAll(pat, s) == IF pat = <<>> THEN <<>>
                   ELSE LET idx == SelectSeq([i \in 1..Len(s) |-> i], LAMBDA i : StartsWithAt(s, pat, i)) IN
                        [i \in 1..Len(idx) |-> VNum(idx[i] - 1)]

RECURSIVE LStrip(_, _), RStrip(_, _)
In(c, chars) == \E i \in 1..Len(chars) : chars[i] = c
LStrip(s, chars) == IF s # <<>> /\ In(Head(s), chars) THEN LStrip(Tail(s), chars) ELSE s
RStrip(s, chars) == IF s # <<>> /\ In(s[Len(s)], chars) THEN RStrip(SubSeq(s, 1, Len(s) - 1), chars) ELSE s
Whitespace == <<32, 9, 10, 12, 13, 133, 160>>

Upper(c) == IF c >= 97 /\ c <= 122 THEN c - 32 ELSE c
Lower(c) == IF c >= 65 /\ c <= 90 THEN c + 32 ELSE c

\* ------------------------------------------------------------------ escaping
XmlEsc(c) == CASE c = 60 -> <<38, 108, 116, 59>> [] c = 62 -> <<38, 103, 116, 59>> [] c = 38 -> <<38, 97, 109, 112, 59>>
               [] c = 34 -> <<38, 113, 117, 111, 116, 59>> [] c = 39 -> <<38, 97, 112, 111, 115, 59>> [] OTHER -> <<c>>
BashEsc(c) == IF c = 39 THEN <<39, 34, 39, 34, 39>> ELSE <<c>>
DollarEsc(c) == IF c = 36 THEN <<36, 36>> ELSE <<c>>

\* ------------------------------------------------------------------ number parsing
DigitVal(c) == IF c >= 48 /\ c <= 57 THEN c - 48 ELSE IF c >= 97 /\ c <= 102 THEN c - 87
               ELSE IF c >= 65 /\ c <= 70 THEN c - 55 ELSE 99
RECURSIVE ParseNat(_, _, _)
\* value of the digit string in the base, or -1 when a character is not a digit of that base / empty
ParseNat(s, base, acc) ==
  IF s = <<>> THEN acc
  ELSE IF DigitVal(Head(s)) >= base THEN 0 - 1
  ELSE IF acc > 100000000 THEN 0 - 2                                  \* beyond the model's integers
  ELSE ParseNat(Tail(s), base, acc * base + DigitVal(Head(s)))
ParseNumber(s, base, signed) ==
  LET neg == signed /\ s # <<>> /\ Head(s) = 45
      body == IF neg THEN Tail(s) ELSE s IN
  IF body = <<>> THEN Err
  ELSE LET n == ParseNat(body, base, 0) IN
       IF n = 0 - 1 THEN Err ELSE IF n = 0 - 2 THEN Unspec ELSE Ok(VNum(IF neg THEN 0 - n ELSE n))

\* ------------------------------------------------------------------ codecs
Utf8Bytes(c) ==
  IF c < 128 THEN <<c>>
  ELSE IF c < 2048 THEN <<192 + (c \div 64), 128 + (c % 64)>>
  ELSE IF c < 65536 THEN <<224 + (c \div 4096), 128 + ((c \div 64) % 64), 128 + (c % 64)>>
  ELSE <<240 + (c \div 262144), 128 + ((c \div 4096) % 64), 128 + ((c \div 64) % 64), 128 + (c % 64)>>
EncodeUtf8(s) == Concat([i \in 1..Len(s) |-> Utf8Bytes(s[i])])
IsCont(b) == b >= 128 /\ b <= 191
RECURSIVE DecodeUtf8(_)
\* strict decoder: [ok, s]; invalid sequences (also overlong forms and surrogates) make it fail
DecodeUtf8(bs) ==
  IF bs = <<>> THEN [ok |-> TRUE, s |-> <<>>]
  ELSE LET b == Head(bs)
           n == IF b < 128 THEN 1 ELSE IF b >= 194 /\ b <= 223 THEN 2 ELSE IF b >= 224 /\ b <= 239 THEN 3
                ELSE IF b >= 240 /\ b <= 244 THEN 4 ELSE 0 IN
       IF n = 0 \/ Len(bs) < n \/ (\E i \in 2..n : ~IsCont(bs[i])) THEN [ok |-> FALSE, lax |-> FALSE]
       ELSE LET cp == CASE n = 1 -> b
                        [] n = 2 -> (b - 192) * 64 + (bs[2] - 128)
                        [] n = 3 -> (b - 224) * 4096 + (bs[2] - 128) * 64 + (bs[3] - 128)
                        [] n = 4 -> (b - 240) * 262144 + (bs[2] - 128) * 4096 + (bs[3] - 128) * 64 + (bs[4] - 128)
                rest == DecodeUtf8(SubSeq(bs, n + 1, Len(bs))) IN
            IF (n = 3 /\ cp < 2048) \/ (n = 4 /\ cp < 65536) \/ cp > 1114111 \/ (cp >= 55296 /\ cp <= 57343) THEN [ok |-> FALSE, lax |-> FALSE]
            ELSE IF ~rest.ok THEN [ok |-> FALSE, lax |-> FALSE] ELSE [ok |-> TRUE, s |-> <<cp>> \o rest.s]

B64Char(i) == IF i < 26 THEN 65 + i ELSE IF i < 52 THEN 97 + (i - 26) ELSE IF i < 62 THEN 48 + (i - 52)
              ELSE IF i = 62 THEN 43 ELSE 47
B64Val(c) == IF c >= 65 /\ c <= 90 THEN c - 65 ELSE IF c >= 97 /\ c <= 122 THEN c - 71
             ELSE IF c >= 48 /\ c <= 57 THEN c + 4 ELSE IF c = 43 THEN 62 ELSE IF c = 47 THEN 63 ELSE 99
RECURSIVE B64Encode(_)
B64Encode(bs) ==
  IF bs = <<>> THEN <<>>
  ELSE IF Len(bs) = 1 THEN <<B64Char(bs[1] \div 4), B64Char((bs[1] % 4) * 16), 61, 61>>
  ELSE IF Len(bs) = 2 THEN <<B64Char(bs[1] \div 4), B64Char((bs[1] % 4) * 16 + (bs[2] \div 16)), B64Char((bs[2] % 16) * 4), 61>>
  ELSE <<B64Char(bs[1] \div 4), B64Char((bs[1] % 4) * 16 + (bs[2] \div 16)),
         B64Char((bs[2] % 16) * 4 + (bs[3] \div 64)), B64Char(bs[3] % 64)>> \o B64Encode(SubSeq(bs, 4, Len(bs)))
RECURSIVE B64Decode(_)
\* RFC 4648 with mandatory padding: [ok, bs]
B64Decode(s) ==
  IF s = <<>> THEN [ok |-> TRUE, bs |-> <<>>]
  ELSE IF Len(s) < 4 THEN [ok |-> FALSE, lax |-> FALSE]
  ELSE LET a == B64Val(s[1]) b == B64Val(s[2]) c == B64Val(s[3]) d == B64Val(s[4]) last == Len(s) = 4 IN
       IF a = 99 \/ b = 99 THEN [ok |-> FALSE, lax |-> FALSE]
       ELSE IF s[3] = 61 /\ s[4] = 61
            THEN IF last /\ (b % 16) = 0 THEN [ok |-> TRUE, bs |-> <<a * 4 + (b \div 16)>>]
                 ELSE [ok |-> FALSE, lax |-> last]             \* non-zero trailing bits: decoders may accept (RFC 4648 3.5)
       ELSE IF c = 99 THEN [ok |-> FALSE, lax |-> FALSE]
       ELSE IF s[4] = 61
            THEN IF last /\ (c % 4) = 0 THEN [ok |-> TRUE, bs |-> <<a * 4 + (b \div 16), (b % 16) * 16 + (c \div 4)>>]
                 ELSE [ok |-> FALSE, lax |-> last]
       ELSE IF d = 99 THEN [ok |-> FALSE, lax |-> FALSE]
       ELSE LET rest == B64Decode(SubSeq(s, 5, Len(s))) IN
            IF ~rest.ok THEN rest
            ELSE [ok |-> TRUE, bs |-> <<a * 4 + (b \div 16), (b % 16) * 16 + (c \div 4), (c % 4) * 64 + d>> \o rest.bs]

StrArr(ss) == VArr([i \in 1..Len(ss) |-> VStr(ss[i])])
NumArr(ns) == VArr([i \in 1..Len(ns) |-> VNum(ns[i])])

\* ------------------------------------------------------------------ the calls
\* c = [f, s (string), p (second string), q (third string), n, m (integers), bs (byte sequence)]
Call(c) ==
  CASE c.f = "length"     -> Ok(VNum(Len(c.s)))
    [] c.f = "substr"     -> IF c.n < 0 \/ c.m < 0 THEN Err
                             ELSE Ok(VStr(SubSeq(c.s, Min(c.n, Len(c.s)) + 1, Min(c.n + c.m, Len(c.s)))))
    [] c.f = "split"      -> IF c.p = <<>> THEN Err ELSE Ok(StrArr(SplitL(c.s, c.p, 0 - 1, <<>>)))
    [] c.f = "splitLimit" -> IF c.p = <<>> THEN Err ELSE IF c.n < 0 - 1 THEN Unspec ELSE Ok(StrArr(SplitL(c.s, c.p, c.n, <<>>)))
    [] c.f = "splitLimitR" -> IF c.p = <<>> THEN Err ELSE IF c.n < 0 - 1 THEN Unspec
                              ELSE IF c.n = 0 - 1 THEN Ok(StrArr(SplitL(c.s, c.p, 0 - 1, <<>>)))   \* unlimited: defined as splitLimit
                              ELSE Ok(StrArr(SplitR(c.s, c.p, c.n)))
    [] c.f = "strReplace" -> IF c.p = <<>> THEN Err ELSE Ok(VStr(Replace(c.s, c.p, c.q)))
    [] c.f = "findSubstr" -> Ok(VArr(FindAll(c.p, c.s)))
    [] c.f = "startsWith" -> Ok(VBool(StartsWithAt(c.s, c.p, 1)))
    [] c.f = "endsWith"   -> Ok(VBool(Len(c.p) <= Len(c.s) /\ SubSeq(c.s, Len(c.s) - Len(c.p) + 1, Len(c.s)) = c.p))
    [] c.f = "stripChars"  -> Ok(VStr(RStrip(LStrip(c.s, c.p), c.p)))
    [] c.f = "lstripChars" -> Ok(VStr(LStrip(c.s, c.p)))
    [] c.f = "rstripChars" -> Ok(VStr(RStrip(c.s, c.p)))
    [] c.f = "trim"        -> Ok(VStr(RStrip(LStrip(c.s, Whitespace), Whitespace)))
    [] c.f = "asciiUpper"  -> Ok(VStr([i \in 1..Len(c.s) |-> Upper(c.s[i])]))
    [] c.f = "asciiLower"  -> Ok(VStr([i \in 1..Len(c.s) |-> Lower(c.s[i])]))
    [] c.f = "stringChars" -> Ok(StrArr([i \in 1..Len(c.s) |-> <<c.s[i]>>]))
    [] c.f = "codepoint"   -> IF Len(c.s) = 1 THEN Ok(VNum(c.s[1])) ELSE Err
    [] c.f = "char"        -> IF c.n < 0 \/ c.n > 1114111 \/ (c.n >= 55296 /\ c.n <= 57343) THEN Err ELSE Ok(VStr(<<c.n>>))
    [] c.f = "equalsIgnoreCase" -> Ok(VBool([i \in 1..Len(c.s) |-> Lower(c.s[i])] = [i \in 1..Len(c.p) |-> Lower(c.p[i])]))
    [] c.f = "isEmpty"     -> Ok(VBool(c.s = <<>>))
    [] c.f = "escapeStringJson"   -> Ok(VStr(WriteString(c.s)))
    [] c.f = "escapeStringPython" -> Ok(VStr(WriteString(c.s)))
    [] c.f = "escapeStringBash"   -> Ok(VStr(<<39>> \o Concat([i \in 1..Len(c.s) |-> BashEsc(c.s[i])]) \o <<39>>))
    [] c.f = "escapeStringDollars" -> Ok(VStr(Concat([i \in 1..Len(c.s) |-> DollarEsc(c.s[i])])))
    [] c.f = "escapeStringXML"    -> Ok(VStr(Concat([i \in 1..Len(c.s) |-> XmlEsc(c.s[i])])))
    [] c.f = "parseInt"    -> ParseNumber(c.s, 10, TRUE)
    [] c.f = "parseOctal"  -> ParseNumber(c.s, 8, FALSE)
    [] c.f = "parseHex"    -> ParseNumber(c.s, 16, FALSE)
    [] c.f = "encodeUTF8"  -> Ok(NumArr(EncodeUtf8(c.s)))
    [] c.f = "decodeUTF8"  -> LET d == DecodeUtf8(c.bs) IN IF d.ok THEN Ok(VStr(d.s)) ELSE AnyVal   \* lossy: U+FFFD, count undecided
    [] c.f = "base64"      -> Ok(VStr(B64Encode(EncodeUtf8(c.s))))
    [] c.f = "base64Bytes" -> Ok(VStr(B64Encode(c.bs)))
    [] c.f = "base64DecodeBytes" -> LET d == B64Decode(c.s) IN IF d.ok THEN Ok(NumArr(d.bs)) ELSE IF d.lax THEN Unspec ELSE Err
    [] c.f = "base64Decode" ->
         LET d == B64Decode(c.s) IN
         IF ~d.ok THEN (IF d.lax THEN Unspec ELSE Err)
         ELSE IF \A i \in 1..Len(d.bs) : d.bs[i] < 128 THEN Ok(VStr(d.bs)) ELSE Unspec   \* bytes >= 0x80: Latin-1 vs UTF-8
    [] c.f = "parseJson"   -> LET r == Reader(c.s) IN IF r.ok THEN (IF r.v.t = "numtext" THEN Unspec ELSE Ok(r.v)) ELSE Err
    \* YAML is a superset of JSON: on a JSON text parseYaml gives what parseJson gives; other texts are not decided here
    [] c.f = "parseYaml"   -> LET r == Reader(c.s) IN IF r.ok /\ r.v.t # "numtext" THEN Ok(r.v) ELSE Unspec
=============================================================================
