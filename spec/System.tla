------------------------------- MODULE System -------------------------------
(***************************************************************************)
(* The composed view of one interpreter thread, as an embedder (the        *)
(* command line, the C library, a host program) drives it.  The components *)
(* specified separately - frame counter and idle state (Stack, Total), the *)
(* per-State file cache (Imports), the collector (Gc), determinism (the    *)
(* memo of Determinism) and the pipeline of Cli - share the variables      *)
(* below; every action is one step the implementation takes and the hooks  *)
(* report.                                                                 *)
(*                                                                         *)
(*   NewState / DropState   lifetime of an evaluation state (file cache)   *)
(*   Enter / Leave          the state is current on the thread             *)
(*   Begin(p) ... End       one evaluation of program p; between them      *)
(*        Load(f), Hit(f), LoadFail(f)   import resolution through cache   *)
(*        Push / Pop                     frames                            *)
(*   Collect                cycle collection                               *)
(*                                                                         *)
(* Invariants (each is one of the listed properties seen from here):       *)
(*   IdleClean       C04/C16  nothing stays entered/pushed between runs    *)
(*   ReadOnce        C07      a file is read at most once per state        *)
(*   EnteredWhileRunning C15  evaluation happens with the state entered    *)
(*   Functional      C16      same program, same files => same outcome     *)
(*   Reclaimed       C18      after DropState and Collect nothing is left  *)
(* and the composition implements the component specifications (checked    *)
(* by TLC as refinement properties: TotalSpec, GcSpec).                    *)
(***************************************************************************)
EXTENDS Naturals, Sequences, FiniteSets, TLC

CONSTANTS Programs, Files, MaxRuns, MaxDepth
\* the fixed world: what a program imports (transitively, all forced), which files cannot be read (directory,
\* missing), which are read but fail when evaluated, and which programs fail by themselves (error, stack limit, assertion)
CONSTANTS ImportsOf, Unreadable, Failing, ErrPrograms

VARIABLES state,     \* "none" | "alive"
          entered, phase, cur, depth, asserting,
          cache,     \* file -> "absent" | "loaded" | "failed"   (per state)
          loads,     \* file -> reads in this state
          pendingImports, \* files the running program still has to import
          tracked, baseline, held,
          memo,      \* program -> outcome observed so far ("none" if never)
          runs
vars == <<state, entered, phase, cur, depth, asserting, cache, loads, pendingImports, tracked, baseline, held, memo, runs>>

OutcomeOf(p) == IF ImportsOf[p] \cap (Unreadable \cup Failing) # {} \/ p \in ErrPrograms THEN "err" ELSE "val"

Init == /\ state = "none" /\ entered = FALSE /\ phase = "idle" /\ cur = "none" /\ depth = 0 /\ asserting = 0
        /\ cache = [f \in Files |-> "absent"] /\ loads = [f \in Files |-> 0] /\ pendingImports = {}
        /\ tracked = 0 /\ baseline = 0 /\ held = 0 /\ memo = [p \in Programs |-> "none"] /\ runs = 0

NewState == /\ state = "none" /\ phase = "idle" /\ state' = "alive" /\ baseline' = tracked
            /\ cache' = [f \in Files |-> "absent"] /\ loads' = [f \in Files |-> 0]
            /\ UNCHANGED <<entered, phase, cur, depth, asserting, pendingImports, tracked, held, memo, runs>>
Enter == /\ state = "alive" /\ ~entered /\ phase = "idle" /\ entered' = TRUE
         /\ UNCHANGED <<state, phase, cur, depth, asserting, cache, loads, pendingImports, tracked, baseline, held, memo, runs>>
Leave == /\ entered /\ phase = "idle" /\ entered' = FALSE
         /\ UNCHANGED <<state, phase, cur, depth, asserting, cache, loads, pendingImports, tracked, baseline, held, memo, runs>>
Begin(p) == /\ entered /\ phase = "idle" /\ runs < MaxRuns
            /\ phase' = "running" /\ cur' = p /\ pendingImports' = ImportsOf[p] /\ runs' = runs + 1
            /\ tracked' = tracked + 1 /\ held' = held + 1               \* the evaluation allocates
            /\ UNCHANGED <<state, entered, depth, asserting, cache, loads, baseline, memo>>
\* first use of a file in this state reads it; a failed read is not remembered as content
Load(f) == /\ phase = "running" /\ f \in pendingImports /\ cache[f] # "loaded" /\ f \notin Unreadable
           /\ cache' = [cache EXCEPT ![f] = "loaded"] /\ loads' = [loads EXCEPT ![f] = @ + 1]
           /\ pendingImports' = pendingImports \ {f}
           /\ UNCHANGED <<state, entered, phase, cur, depth, asserting, tracked, baseline, held, memo, runs>>
LoadFail(f) == /\ phase = "running" /\ f \in pendingImports /\ cache[f] # "loaded" /\ f \in Unreadable
               /\ cache' = [cache EXCEPT ![f] = "failed"]
               /\ pendingImports' = {}                                   \* the error unwinds the evaluation
               /\ UNCHANGED <<state, entered, phase, cur, depth, asserting, loads, tracked, baseline, held, memo, runs>>
\* any other error (a failing file, error / assert / stack limit in the program) unwinds the evaluation as well
Unwind == /\ phase = "running" /\ OutcomeOf(cur) = "err" /\ pendingImports' = {}
          /\ UNCHANGED <<state, entered, phase, cur, depth, asserting, cache, loads, tracked, baseline, held, memo, runs>>
\* later uses - in this evaluation or a later one on the same state - are served from the cache
Hit(f) == /\ phase = "running" /\ f \in ImportsOf[cur] /\ cache[f] = "loaded"
          /\ pendingImports' = pendingImports \ {f}
          /\ UNCHANGED <<state, entered, phase, cur, depth, asserting, cache, loads, tracked, baseline, held, memo, runs>>
Push == /\ phase = "running" /\ depth < MaxDepth /\ depth' = depth + 1
        /\ UNCHANGED <<state, entered, phase, cur, asserting, cache, loads, pendingImports, tracked, baseline, held, memo, runs>>
Pop == /\ phase = "running" /\ depth > 0 /\ depth' = depth - 1
       /\ UNCHANGED <<state, entered, phase, cur, asserting, cache, loads, pendingImports, tracked, baseline, held, memo, runs>>
\* the evaluation ends when every import was served (or one failed) and every frame was left
\* (a file whose value is already cached is not asked for its own imports again: what is still pending must be cached)
End == /\ phase = "running" /\ (\A f \in pendingImports : cache[f] = "loaded") /\ depth = 0
       /\ (memo[cur] = "none" \/ memo[cur] = OutcomeOf(cur))            \* Determinism.Observe
       /\ memo' = [memo EXCEPT ![cur] = OutcomeOf(cur)]
       /\ phase' = "idle" /\ cur' = "none" /\ asserting' = 0
       /\ pendingImports' = {}
       /\ UNCHANGED <<state, entered, depth, cache, loads, tracked, baseline, held, runs>>
DropState == /\ state = "alive" /\ ~entered /\ phase = "idle" /\ state' = "none" /\ held' = 0
             /\ UNCHANGED <<entered, phase, cur, depth, asserting, cache, loads, pendingImports, tracked, baseline, memo, runs>>
Collect == /\ state = "none" /\ held = 0 /\ tracked' = baseline
           /\ UNCHANGED <<state, entered, phase, cur, depth, asserting, cache, loads, pendingImports, baseline, held, memo, runs>>

Next == NewState \/ Enter \/ Leave \/ (\E p \in Programs : Begin(p)) \/ (\E f \in Files : Load(f) \/ LoadFail(f) \/ Hit(f))
        \/ Unwind \/ Push \/ Pop \/ End \/ DropState \/ Collect
Spec == Init /\ [][Next]_vars

IdleClean == phase = "idle" => (depth = 0 /\ asserting = 0)
ReadOnce == \A f \in Files : loads[f] <= 1
EnteredWhileRunning == phase = "running" => (entered /\ state = "alive")
Functional == [][\A p \in Programs : memo[p] # "none" => memo'[p] = memo[p]]_vars
Reclaimed == [][Collect => tracked' = baseline]_vars
\* a file that was read stays readable from the cache: no second read, whatever happens in between
CacheMonotone == [][\A f \in Files : cache[f] = "loaded" => cache'[f] = "loaded" \/ (state' = "alive" /\ state = "none")]_vars
=============================================================================
