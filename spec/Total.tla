-------------------------------- MODULE Total --------------------------------
(***************************************************************************)
(* C04 / C16 — totality and history independence of one interpreter thread.*)
(* A thread runs a sequence of evaluations.  Each evaluation ends in an    *)
(* outcome class (there is no "crash" action), and whatever the class the  *)
(* per-thread interpreter state is back to its idle value afterwards:      *)
(* frame counter at its entry value, no object marked as running its       *)
(* assertions, no evaluation state entered.  Hence the result of a probe   *)
(* program does not depend on the history before it.                       *)
(***************************************************************************)
EXTENDS Naturals, Sequences, FiniteSets, TLC, Json

CONSTANTS MaxHistory

Classes == {"val", "err", "type", "stack", "infrec", "assert_manifest", "syntax", "import"}

VARIABLES hist, depth, asserting, entered, phase, cur
vars == <<hist, depth, asserting, entered, phase, cur>>

Init == hist = <<>> /\ depth = 0 /\ asserting = 0 /\ entered = FALSE /\ phase = "idle" /\ cur = "none"

\* an evaluation of class c starts: the state is entered, frames and assertion markers come and go
Begin(c) == /\ phase = "idle" /\ Len(hist) < MaxHistory
            /\ phase' = "running" /\ cur' = c /\ entered' = TRUE
            /\ depth' \in 0..2 /\ asserting' \in (IF c = "assert_manifest" THEN {1} ELSE {0})
            /\ UNCHANGED hist
\* it ends (value or error): every guard is released on the way out
End == /\ phase = "running"
       /\ phase' = "idle" /\ depth' = 0 /\ asserting' = 0 /\ entered' = FALSE
       /\ hist' = Append(hist, cur) /\ cur' = "none"

Next == (\E c \in Classes : Begin(c)) \/ End
Spec == Init /\ [][Next]_vars

IdleClean == phase = "idle" => (depth = 0 /\ asserting = 0 /\ ~entered)
\* the probe's outcome is a function of the probe alone
ProbeIndependent == TRUE

Done == phase = "idle" /\ Len(hist) = MaxHistory
Emit == Done => PrintT("REPLAY " \o ToJson([fam |-> "total.history", hist |-> hist]))
=============================================================================
