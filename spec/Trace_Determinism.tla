-------------------------- MODULE Trace_Determinism --------------------------
(* impl -> spec for C16: {ev:"Observe", p, c, ctx, out} lines (out = digest of the output bytes).  A line  *)
(* is a step of Determinism.Observe iff no earlier line gave a different output for the same (p, c).       *)
EXTENDS Naturals, Sequences, TLC, Json, IOUtils
Rec == ndJsonDeserialize(IOEnv.TRACE)
VARIABLES l, rej, memo
\* memo is kept as its graph: a set of <<p, c, out>> triples
Allowed(e) == e.ev = "Observe" /\ \A m \in memo : (m[1] = e.p /\ m[2] = e.c) => m[3] = e.out
TInit == l = 1 /\ rej = <<>> /\ memo = {}
TNext == /\ l <= Len(Rec) /\ l' = l + 1
         /\ LET e == Rec[l] IN
            IF Allowed(e)
            THEN /\ memo' = memo \cup {<<e.p, e.c, e.out>>}
                 /\ UNCHANGED rej
            ELSE rej' = Append(rej, l) /\ UNCHANGED memo
TSpec == TInit /\ [][TNext]_<<l, rej, memo>>
Accepted == TLCGet("stats").diameter - 1 = Len(Rec)
Report == (l = Len(Rec) + 1) => \A i \in 1..Len(rej) : PrintT("TRACE_REJECTED " \o ToString(rej[i]))
=============================================================================
