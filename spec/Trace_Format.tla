----------------------------- MODULE Trace_Format -----------------------------
(* impl -> spec for the floating conversions of C12: the harness records, per case, the flags, the      *)
(* width, the sign and the oracle's magnitude text (CPython printf of |v| with the same precision and   *)
(* alternate-form flag) next to the implementation's output; the output must be "[" LayoutFloat "]".    *)
EXTENDS Format, IOUtils
Rec == ndJsonDeserialize(IOEnv.TRACE)
VARIABLES l, rej
Flags(e) == [alt |-> e.alt, zero |-> e.zero, left |-> e.left, blank |-> e.blank, plus |-> e.plus]
StepOk(e) ==
  /\ e.ev = "Float"
  /\ e.k = "val"
  /\ e.out = <<91>> \o LayoutFloat(e.neg, e.m, Flags(e), e.width) \o <<93>>
TInit == l = 1 /\ rej = <<>> /\ st = [ph |-> "seed"]
TNext == /\ l <= Len(Rec) /\ l' = l + 1 /\ UNCHANGED st
         /\ rej' = IF StepOk(Rec[l]) THEN rej ELSE Append(rej, l)
TSpec == TInit /\ [][TNext]_<<l, rej, st>>
Accepted == TLCGet("stats").diameter - 1 = Len(Rec)
Report == (l = Len(Rec) + 1) => \A i \in 1..Len(rej) : PrintT("TRACE_REJECTED " \o ToString(rej[i]))
=============================================================================
