--------------------------- MODULE Trace_Formatter ---------------------------
(* impl -> spec for C19 / C20: one line per (program, indent):                                              *)
(*   {ev:"Format", prog, valid, outcome ("formatted" | "declined" | "crash"), ast_in, ast_out, cm_in, cm_out,  *)
(*    fixed, diag}; prog = the text is one of the generated valid programs (not an arbitrary text), diag =   *)
(*    the text belongs to a systematic family (programs, token sequences, literals) rather than random noise *)
(* ast_* are digests of the evaluator parser's tree after SugarNorm ("reject" when it does not parse),      *)
(* cm_* digests of the normalised comment sequences, fixed = (second pass output = first pass output).      *)
(* Prop selects which property's clauses judge the line.                                                    *)
EXTENDS Naturals, Sequences, TLC, Json, IOUtils
CONSTANT Prop
Rec == ndJsonDeserialize(IOEnv.TRACE)
VARIABLES l, rej
\* Formatter.Preserves for the observed pair (text, fmt[indent][text])
C19(e) == (e.valid /\ e.outcome = "formatted") => (e.ast_out # "reject" /\ e.ast_out = e.ast_in /\ e.cm_out = e.cm_in)
\* Formatter.Diagnoses, Formatter.Idempotent and totality (there is no crash outcome)
C20(e) == /\ e.outcome \in {"formatted", "declined"}
          /\ ((e.diag /\ ~e.valid) => e.outcome = "declined")                  \* judged on the systematic text families
          /\ ((e.prog /\ e.valid /\ e.outcome = "formatted") => e.fixed)   \* quantified over the generated valid programs
Allowed(e) == e.ev = "Format" /\ (IF Prop = "C19" THEN C19(e) ELSE C20(e))
TInit == l = 1 /\ rej = <<>>
TNext == /\ l <= Len(Rec) /\ l' = l + 1
         /\ rej' = IF Allowed(Rec[l]) THEN rej ELSE Append(rej, l)
TSpec == TInit /\ [][TNext]_<<l, rej>>
Accepted == TLCGet("stats").diameter - 1 = Len(Rec)
Report == (l = Len(Rec) + 1) => \A i \in 1..Len(rej) : PrintT("TRACE_REJECTED " \o ToString(rej[i]))
=============================================================================
