CONSTANT Prop = "C19"
SPECIFICATION TSpec
INVARIANT Report
POSTCONDITION Accepted
CHECK_DEADLOCK FALSE
