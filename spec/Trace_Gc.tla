------------------------------- MODULE Trace_Gc -------------------------------
(* impl -> spec: one line per evaluation of the real interpreter in a fresh state:           *)
(*   {ev:"Eval", class, before, after}: tracked objects before the evaluation and after      *)
(*   dropping everything and collecting. The line is a behaviour of Gc iff after = before    *)
(*   (Evaluate; DropAll; Collect ends with tracked = baseline) and the class is an outcome.  *)
EXTENDS Naturals, Sequences, TLC, Json, IOUtils
Rec == ndJsonDeserialize(IOEnv.TRACE)
VARIABLES l, rej
Classes == {"val", "err", "stack", "infrec", "assert"}
StepOk(e) == e.ev = "Eval" /\ e.class \in Classes /\ e.after = e.before
TInit == l = 1 /\ rej = <<>>
TNext == /\ l <= Len(Rec) /\ l' = l + 1
         /\ rej' = IF StepOk(Rec[l]) THEN rej ELSE Append(rej, l)
TSpec == TInit /\ [][TNext]_<<l, rej>>
Accepted == TLCGet("stats").diameter - 1 = Len(Rec)
Report == (l = Len(Rec) + 1) => \A i \in 1..Len(rej) : PrintT("TRACE_REJECTED " \o ToString(rej[i]))
=============================================================================
