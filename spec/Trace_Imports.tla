---------------------------- MODULE Trace_Imports ----------------------------
(***************************************************************************)
(* impl -> spec for C07: the import-cache events emitted by the hooks in   *)
(* State::import_resolved* must be a behaviour of the cache protocol of    *)
(* Imports.tla, per evaluation state:                                      *)
(*   load p        only while the state does not hold an evaluated or      *)
(*                 evaluating p (each file is read at most once)           *)
(*   eval_begin p  only when p is neither evaluating nor evaluated         *)
(*   eval_ok/err   end the innermost evaluation                            *)
(*   hit p         only when p is evaluated                                *)
(*   cycle p       only when p is being evaluated                          *)
(*   run           boundary between two evaluations on the same state:     *)
(*                 nothing may still be marked as evaluating               *)
(*   reset         a new evaluation state                                  *)
(***************************************************************************)
EXTENDS Naturals, Sequences, FiniteSets, TLC, Json, IOUtils

Rec == ndJsonDeserialize(IOEnv.TRACE)
VARIABLES l, rej, evaluating, evaluated, begun, stk, skip
tvars == <<l, rej, evaluating, evaluated, begun, stk, skip>>

Allowed(e) ==
  CASE e.ev = "load"       -> e.p \notin evaluated /\ e.p \notin evaluating /\ e.p \notin begun
    [] e.ev = "eval_begin" -> e.p \notin evaluated /\ e.p \notin evaluating
    [] e.ev = "eval_ok"    -> stk # <<>>
    [] e.ev = "eval_err"   -> stk # <<>>
    [] e.ev = "hit"        -> e.p \in evaluated
    [] e.ev = "cycle"      -> e.p \in evaluating
    [] e.ev = "run"        -> stk = <<>> /\ evaluating = {}
    [] OTHER -> FALSE

Effect(e) ==
  CASE e.ev = "eval_begin" -> /\ evaluating' = evaluating \cup {e.p} /\ begun' = begun \cup {e.p}
                              /\ stk' = <<e.p>> \o stk /\ UNCHANGED evaluated
    [] e.ev = "eval_ok"    -> /\ evaluating' = evaluating \ {Head(stk)} /\ evaluated' = evaluated \cup {Head(stk)}
                              /\ stk' = Tail(stk) /\ UNCHANGED begun
    [] e.ev = "eval_err"   -> /\ evaluating' = evaluating \ {Head(stk)} /\ stk' = Tail(stk)
                              /\ UNCHANGED <<evaluated, begun>>
    [] OTHER -> UNCHANGED <<evaluating, evaluated, begun, stk>>

TInit == l = 1 /\ rej = <<>> /\ evaluating = {} /\ evaluated = {} /\ begun = {} /\ stk = <<>> /\ skip = FALSE
TNext ==
  /\ l <= Len(Rec) /\ l' = l + 1
  /\ LET e == Rec[l] IN
     IF e.ev = "reset"
     THEN /\ evaluating' = {} /\ evaluated' = {} /\ begun' = {} /\ stk' = <<>> /\ skip' = FALSE
          /\ rej' = IF ~skip /\ stk # <<>> THEN Append(rej, l) ELSE rej
     ELSE IF skip THEN UNCHANGED <<rej, evaluating, evaluated, begun, stk, skip>>
     ELSE IF Allowed(e) THEN Effect(e) /\ UNCHANGED <<rej, skip>>
     ELSE /\ rej' = Append(rej, l) /\ skip' = TRUE /\ UNCHANGED <<evaluating, evaluated, begun, stk>>
TSpec == TInit /\ [][TNext]_tvars
Accepted == TLCGet("stats").diameter - 1 = Len(Rec)
Report == (l = Len(Rec) + 1) => \A i \in 1..Len(rej) : PrintT("TRACE_REJECTED " \o ToString(rej[i]))
=============================================================================
