---------------------------- MODULE Trace_JsonText ----------------------------
(***************************************************************************)
(* impl -> spec: every line of the recorded trace is one manifestation /   *)
(* parse step of the real implementation; the trace is accepted iff each   *)
(* step is allowed by JsonText.                                            *)
(*   Manifest  v path k text : k="val" needs ~HasFunc(v) /\ Accepts(v,text)*)
(*                             k="err" needs HasFunc(v)                    *)
(*   ParseJson v text k eq   : a text the Reader reads as Visible(v) must  *)
(*                             be parsed (k="val") into an equal value     *)
(*   Number    text rb       : RFC 8259 number syntax, no exponent-less    *)
(*                             NaN/inf spellings; rb = oracle read-back    *)
(***************************************************************************)
EXTENDS JsonText, IOUtils

Rec == ndJsonDeserialize(IOEnv.TRACE)

VARIABLE l

StepOk(e) ==
  CASE e.ev = "Manifest" ->
         IF e.k = "val" THEN ~HasFunc(e.v) /\ Accepts(e.v, e.text)
         ELSE e.k = "err" /\ HasFunc(e.v)
    [] e.ev = "ParseJson" ->
         LET r == Reader(e.text) IN
         IF r.ok /\ r.v = Visible(e.v) THEN e.k = "val" /\ e.eq
         ELSE TRUE
    [] e.ev = "Number" ->
         LET r == ReadNumber(e.text, 1) IN
         r.ok /\ r.p = Len(e.text) + 1 /\ e.rb
    [] OTHER -> FALSE

\* every line is judged independently: a rejected line is recorded and the rest of the trace is
\* still checked (so one known finding cannot hide a different violation)
VARIABLE rej
TInit == l = 1 /\ rej = <<>>
TNext == /\ l <= Len(Rec)
         /\ l' = l + 1
         /\ rej' = IF StepOk(Rec[l]) THEN rej ELSE Append(rej, l)
TSpec == TInit /\ [][TNext]_<<l, rej>>

\* evaluated in the final state of the (linear) behaviour
Accepted ==
  LET d == TLCGet("stats").diameter IN
  /\ d - 1 = Len(Rec)
  /\ TRUE
Report == (l = Len(Rec) + 1) =>
            \A i \in 1..Len(rej) : PrintT("TRACE_REJECTED " \o ToString(rej[i]))
=============================================================================
