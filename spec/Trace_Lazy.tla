------------------------------ MODULE Trace_Lazy ------------------------------
(***************************************************************************)
(* impl -> spec for C03: the memoisation events recorded by the hooks of   *)
(* the real evaluator (thunks, array elements, mapped elements, object     *)
(* field cache entries) must be a behaviour of the Lazy cell protocol:     *)
(*   start   only on a Waiting cell (never a second time)  -> Pending      *)
(*   finish / fail  only for the innermost running cell    -> stored       *)
(*   hit / hit_err  only on a cell with a stored outcome                   *)
(*   reenter        only on a Pending cell                                 *)
(*   drop           forgets a cell (address / identity retired)            *)
(*   reset          separates evaluations; the stack must be empty         *)
(* Named deviation: "restart" (object field started again while Pending,   *)
(* the implementation does this while the object's assertions run).  It is *)
(* not an action of Lazy; it is consumed but reported as TRACE_REJECTED.   *)
(* After a rejection the rest of that evaluation (up to the next reset) is *)
(* skipped, later evaluations are still judged.                            *)
(***************************************************************************)
EXTENDS Naturals, Sequences, TLC, Json, IOUtils

Rec == ndJsonDeserialize(IOEnv.TRACE)

VARIABLES l, rej, cst, stk, skip
tvars == <<l, rej, cst, stk, skip>>

StateOf(k) == IF k \in DOMAIN cst THEN cst[k] ELSE "waiting"
Set(k, s) == [x \in DOMAIN cst \cup {k} |-> IF x = k THEN s ELSE cst[x]]
Forget(k) == [x \in DOMAIN cst \ {k} |-> cst[x]]

\* does the protocol allow event e in the current state?
Allowed(e) ==
  LET k == e.c IN
  CASE e.ev = "start"   -> StateOf(k) = "waiting"
    [] e.ev = "finish"  -> stk # <<>> /\ Head(stk) = k /\ StateOf(k) = "pending"
    [] e.ev = "fail"    -> stk # <<>> /\ Head(stk) = k /\ StateOf(k) = "pending"
    [] e.ev = "hit"     -> StateOf(k) = "computed"
    [] e.ev = "hit_err" -> StateOf(k) = "errored"
    [] e.ev = "hit_any" -> StateOf(k) \in {"computed", "errored"}
    [] e.ev = "reenter" -> StateOf(k) = "pending"
    [] e.ev = "drop"    -> StateOf(k) # "pending"
    [] e.ev = "reset"   -> stk = <<>>
    [] OTHER -> FALSE

Effect(e) ==
  LET k == e.c IN
  CASE e.ev = "start"  -> /\ cst' = Set(k, "pending") /\ stk' = <<k>> \o stk
    [] e.ev = "finish" -> /\ cst' = Set(k, "computed") /\ stk' = Tail(stk)
    [] e.ev = "fail"   -> /\ cst' = Set(k, "errored") /\ stk' = Tail(stk)
    [] e.ev = "drop"   -> /\ cst' = Forget(k) /\ UNCHANGED stk
    [] e.ev = "reset"  -> /\ cst' = <<>> /\ stk' = <<>>
    [] OTHER -> UNCHANGED <<cst, stk>>

TInit == l = 1 /\ rej = <<>> /\ cst = <<>> /\ stk = <<>> /\ skip = FALSE
TNext ==
  /\ l <= Len(Rec) /\ l' = l + 1
  /\ LET e == Rec[l] IN
     IF e.ev = "reset"
     THEN \* an evaluation ended: nothing may still be running (QuiescentClean)
          /\ cst' = <<>> /\ stk' = <<>> /\ skip' = FALSE
          /\ rej' = IF ~skip /\ stk # <<>> THEN Append(rej, l) ELSE rej
     ELSE IF skip THEN UNCHANGED <<rej, cst, stk, skip>>
     ELSE IF Allowed(e) THEN Effect(e) /\ UNCHANGED <<rej, skip>>
     ELSE /\ rej' = Append(rej, l) /\ skip' = TRUE /\ UNCHANGED <<cst, stk>>
TSpec == TInit /\ [][TNext]_tvars

Accepted == TLCGet("stats").diameter - 1 = Len(Rec)
Report == (l = Len(Rec) + 1) => \A i \in 1..Len(rej) : PrintT("TRACE_REJECTED " \o ToString(rej[i]))
=============================================================================
