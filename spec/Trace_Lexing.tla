----------------------------- MODULE Trace_Lexing -----------------------------
(* impl -> spec for C17 (a): {ev:"Lex", len, toks:[[s,e],...], lossless, tree_len}. A line is accepted iff the  *)
(* token list is a complete run of Lexing (Tiles) and the syntax tree spells the input (lossless, same length). *)
EXTENDS Naturals, Sequences, TLC, Json, IOUtils
Rec == ndJsonDeserialize(IOEnv.TRACE)
L == INSTANCE Lexing WITH MaxLen <- 0, len <- 0, cursor <- 0, toks <- <<>>, phase <- "x"
VARIABLES l, rej
Allowed(e) == e.ev = "Lex" /\ L!Tiles(e.toks, e.len) /\ e.lossless /\ e.tree_len = e.len
TInit == l = 1 /\ rej = <<>>
TNext == /\ l <= Len(Rec) /\ l' = l + 1
         /\ rej' = IF Allowed(Rec[l]) THEN rej ELSE Append(rej, l)
TSpec == TInit /\ [][TNext]_<<l, rej>>
Accepted == TLCGet("stats").diameter - 1 = Len(Rec)
Report == (l = Len(Rec) + 1) => \A i \in 1..Len(rej) : PrintT("TRACE_REJECTED " \o ToString(rej[i]))
=============================================================================
