----------------------------- MODULE Trace_Numbers -----------------------------
(* impl -> spec for C09 (finiteness): one event per numeric operation executed by the implementation.   *)
(* The oracle fields come from IEEE-754 hardware arithmetic / the platform math library (python floats): *)
(*   cls   "finite" | "nonfinite"  class of the correctly rounded result                                 *)
(*   ulps  distance between the implementation's value and the oracle's, in units in the last place      *)
(* The specification: an operation whose result is not finite is an error; a finite result is returned   *)
(* exactly (arithmetic, sqrt, floor, ceil, abs, ...) or within one ulp of the platform library           *)
(* (transcendental functions); the printed text never contains NaN or inf.                               *)
EXTENDS Naturals, Sequences, TLC, Json, IOUtils
Rec == ndJsonDeserialize(IOEnv.TRACE)
VARIABLES l, rej
Exact == {"+", "-", "*", "/", "%", "neg", "sqrt", "floor", "ceil", "abs", "max", "min", "sign", "round", "mod", "modulo", "exponent", "mantissa"}
StepOk(e) ==
  /\ e.ev = "NumOp"
  /\ IF e.cls = "nonfinite" THEN e.k = "err"
     ELSE /\ e.k = "val" /\ e.text_ok
          /\ IF e.op \in Exact THEN e.ulps = 0 ELSE e.ulps <= 1
TInit == l = 1 /\ rej = <<>>
TNext == /\ l <= Len(Rec) /\ l' = l + 1
         /\ rej' = IF StepOk(Rec[l]) THEN rej ELSE Append(rej, l)
TSpec == TInit /\ [][TNext]_<<l, rej>>
Accepted == TLCGet("stats").diameter - 1 = Len(Rec)
Report == (l = Len(Rec) + 1) => \A i \in 1..Len(rej) : PrintT("TRACE_REJECTED " \o ToString(rej[i]))
=============================================================================
