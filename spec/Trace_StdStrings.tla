--------------------------- MODULE Trace_StdStrings ---------------------------
(* impl -> spec for the digest functions of C11: the harness records the implementation's digest next to  *)
(* the digest computed by python hashlib (oracle-in-trace) of the UTF-8 bytes of the same string; the     *)
(* specification requires a lower-case hexadecimal string of the algorithm's length equal to the oracle's. *)
EXTENDS Naturals, Sequences, TLC, Json, IOUtils
Rec == ndJsonDeserialize(IOEnv.TRACE)
VARIABLES l, rej
HexLen(alg) == CASE alg = "md5" -> 32 [] alg = "sha1" -> 40 [] alg = "sha256" -> 64 [] alg = "sha512" -> 128 [] alg = "sha3" -> 128
IsHex(c) == (c >= 48 /\ c <= 57) \/ (c >= 97 /\ c <= 102)
StepOk(e) == /\ e.ev = "Hash" /\ Len(e.impl) = HexLen(e.alg) /\ (\A i \in 1..Len(e.impl) : IsHex(e.impl[i])) /\ e.impl = e.oracle
TInit == l = 1 /\ rej = <<>>
TNext == /\ l <= Len(Rec) /\ l' = l + 1
         /\ rej' = IF StepOk(Rec[l]) THEN rej ELSE Append(rej, l)
TSpec == TInit /\ [][TNext]_<<l, rej>>
Accepted == TLCGet("stats").diameter - 1 = Len(Rec)
Report == (l = Len(Rec) + 1) => \A i \in 1..Len(rej) : PrintT("TRACE_REJECTED " \o ToString(rej[i]))
=============================================================================
