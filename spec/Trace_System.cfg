CONSTANTS Programs <- MCPrograms
 Files <- MCFiles
 MaxRuns = 100000
 MaxDepth = 1
 Unreadable = {"bad", "missing"}
 Failing = {"err"}
 ErrPrograms = {"p6", "p7"}
 ImportsOf <- MCImportsOf
SPECIFICATION TSpec
INVARIANTS Report TraceInv
POSTCONDITION Accepted
CHECK_DEADLOCK FALSE
