---------------------------- MODULE Trace_System ----------------------------
(* impl -> spec: a recorded run of the implementation (one thread; states created, entered, several evaluations,   *)
(* left, dropped, collected) must be a behaviour of System.  Every event is bound to the System action of the    *)
(* same name; what the implementation does not report (frames, the unwinding of an error) is taken silently:     *)
(* End is preceded by a silent Unwind / LoadFail when the evaluation failed.  A line that no action explains is   *)
(* recorded (TRACE_REJECTED) and skipped, so that the rest of the trace is still checked.                        *)
(*   {ev:"NewState"} {ev:"Enter"} {ev:"Begin",p} {ev:"Load",f} {ev:"Hit",f}                                       *)
(*   {ev:"End",out:"val"|"err"|"crash",depth,asserting} {ev:"Leave",entered} {ev:"DropState"}                     *)
(*   {ev:"Collect",before,after}                                                                                  *)
EXTENDS MC_System, IOUtils
Rec == ndJsonDeserialize(IOEnv.TRACE)
VARIABLES l, rej
tvars == <<vars, l, rej>>
Ev(e) == l <= Len(Rec) /\ Rec[l].ev = e

\* the error paths the implementation does not log
SilentFail == \/ Unwind
              \/ \E f \in Files : LoadFail(f)
EndAfterFail == /\ phase = "running" /\ depth = 0 /\ OutcomeOf(cur) = "err"
                /\ (memo[cur] = "none" \/ memo[cur] = "err")
                /\ memo' = [memo EXCEPT ![cur] = "err"]
                /\ phase' = "idle" /\ cur' = "none" /\ asserting' = 0 /\ pendingImports' = {}
                /\ cache' = [f \in Files |-> IF f \in pendingImports /\ f \in Unreadable THEN "failed" ELSE cache[f]]
                /\ UNCHANGED <<state, entered, depth, loads, tracked, baseline, held, runs>>

Step == \/ (Ev("NewState") /\ NewState)
        \/ (Ev("Enter") /\ Enter)
        \/ (Ev("Begin") /\ Rec[l].p \in Programs /\ Begin(Rec[l].p))
        \/ (Ev("Load") /\ Rec[l].f \in Files /\ Load(Rec[l].f))
        \/ (Ev("Hit") /\ Rec[l].f \in Files /\ Hit(Rec[l].f))
        \/ (Ev("End") /\ phase = "running" /\ Rec[l].depth = 0 /\ Rec[l].asserting = 0 /\ Rec[l].out = OutcomeOf(cur)
                      /\ IF Rec[l].out = "val" THEN End ELSE EndAfterFail)
        \/ (Ev("Leave") /\ Rec[l].entered = FALSE /\ Leave)
        \/ (Ev("DropState") /\ DropState)
        \/ (Ev("Collect") /\ Rec[l].after = Rec[l].before /\ Collect)
TInit == Init /\ l = 1 /\ rej = <<>>
TNext == /\ l <= Len(Rec)
         /\ \/ (Step /\ l' = l + 1 /\ UNCHANGED rej)
            \/ (~ENABLED Step /\ l' = l + 1 /\ rej' = Append(rej, l) /\ UNCHANGED vars)
TSpec == TInit /\ [][TNext]_tvars
Accepted == TLCGet("stats").diameter - 1 = Len(Rec)
Report == (l = Len(Rec) + 1) => \A i \in 1..Len(rej) : PrintT("TRACE_REJECTED " \o ToString(rej[i]))
\* the invariants of System hold along every recorded run
TraceInv == IdleClean /\ ReadOnce /\ EnteredWhileRunning
=============================================================================
