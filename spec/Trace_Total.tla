------------------------------ MODULE Trace_Total ------------------------------
(* impl -> spec for C04/C16: one event per evaluation executed on a worker thread, in order:               *)
(*  {ev:"Eval", k ("val"|"err"|"crash"), depth_before, depth_after, asserting, entered}                  *)
(*  {ev:"Thread"} starts a new worker thread (history restarts).                                          *)
(* Accepted iff every evaluation ends in val or err (Total has no crash action) and leaves the thread     *)
(* idle-clean: IdleClean of Total.tla and Balanced of Stack.tla.                                          *)
EXTENDS Naturals, Sequences, TLC, Json, IOUtils
Rec == ndJsonDeserialize(IOEnv.TRACE)
VARIABLES l, rej
StepOk(e) ==
  \/ e.ev = "Thread"
  \/ /\ e.ev = "Eval" /\ e.k \in {"val", "err"}
     /\ e.depth_after = e.depth_before /\ e.asserting = 0 /\ ~e.entered
TInit == l = 1 /\ rej = <<>>
TNext == /\ l <= Len(Rec) /\ l' = l + 1
         /\ rej' = IF StepOk(Rec[l]) THEN rej ELSE Append(rej, l)
TSpec == TInit /\ [][TNext]_<<l, rej>>
Accepted == TLCGet("stats").diameter - 1 = Len(Rec)
Report == (l = Len(Rec) + 1) => \A i \in 1..Len(rej) : PrintT("TRACE_REJECTED " \o ToString(rej[i]))
=============================================================================
