------------------------------- MODULE Values -------------------------------
(***************************************************************************)
(* Shared value encoding of all jrsonnet specifications.                   *)
(*                                                                         *)
(* Jsonnet values are tagged records; strings are sequences of Unicode     *)
(* code points (naturals); object values are sequences of fields sorted by *)
(* key in ascending code-point order, each field carrying a hidden flag.   *)
(* Numbers are integers (|n| < 2^31) unless a module says otherwise.       *)
(***************************************************************************)
EXTENDS Naturals, Integers, Sequences, FiniteSets, TLC

VNull        == [t |-> "null"]
\* the payload field is named after the type: TLC refuses to compare a boolean with an integer,
\* but records with different domains are simply unequal
VBool(b)     == [t |-> "bool", b |-> b]
VNum(n)      == [t |-> "num",  n |-> n]
VStr(s)      == [t |-> "str",  s |-> s]
VArr(xs)     == [t |-> "arr",  a |-> xs]
VObj(fs)     == [t |-> "obj",  o |-> fs]           \* fs: Seq([k, h, v]) sorted by k
VFunc(n)     == [t |-> "func", n |-> n]
Fld(k, h, v) == [k |-> k, h |-> h, v |-> v]

\* ------------------------------------------------------------------ sequences
SeqsUpTo(S, n) == UNION {[1..k -> S] : k \in 0..n}

RECURSIVE SeqLess(_, _)
\* strict lexicographic order on sequences of naturals (code-point order of strings)
SeqLess(a, b) ==
  IF b = <<>> THEN FALSE
  ELSE IF a = <<>> THEN TRUE
  ELSE IF Head(a) < Head(b) THEN TRUE
  ELSE IF Head(a) > Head(b) THEN FALSE
  ELSE SeqLess(Tail(a), Tail(b))

RECURSIVE Concat(_)
Concat(ss) == IF ss = <<>> THEN <<>> ELSE Head(ss) \o Concat(Tail(ss))

RECURSIVE Join(_, _)
Join(sep, ss) ==
  IF ss = <<>> THEN <<>>
  ELSE IF Len(ss) = 1 THEN ss[1]
  ELSE ss[1] \o sep \o Join(sep, Tail(ss))

RECURSIVE Repeat(_, _)
Repeat(s, n) == IF n <= 0 THEN <<>> ELSE s \o Repeat(s, n - 1)

Last(s) == s[Len(s)]
Front(s) == SubSeq(s, 1, Len(s) - 1)

\* keys of an object value, in order
Keys(o) == [i \in 1..Len(o.o) |-> o.o[i].k]
SortedKeys(fs) == \A i \in 1..(Len(fs) - 1) : SeqLess(fs[i].k, fs[i + 1].k)

\* ------------------------------------------------------------------ visible projection
RECURSIVE Visible(_)
\* what manifestation sees: hidden fields dropped (recursively), flags erased
Visible(v) ==
  CASE v.t = "arr" -> VArr([i \in 1..Len(v.a) |-> Visible(v.a[i])])
    [] v.t = "obj" ->
         LET vis == SelectSeq(v.o, LAMBDA f : ~f.h)
         IN  VObj([i \in 1..Len(vis) |-> Fld(vis[i].k, FALSE, Visible(vis[i].v))])
    [] OTHER -> v

RECURSIVE HasFunc(_)
HasFunc(v) ==
  CASE v.t = "func" -> TRUE
    [] v.t = "arr" -> \E i \in 1..Len(v.a) : HasFunc(v.a[i])
    [] v.t = "obj" -> \E i \in 1..Len(v.o) : ~v.o[i].h /\ HasFunc(v.o[i].v)
    [] OTHER -> FALSE

\* ------------------------------------------------------------------ decimal digits
RECURSIVE NatDigits(_)
NatDigits(n) == IF n < 10 THEN <<48 + n>> ELSE NatDigits(n \div 10) \o <<48 + (n % 10)>>
IntDigits(n) == IF n < 0 THEN <<45>> \o NatDigits(0 - n) ELSE NatDigits(n)

HexDigit(d) == IF d < 10 THEN 48 + d ELSE 87 + d      \* lower case
=============================================================================
